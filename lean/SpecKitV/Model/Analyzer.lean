/-
  SpecKitV.Model.Analyzer — hand model of the glue in analysis.py:
  Kaiser window construction, single-bin segmentation, the per-bin loop with its two caches,
  the plan cache / call-history state machine, the lazy attribute cache of a result,
  input layout normalisation and the constructor's buffer aliasing.
-/
import SpecKitV.Num
import SpecKitV.Model.Sched

namespace Model
open RealLike
variable {α : Type} [RealLike α]

/-! ### Kaiser window (analysis.py:612, 871): `np.kaiser(L+1, beta)[:-1]`, `beta = alpha*pi` -/

/-- modified Bessel function I0 by its power series `Σ_k ((x/2)^k / k!)²`, `terms` terms -/
def besselI0 (terms : Nat) (x : α) : α :=
  let h := x / two
  (forRange terms ((one : α), (one : α)) (fun k (acc : α × α) =>
      -- acc = (sum so far, current term t_k = ((x/2)^k/k!)^2)
      let t := acc.2 * (h / ofNat (k + 1)) * (h / ofNat (k + 1))
      (acc.1 + t, t))).1

/-- sample `n < L` of the DFT-even Kaiser window of length `L`:
    `I0(beta*sqrt(1 - ((n - L/2)/(L/2))^2)) / I0(beta)` -/
def kaiserWin (L : Nat) (beta : α) (n : Nat) : α :=
  let a : α := ofNat L / two
  let u := (ofNat n - a) / a
  besselI0 80 (beta * sqrt (one - u * u)) / besselI0 80 beta

/-- `kaiser_alpha(psll)` (utils.py:141-147) — also translated in Gen/Utils -/
def kaiserAlpha (psll : α) : α :=
  let a0 : α := -(ofSci 821377 true 7)
  let a1 : α := ofSci 471469 true 5
  let a2 : α := -(ofSci 493285 true 6)
  let a3 : α := ofSci 889732 true 7
  let x := psll / ofNat 100
  ((((a3 * x) + a2) * x) + a1) * x + a0

/-! ### single-bin segmentation (analysis.py:587-605) -/

def singleBinStarts (N L : Nat) (olap : α) : List Int :=
  if N = L then [0]
  else
    let navg := roundHalfUp ((ofInt ((N : Int) - (L : Int)) / (one - olap)) / ofNat L + one)
    if navg ≤ 1 then [0]
    else
      let shift : α := ofInt ((N : Int) - (L : Int)) / ofInt (navg - 1)
      (List.range navg.toNat).map (fun i => roundEven (ofNat i * shift))

/-! ### the per-bin loop of `_lpsd_core` with its two caches (analysis.py:847-1012)

`W` window data, `Qt` detrend basis, `Out` per-bin output.  `mkWin L`, `mkQ L order` are the
constructors; the loop looks each up in an association list first. -/

section Core
variable {W Qt Out B : Type}

def lookup {κ ν : Type} [DecidableEq κ] (k : κ) : List (κ × ν) → Option ν
  | [] => none
  | (k', v) :: rest => if k = k' then some v else lookup k rest

structure Caches (W Qt : Type) where
  win : List (Nat × W)
  q : List ((Nat × Int) × Qt)

/-- one bin: fetch or build the window and (for order 1,2) the basis, run the kernel -/
def coreStep (mkWin : Nat → W) (mkQ : Nat → Int → Qt) (order : Int) (lenOf : B → Nat)
    (kern : B → W → Option Qt → Out) (c : Caches W Qt) (b : B) : Out × Caches W Qt :=
  let L := lenOf b
  let (w, c1) : W × Caches W Qt :=
    match lookup L c.win with
    | some w => (w, c)
    | none => let w := mkWin L; (w, { c with win := (L, w) :: c.win })
  if order = 1 ∨ order = 2 then
    let (q, c2) : Qt × Caches W Qt :=
      match lookup (L, order) c1.q with
      | some q => (q, c1)
      | none => let q := mkQ L order; (q, { c1 with q := ((L, order), q) :: c1.q })
    (kern b w (some q), c2)
  else (kern b w none, c1)

def coreLoop (mkWin : Nat → W) (mkQ : Nat → Int → Qt) (order : Int) (lenOf : B → Nat)
    (kern : B → W → Option Qt → Out) : Caches W Qt → List B → List Out
  | _, [] => []
  | c, b :: bs =>
    let (o, c') := coreStep mkWin mkQ order lenOf kern c b
    o :: coreLoop mkWin mkQ order lenOf kern c' bs

/-- the cache invariant: every cached entry is the function of its key -/
def CachesOk (mkWin : Nat → W) (mkQ : Nat → Int → Qt) (c : Caches W Qt) : Prop :=
  (∀ L w, lookup L c.win = some w → w = mkWin L) ∧
  (∀ k q, lookup k c.q = some q → q = mkQ k.1 k.2)

end Core

/-! ### band restriction (analysis.py:501-514): one mask applied to every per-bin field -/

def bandFilter {B : Type} (fOf : B → α) (lo hi : α) (bins : List B) : List B :=
  bins.filter (fun b => ge (fOf b) lo && le (fOf b) hi)

/-! ### plan cache and call history (analysis.py:379-531, 763-830) -/

section History
variable {P R S : Type}

structure AState (P : Type) where
  cache : Option P
  jdes : Nat

inductive AOp (Q : Type) where
  | plan
  | compute
  | single (q : Q)

inductive AOut (P R S : Type) where
  | plan (p : P)
  | result (r : R)
  | single (s : S)
  | error

/-- `plan()`: cached plan if present; otherwise (optionally after the forced-count search, which
    overwrites `Jdes` with the solved value) build, validate and cache it.
    `build J = none` models any exception raised while building/validating. -/
def planStep (force : Bool) (search : Nat → Option Nat) (build : Nat → Option P)
    (s : AState P) : Option P × AState P :=
  match s.cache with
  | some p => (some p, s)
  | none =>
    if force then
      match search s.jdes with
      | none => (none, s)
      | some J =>
        match build J with
        | some p => (some p, { cache := some p, jdes := J })
        | none => (none, { s with jdes := J })
    else
      match build s.jdes with
      | some p => (some p, { s with cache := some p })
      | none => (none, s)

def aStep {Q : Type} (force : Bool) (search : Nat → Option Nat) (build : Nat → Option P)
    (comp : P → R) (single : Q → S) (s : AState P) : AOp Q → AOut P R S × AState P
  | .plan => match planStep force search build s with
    | (some p, s') => (.plan p, s')
    | (none, s') => (.error, s')
  | .compute => match planStep force search build s with
    | (some p, s') => (.result (comp p), s')
    | (none, s') => (.error, s')
  | .single q => (.single (single q), s)

def aRun {Q : Type} (force : Bool) (search : Nat → Option Nat) (build : Nat → Option P)
    (comp : P → R) (single : Q → S) : AState P → List (AOp Q) → List (AOut P R S)
  | _, [] => []
  | s, op :: ops =>
    let (o, s') := aStep force search build comp single s op
    o :: aRun force search build comp single s' ops

end History

/-! ### lazy attribute cache of a result (analysis.py:1124-1373) -/

section Lazy
variable {V : Type}

/-- reading attribute `name`: a cached value is returned as is; otherwise it is computed
    (`eval name`) and stored together with whatever attributes its computation touched
    (`touched name`, each stored with its own computed value). -/
def lazyGet (eval : String → V) (touched : String → List String) (cache : List (String × V))
    (name : String) : V × List (String × V) :=
  match lookup name cache with
  | some v => (v, cache)
  | none =>
    let v := eval name
    (v, (name, v) :: ((touched name).map (fun n => (n, eval n)) ++ cache))

def lazyRun (eval : String → V) (touched : String → List String) :
    List (String × V) → List String → List V
  | _, [] => []
  | c, n :: ns =>
    let (v, c') := lazyGet eval touched c n
    v :: lazyRun eval touched c' ns

end Lazy

/-! ### input layout (analysis.py:204-240): which axis holds the two channels -/

/-- channel `ch` sample `i` of a 2-D input of shape `(r, c)` given as `a row col` -/
def channelOf (r c : Nat) (a : Nat → Nat → α) (ch i : Nat) : α :=
  if r = 2 ∧ c ≠ 2 then a ch i
  else if c = 2 ∧ r ≠ 2 then a i ch
  else a ch i   -- 2×2: rows are channels

/-- non-finite samples are replaced by zero; on the model's number types every value is finite,
    so sanitising is described by a predicate `bad` chosen by the caller -/
def sanitise (bad : α → Bool) (x : α) : α := if bad x then zero else x

/-! ### constructor buffer aliasing (analysis.py:204-235) as operations on a tiny heap -/

structure ArrDesc where
  buf : Nat          -- buffer id
  contig : Bool      -- C-contiguous
  fcontig : Bool     -- Fortran-contiguous (its transposed view is then C-contiguous)
  f64 : Bool         -- dtype float64
  isArray : Bool     -- an ndarray (not a list / other container)
deriving DecidableEq, Repr

inductive HeapOp where
  | asarray            -- np.asarray(data)
  | transposeView      -- x.T
  | ascontig64         -- np.ascontiguousarray(·, dtype=float64)
  | nanToNumInPlace    -- np.nan_to_num(·, copy=False, …)   (writes its argument's buffer)
  | nanToNumCopy       -- · = np.nan_to_num(·, copy=True, …)
deriving DecidableEq, Repr

structure HeapSt where
  cur : ArrDesc
  next : Nat            -- next fresh buffer id
  written : List Nat    -- buffers written so far
deriving Repr

def heapStep (s : HeapSt) : HeapOp → HeapSt
  | .asarray =>
    if s.cur.isArray then s
    else { s with cur := { buf := s.next, contig := true, fcontig := false, f64 := s.cur.f64, isArray := true }, next := s.next + 1 }
  | .transposeView => { s with cur := { s.cur with contig := s.cur.fcontig, fcontig := s.cur.contig } }
  | .ascontig64 =>
    if s.cur.contig && s.cur.f64 then s
    else { s with cur := { buf := s.next, contig := true, fcontig := false, f64 := true, isArray := true }, next := s.next + 1 }
  | .nanToNumInPlace => { s with written := s.cur.buf :: s.written }
  | .nanToNumCopy =>
    { s with cur := { buf := s.next, contig := true, fcontig := false, f64 := true, isArray := true }, next := s.next + 1 }

def heapRun (ops : List HeapOp) (input : ArrDesc) : HeapSt :=
  ops.foldl heapStep { cur := input, next := input.buf + 1, written := [] }

end Model
