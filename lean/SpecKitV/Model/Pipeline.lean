/-
  SpecKitV.Model.Pipeline — composition layer of `_lpsd_core` (analysis.py:832-1012) and of the
  kernel section of `compute_single_bin` (analysis.py:622-735): the per-bin loop of
  `Model.coreLoop` (window cache per `L`, basis cache per `(L, order)`) instantiated with the
  machine-translated Numba kernels of `SpecKitV.Gen.CoreKernels`, selected by mode (auto/cross)
  and detrend order exactly as the source does.  Mathlib-free.
-/
import SpecKitV.Model.Analyzer
import SpecKitV.Gen.CoreKernels

namespace Model
variable {α : Type} [RealLike α]

/-- what `_lpsd_core` needs of one plan bin: `plan["f"][i]`, `plan["L"][i]`, `plan["D"][i]` -/
structure PBin (α : Type) where
  f : α
  L : Nat
  D : Arr Nat          -- segment starts

/-- kernel dispatch of `_lpsd_core` (analysis.py:898-994; same in `compute_single_bin`, 631-735),
    Numba backend: by mode (auto/cross) and detrend order.
    `omega = 2.0 * np.pi * f_i / fs` is `((2·π)·f)/fs` (Python's left-to-right association).
    The order tests are those of the source, in the source's sequence: `order == -1`, `order == 0`,
    `order in (1, 2)`, otherwise `raise ValueError` (modelled by the all-zero tuple; the same value
    stands for the unreachable "order 1/2 without a basis"). -/
def dispatch (iscsd : Bool) (order : Int) (x1 x2 : Arr α) (fs : α) (b : PBin α) (w : Arr α)
    (q : Option (Arr2 α)) : α × α × α × α × α :=
  let omega := RealLike.two * RealLike.pi * b.f / fs
  let err : α × α × α × α × α :=
    (RealLike.zero, RealLike.zero, RealLike.zero, RealLike.zero, RealLike.zero)
  if order = -1 then
    (if iscsd then Gen._stats_win_only_csd x1 x2 b.D b.L w omega
     else Gen._stats_win_only_auto x1 b.D b.L w omega)
  else if order = 0 then
    (if iscsd then Gen._stats_detrend0_csd x1 x2 b.D b.L w omega
     else Gen._stats_detrend0_auto x1 b.D b.L w omega)
  else if order = 1 ∨ order = 2 then
    match q with
    | some Q =>
      (if iscsd then Gen._stats_poly_csd x1 x2 b.D b.L w omega Q
       else Gen._stats_poly_auto x1 b.D b.L w omega Q)
    | none => err      -- unreachable: orders 1,2 always build Q
  else err             -- `raise ValueError("Unsupported detrend order")`

/-- the whole per-bin loop with its caches (both start empty on every call of `_lpsd_core`) -/
def lpsdCore (iscsd : Bool) (order : Int) (x1 x2 : Arr α) (fs : α) (mkWin : Nat → Arr α)
    (mkQ : Nat → Int → Arr2 α) (bins : List (PBin α)) : List (α × α × α × α × α) :=
  coreLoop mkWin mkQ order (fun b => b.L) (fun b w q => dispatch iscsd order x1 x2 fs b w q)
    ⟨[], []⟩ bins

/-- window sums stored with every bin (analysis.py:877-878, 1005-1006):
    `S12 = S1*S1 = (Σ w)²`, `S2 = Σ w*w` -/
def winSums (w : Arr α) : α × α :=
  let s1 := sumRange w.n w.get
  (s1 * s1, sumRange w.n (fun n => w.get n * w.get n))

end Model
