/-
  SpecKitV.Model.EntryPoints — hand-written SPECIFICATIONS (right-hand sides of the equality theorems of
  Props/EntryPointsGen.lean) for

    * `SpectrumResult.__init__` (analysis.py:1054-1114): `resultInit` — every dictionary entry is normalised ON ITS OWN, by a function of
      its key and its value alone (`normEntry`): list → array, then the dtype of its key class, then (key "D") one int64 start vector
      per bin in a 1-D object array; `nf` is the length of the stored `f` (0 when absent); nothing else is stored or changed;
    * the module-level entry points `lpsd`, `compute_spectrum`, `compute_single_bin` (analysis.py:1713-1807): `entrySpectrum`,
      `entrySingleBin` — construct the analyzer from `(data, fs, **kwargs)`, call one method, return its result;
    * `core._select_backend` (core.py:174-209): `selectBackend`, a decision table;
    * `core._check_starts_bounds` (core.py:832-841): `startsInBounds`, a predicate on every start index.
  Mathlib-free.
-/
import SpecKitV.Num
import SpecKitV.Np.EntryPoints

namespace Model
open EP
variable {α : Type} [RealLike α]

/-! ### `SpectrumResult.__init__` -/

/-- keys coerced to float64 / complex128 / int64 -/
def floatKeys : List String := ["f", "r", "b", "S12", "S2", "XX", "YY", "M2", "O", "compute_t"]
def complexKeys : List String := ["XY"]
def intKeys : List String := ["L", "K", "navg", "i"]

/-- apply `conv` to the value when the key belongs to `keys`, leave every other entry alone -/
def onKeys (keys : List String) (conv : Val α → Option (Val α)) (key : String) (v : Val α) : Option (Val α) :=
  if key ∈ keys then conv v else some v

/-- first pass: a Python LIST becomes an array — under "D" the 1-D object array of its elements (whatever their shapes), under any other
    key what `np.asarray` makes of a list of numbers; everything that is not a list is left as it is -/
def listToArray (key : String) (v : Val α) : Option (Val α) :=
  match v with
  | .pylist xs => if key = "D" then some (.objvec xs) else asarray v
  | _ => some v

/-- the per-bin start table: every cell of an object array becomes an int64 vector (a row of a 2-D object array becomes one vector);
    a numeric array is left alone; anything else has no `.dtype` (AttributeError) -/
def startsToInt64 (v : Val α) : Option (Val α) :=
  match dtypeIsObject v with
  | none => none
  | some false => some v
  | some true =>
    match iter v with
    | none => none
    | some cells => (optMap asarrayItemInt64 cells).map Val.objvec

/-- what `__init__` stores under `key` when it is handed `v` -/
def normEntry (key : String) (v : Val α) : Option (Val α) :=
  match listToArray key v with
  | none => none
  | some v1 =>
  match onKeys floatKeys (ascontiguousarray .float64) key v1 with
  | none => none
  | some v2 =>
  match onKeys complexKeys (ascontiguousarray .complex128) key v2 with
  | none => none
  | some v3 =>
  match onKeys intKeys (ascontiguousarray .int64) key v3 with
  | none => none
  | some v4 => onKeys ["D"] startsToInt64 key v4

/-- entry-wise normalisation of a dictionary (same keys, same order; `none` as soon as one entry raises) -/
def normDict (d : Dict α) : Option (Dict α) :=
  optMap (fun kv => (normEntry kv.1 kv.2).map (fun v => (kv.1, v))) d

/-- `SpectrumResult(results_dict, config_dict, iscsd, fs)` -/
def resultInit {C : Type} (d : Dict α) (config : C) (iscsd : Bool) (fs : α) : Option (Result α C) :=
  match normDict d with
  | none => none
  | some data =>
    match (match dictGet data "f" with
           | some f => shape0 f
           | none => some 0) with
    | none => none
    | some nf => some { data := data, config := config, iscsd := iscsd, fs := fs, cache := [], nf := nf }

/-- a start vector given as an int64 array, a list or a tuple of Python ints -/
def itemInts? : Item α → Option (List Int)
  | .ivec v => some v
  | .pylist xs => if xs.all Num.isInt then some (xs.map Num.toInt) else none
  | .pytuple xs => if xs.all Num.isInt then some (xs.map Num.toInt) else none
  | _ => none

/-! ### module-level entry points -/

/-- `SpectrumAnalyzer(data, fs, **kwargs).compute()` -/
def entrySpectrum {V E A R : Type} (ctor : CallArgs V → Except E A) (method : String → A → CallArgs V → Except E R)
    (data fs : V) (kwargs : List (String × V)) : Except E R :=
  ctor ⟨[data, fs], kwargs⟩ >>= fun a => method "compute" a ⟨[], []⟩

/-- `SpectrumAnalyzer(data, fs, **kwargs).compute_single_bin(freq=freq, fres=fres, L=L)` -/
def entrySingleBin {V E A R : Type} (ctor : CallArgs V → Except E A) (method : String → A → CallArgs V → Except E R)
    (data fs freq fres L : V) (kwargs : List (String × V)) : Except E R :=
  ctor ⟨[data, fs], kwargs⟩ >>= fun a => method "compute_single_bin" a ⟨[], [("freq", freq), ("fres", fres), ("L", L)]⟩

/-! ### `_select_backend` -/

/-- the decision table: an explicit hint wins, or raises RuntimeError when that backend is unavailable; any other hint ("auto") picks
    CUDA iff it is enabled and there are MORE THAN 1000 segments, else Numba iff enabled, else NumPy -/
def selectBackend (cuda numba : Bool) (K : Int) (hint : String) : Except PyExc String :=
  if hint = "cuda" then (if cuda then .ok "cuda" else .error .RuntimeError)
  else if hint = "numba" then (if numba then .ok "numba" else .error .RuntimeError)
  else if hint = "numpy" then .ok "numpy"
  else if cuda ∧ 1000 < K then .ok "cuda"
  else if numba then .ok "numba"
  else .ok "numpy"

/-! ### `_check_starts_bounds` -/

/-- every segment `[s, s + L)` lies inside the record `[0, N)` -/
def startsInBounds (N : Int) (starts : List Int) (L : Int) : Prop :=
  ∀ s ∈ starts, 0 ≤ s ∧ s + L ≤ N

end Model
