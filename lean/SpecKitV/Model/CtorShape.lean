/-
  SpecKitV.Model.CtorShape — SPECIFICATION of `SpectrumAnalyzer.__init__` (analysis.py:102-281), written by hand, independent of the
  translated text (Gen/CtorShape.lean): what the constructor validates, which config key receives which argument under which coercion,
  which samples become channel 1 / channel 2 (through `Model.channelOf`, Model/Analyzer.lean) and how they are sanitised
  (`Model.sanitise`).  Props/CtorShapeGen.lean proves the translated constructor EQUAL to this specification for all inputs.
  Mathlib-free.
-/
import SpecKitV.Model.Analyzer
import SpecKitV.Np.CtorShape

namespace Model
open CS
variable {α : Type} [RealLike α]

/-- the arguments of the constructor other than the data -/
structure CtorArgs (α : Type) where
  fs : PyVal α
  olap : PyVal α
  bmin : PyVal α
  Lmin : PyVal α
  Jdes : PyVal α
  Kdes : PyVal α
  num_patch_pts : PyVal α
  order : PyVal α
  psll : PyVal α
  win : PyVal α
  scheduler : PyVal α
  band : PyVal α
  force_target_nf : PyVal α
  backend : PyVal α
  verbose : PyVal α

/-- the documented defaults of the keyword-only parameters (docstring of `SpectrumAnalyzer.__init__`) -/
def ctorDefaults : PyDict (PyVal α) :=
  [("olap", .str "default"), ("bmin", .real (RealLike.ofSci 10 true 1)), ("Lmin", .int 1), ("Jdes", .int 500), ("Kdes", .int 100),
   ("num_patch_pts", .int 50), ("order", .int 0), ("psll", .int 200), ("win", .fn "np_kaiser"), ("scheduler", .str "vectorized_ltf"),
   ("band", .none), ("force_target_nf", .bool false), ("backend", .str "auto"), ("verbose", .bool false)]

/-- the arguments of a call `SpectrumAnalyzer(data, fs, **kw)` -/
def ctorArgsOf (fs : PyVal α) (kw : PyDict (PyVal α)) : CtorArgs α :=
  let g := fun k => kwGet kw (ctorDefaults (α := α)) k
  { fs := fs, olap := g "olap", bmin := g "bmin", Lmin := g "Lmin", Jdes := g "Jdes", Kdes := g "Kdes", num_patch_pts := g "num_patch_pts",
    order := g "order", psll := g "psll", win := g "win", scheduler := g "scheduler", band := g "band",
    force_target_nf := g "force_target_nf", backend := g "backend", verbose := g "verbose" }

/-- what the constructor leaves on `self`; arrays as their element lists in C order -/
structure CtorView (α : Type) where
  fs : α
  verbose : Bool
  config : PyDict (PyVal α)
  iscsd : Bool
  nx : Int
  x1 : List α
  x2 : Option (List α)
  dataShape : List Nat
  data : List α
  planCacheNone : Bool

/-- the view of the translated constructor's result -/
def viewOf (o : CtorOut α) : CtorView α :=
  { fs := o.fs, verbose := o.verbose, config := o.config, iscsd := o.iscsd, nx := o.nx, x1 := o.x1.toList,
    x2 := o.x2.map NdArr.toList, dataShape := o.data.shape, data := o.data.toList, planCacheNone := o.plan_cache.isNone }

/-- laws of the number type the sanitising claims rest on (they hold for ℝ, for the strict partial reals and for IEEE doubles):
    a finite value equals itself; the literal `0.0` is zero; zero is finite -/
structure FiniteLaws (α : Type) [RealLike α] : Prop where
  finite_beq : ∀ v : α, isfinite v = true → RealLike.beq v v = true
  zero_lit : (RealLike.ofSci 0 true 1 : α) = RealLike.zero
  zero_finite : isfinite (RealLike.zero : α) = true

/-- a sample is bad iff it is not finite (NaN, +Inf, -Inf) -/
def nonFinite (v : α) : Bool := !(isfinite v)

/-- `fs` must be a number (else TypeError) that is finite and > 0 (else ValueError) -/
def fsCheck (fs : PyVal α) : Except PyExc Unit :=
  match fs.num? with
  | none => .error .TypeError
  | some (.inl z) => if z ≤ 0 then .error .ValueError else .ok ()
  | some (.inr x) => if nonFinite x || RealLike.le x (RealLike.ofInt 0) then .error .ValueError else .ok ()

/-- `order` must equal one of -1, 0, 1, 2 -/
def orderOk (order : PyVal α) : Bool := pyIn order [.int (-1), .int 0, .int 1, .int 2]

/-- the `self.config` literal: key by key, which argument under which coercion; the coercions are evaluated (and raise) in this order -/
def ctorConfig (E : Env α) (a : CtorArgs α) : Except PyExc (PyDict (PyVal α)) :=
  CS.bind (pyFloat E a.bmin) fun bmin =>
  CS.bind (pyInt E a.Lmin) fun Lmin =>
  CS.bind (pyInt E a.Jdes) fun Jdes =>
  CS.bind (pyInt E a.Kdes) fun Kdes =>
  CS.bind (if a.num_patch_pts.isNone then .ok PyVal.none else CS.bind (pyInt E a.num_patch_pts) fun z => .ok (PyVal.int z)) fun npp =>
  CS.bind (pyInt E a.order) fun order =>
  .ok [("olap", a.olap), ("bmin", .real bmin), ("Lmin", .int Lmin), ("Jdes", .int Jdes), ("Kdes", .int Kdes), ("num_patch_pts", npp),
       ("order", .int order), ("psll", a.psll), ("win", a.win), ("scheduler", a.scheduler), ("band", a.band),
       ("force_target_nf", .bool (pyBool a.force_target_nf)), ("backend", .str (pyStr E a.backend))]

/-- the shape decision and the stored channels -/
structure ShapeView (α : Type) where
  iscsd : Bool
  nx : Nat
  x1 : List α
  x2 : Option (List α)
  dataShape : List Nat

/-- 1-D of any length: auto mode, the record itself; 2-D with a side of length 2: cross mode, channels by `Model.channelOf`
    (2×N rows, N×2 columns, 2×2 rows); everything else is rejected.  Every stored sample is `Model.sanitise nonFinite` of the caller's. -/
def ctorShape (x : NdArr α) : Option (ShapeView α) :=
  match x.shape with
  | [n] => some ⟨false, n, (List.range n).map (fun i => sanitise nonFinite (x.get [i])), none, [n]⟩
  | [r, c] =>
    if r = 2 ∨ c = 2 then
      let N := if r = 2 then c else r
      let a := fun i j => x.get [i, j]
      some ⟨true, N, (List.range N).map (fun i => sanitise nonFinite (channelOf r c a 0 i)),
            some ((List.range N).map (fun i => sanitise nonFinite (channelOf r c a 1 i))), [2, N]⟩
    else none
  | _ => none

/-- the whole constructor -/
def ctorSpec (E : Env α) (wstep sstep : Step α) (x : NdArr α) (a : CtorArgs α) : Except PyExc (CtorView α) :=
  CS.bind (fsCheck a.fs) fun _ =>
  if !(orderOk a.order) then .error .ValueError else
  CS.bind (pyFloat E a.fs) fun fs =>
  CS.bind (ctorConfig E a) fun cfg =>
  match ctorShape x with
  | none => .error .ValueError
  | some sh =>
    CS.bind (wstep (cfg ++ [("N", PyVal.int sh.nx)])) fun c1 =>
    CS.bind (sstep c1) fun c2 =>
    .ok { fs := fs, verbose := pyBool a.verbose, config := c2, iscsd := sh.iscsd, nx := sh.nx, x1 := sh.x1, x2 := sh.x2,
          dataShape := sh.dataShape, data := sh.x1 ++ sh.x2.getD [], planCacheNone := true }

end Model
