/-
  SpecKitV.Model.NoiseGens — hand model of what the CONSTRUCTORS of the generator classes of speckit/noise.py leave behind
  (Model/Noise.lean models the request methods only): the generator parameters, the initial filter state, the draws consumed
  before the first request, and the settling requests.  Right-hand sides of the `gen_*_init_eq_model` theorems of
  Props/NoiseGensGen.lean.  Mathlib-free.
-/
import SpecKitV.Num
import SpecKitV.Model.Noise

namespace Model
open RealLike
variable {α : Type} [RealLike α]

/-- `_settle_filter_state` (noise.py:219-233): `ceil(2 fs / fmin)` samples, in one request if that is at most 150 000 000,
    otherwise `ceil(req / 150000000)` requests of 150 000 000 each -/
def settleRequests (fs fmin : α) : List Nat :=
  let req : Int := ceil (two * fs / fmin)
  if req ≤ 150000000 then [req.toNat]
  else List.replicate (ceil ((ofInt req : α) / ofNat 150000000)).toNat 150000000

/-- `white_noise(fs, psd).rms` (noise.py:161) -/
def whiteRms (fs psd : α) : α := sqrt (psd * fs)

/-- `red_noise` parameters (noise.py:282-286): white source of unit PSD, numerator `c = 2π fmin`, pole `e = exp(-2π fmin / fs)`,
    output scaling `1 / (fs fmin)` -/
def redC (fmin : α) : α := two * pi * fmin
def redE (fs fmin : α) : α := exp (-two * pi * fmin / fs)
def redScaling (fs fmin : α) : α := one / (fs * fmin)

/-- `red_noise.__init__` (noise.py:272-293): the state before the first request.  `lfilter_zi([c], [1, -e]) = c e / (1 - e)` is scaled by
    ONE draw of the white source (`rms * xi 0`), so the stream of the generator starts at draw 1; with `init_filter` the settling
    requests follow. -/
def redInit (xi : Nat → α) (fs fmin : α) (init : Bool) : RedSt α :=
  let rms := whiteRms fs one
  let c := redC fmin
  let e := redE fs fmin
  let s0 : RedSt α := { w := ⟨1⟩, zi := c * e / (one - e) * (rms * xi 0) }
  if init then (runRequests (redSeries xi rms c e (redScaling fs fmin)) s0 (settleRequests fs fmin)).2 else s0

/-- sections of `alpha_noise` (noise.py:384-388) from the corner frequencies of the design: coefficients of `filterCoeffs`,
    stored denominator coefficient `-b1`, zero initial state -/
def alphaSecs (fs : α) (fmins fmaxs : Arr α) : List (Section α) :=
  (List.range fmins.n).map (fun i =>
    let cf := filterCoeffs fs (fmins.get i) (fmaxs.get i)
    { a0 := cf.1, a1 := cf.2.1, b1 := -cf.2.2, z := zero })

/-- `alpha_noise._scaling` (noise.py:390): `1 / fmax_eff^(alpha/2)`, `fmax_eff` the last upper corner -/
def alphaScaling (alpha : α) (fmaxs : Arr α) : α := one / pow (fmaxs.get (fmaxs.n - 1)) (alpha / two)

/-- `alpha_noise.__init__` (noise.py:350-393): no draw is consumed before the first request; settling uses the effective
    lower corner `fmins[0]` -/
def alphaInit (xi : Nat → α) (fs alpha : α) (fmins fmaxs : Arr α) (init : Bool) : AlphaSt α :=
  let s0 : AlphaSt α := { w := ⟨0⟩, secs := alphaSecs fs fmins fmaxs }
  if init then
    (runRequests (alphaSeries xi (whiteRms fs one) (alphaScaling alpha fmaxs)) s0 (settleRequests fs (fmins.get 0))).2
  else s0

end Model
