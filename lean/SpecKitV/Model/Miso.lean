/-
  SpecKitV.Model.Miso — hand model of the residual formula of
  systems.MISO_{analytic,numeric}_optimal_spectral_analysis (systems.py:342-356, 529-538):
  `S00 - Σ_i H_i·S0i - Σ_i conj(H_i)·Si0 + Σ_ij conj(H_j)·H_i·T_ji`, `S0i = conj(Si0)`.
-/
import SpecKitV.Num

namespace Model
open RealLike
variable {α : Type} [RealLike α]

def cxSum (n : Nat) (f : Nat → Cx α) : Cx α :=
  forRange n (Cx.ofReal zero) (fun i acc => acc + f i)

/-- residual spectrum (complex, before `abs(sqrt(·))`) at one bin -/
def misoResidual (q : Nat) (S00 : α) (S : Nat → Cx α) (T : Nat → Nat → Cx α) (H : Nat → Cx α) :
    Cx α :=
  let sum1 := cxSum q (fun i => H i * Cx.conj (S i))
  let sum2 := cxSum q (fun i => Cx.conj (H i) * S i)
  let sum3 := cxSum q (fun i => cxSum q (fun j => Cx.conj (H j) * H i * T j i))
  Cx.ofReal S00 - sum1 - sum2 + sum3

end Model
