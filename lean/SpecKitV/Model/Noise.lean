/-
  SpecKitV.Model.Noise — hand model of speckit/noise.py: the first-order IIR cascade,
  the generator classes as state machines over an abstract stream of standard normals,
  the 1/f^alpha filter design, and the FFT synthesiser's index logic.
-/
import SpecKitV.Num

namespace Model
open RealLike
variable {α : Type} [RealLike α]

/-- one DF2T first-order section over a block (noise.py:119-126):
    `y = a0*x + z; z = a1*x - b1*y`.  Returns the outputs and the final state. -/
def sectionRun (a0 a1 b1 : α) : α → List α → List α × α
  | z, [] => ([], z)
  | z, x :: xs =>
    let y := a0 * x + z
    let z' := a1 * x - b1 * y
    let (ys, zf) := sectionRun a0 a1 b1 z' xs
    (y :: ys, zf)

structure Section (α : Type) where
  a0 : α
  a1 : α
  b1 : α   -- the stored denominator coefficient `b_coeffs[i,1]`
  z : α

/-- `_numba_lfilter_cascade` (noise.py:79-128): every section in turn over the whole block -/
def cascadeRun : List (Section α) → List α → List α × List (Section α)
  | [], xs => (xs, [])
  | s :: ss, xs =>
    let (ys, z') := sectionRun s.a0 s.a1 s.b1 s.z xs
    let (out, ss') := cascadeRun ss ys
    (out, { s with z := z' } :: ss')

/-! ### generators as state machines over a stream `xi` of standard normal draws -/

structure WhiteSt where
  cur : Nat

/-- `white_noise.get_series(n)`: `rng.normal(0, rms, n)` = the next `n` draws scaled by `rms` -/
def whiteSeries (xi : Nat → α) (rms : α) (s : WhiteSt) (n : Nat) : List α × WhiteSt :=
  ((List.range n).map (fun i => rms * xi (s.cur + i)), { cur := s.cur + n })

structure RedSt (α : Type) where
  w : WhiteSt
  zi : α

/-- `red_noise.get_series(n)` (noise.py:305-314): zero-length request returns at once;
    otherwise `lfilter([c], [1, -e], w, zi)` (DF2T: `y = c*x + z; z = e*y`) and scaling. -/
def redSeries (xi : Nat → α) (rms c e scaling : α) (s : RedSt α) (n : Nat) :
    List α × RedSt α :=
  if n = 0 then ([], s)
  else
    let (w, ws) := whiteSeries xi rms s.w n
    let (ys, z) := sectionRun c zero (zero - e) s.zi w
    (ys.map (fun y => y * scaling), { w := ws, zi := z })

structure AlphaSt (α : Type) where
  w : WhiteSt
  secs : List (Section α)

/-- `alpha_noise.get_series(n)` (noise.py:413-422) -/
def alphaSeries (xi : Nat → α) (rms scaling : α) (s : AlphaSt α) (n : Nat) :
    List α × AlphaSt α :=
  let (w, ws) := whiteSeries xi rms s.w n
  let (ys, secs) := cascadeRun s.secs w
  (ys.map (fun y => y * scaling), { w := ws, secs := secs })

/-- run a list of block requests, concatenating the outputs -/
def runRequests {σ : Type} (step : σ → Nat → List α × σ) : σ → List Nat → List α × σ
  | s, [] => ([], s)
  | s, n :: ns =>
    let (ys, s') := step s n
    let (rest, sf) := runRequests step s' ns
    (ys ++ rest, sf)

/-- `get_sample` (noise.py:175-193, 235-243): buffered single samples.
    State: generator state and the unread tail of the buffer. -/
def getSample {σ : Type} (step : σ → Nat → List α × σ) (bufSize : Nat)
    (st : σ × List α) : Option α × (σ × List α) :=
  match st.2 with
  | x :: rest => (some x, (st.1, rest))
  | [] =>
    let (ys, s') := step st.1 bufSize
    match ys with
    | [] => (none, (s', []))
    | y :: rest => (some y, (s', rest))

/-! ### 1/f^alpha filter design (noise.py:367-388, 424-435) -/

/-- `_calc_filter_coeffs` for one section: `(a0, a1, b1)` from `(fs, fmin_i, fmax_i)` -/
def filterCoeffs (fs fmin fmax : α) : α × α × α :=
  let pmin := fmin * pi
  let pmax := fmax * pi
  let den := fs + pmin
  ((fs + pmax) / den, ofInt (-1) * (fs - pmax) / den, (fs - pmin) / den)

/-- corner frequencies of section `i` of `num` (noise.py:367-377): `(fmin_i, fmax_i)` -/
def sectionCorners (fmin fmax alpha : α) (num : Nat) (i : Nat) : α × α :=
  let lwmin := log10 (two * pi * fmin)
  let lwmax := log10 (two * pi * fmax)
  let dp := (lwmax - lwmin) / ofNat num
  let lp := lwmin + dp * (ofSci 5 true 1) * ((two * ofNat i + one) - alpha / two)
  (pow (ofNat 10) lp / (two * pi), pow (ofNat 10) (lp + dp * alpha / two) / (two * pi))

def numSections (fmin fmax : α) : Int :=
  ceil (ofSci 45 true 1 * (log10 (two * pi * fmax) - log10 (two * pi * fmin)))

/-! ### FFT synthesiser index logic (noise.py:476-548) -/

/-- after `F[1:Np+1] *= rot; F[-1:-1-Np:-1] = conj(F[1:Np+1])`, DC/Nyquist made real:
    entry `k` of the spectrum handed to `ifft`, given the input `f`, the rotations `rot`
    (indexed from 0 for bin 1), for length `N`. -/
def fftnoiseSpectrum (f : Nat → Cx α) (rot : Nat → Cx α) (N : Nat) (k : Nat) : Cx α :=
  let Np := (N - 1) / 2
  if k = 0 then Cx.ofReal (f 0).re
  else if N % 2 = 0 ∧ k = N / 2 then Cx.ofReal (f k).re
  else if k ≤ Np then f k * rot (k - 1)
  else Cx.conj (f (N - k) * rot (N - k - 1))

/-- `band_limited_noise` mask (noise.py:609-612): `|fftfreq(N, 1/fs)[k]|` within the band -/
def fftfreqAbs (N : Nat) (fs : α) (k : Nat) : α :=
  let kk : Int := if 2 * k < N then (k : Int) else (k : Int) - (N : Int)
  abs (ofInt kk * (one / (ofNat N * (one / fs))))

def bandMask (N : Nat) (fs lo hi : α) (k : Nat) : Bool :=
  let fk := fftfreqAbs N fs k
  ge fk lo && le fk hi

end Model
