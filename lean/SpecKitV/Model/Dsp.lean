/-
  SpecKitV.Model.Dsp — hand model of dsp.integral_rms / crop_data / polynomial_detrend(order 0)
  and of SpectrumResult.get_measurement's `np.interp`.
-/
import SpecKitV.Num

namespace Model
open RealLike
variable {α : Type} [RealLike α]

/-- trapezoid sum over consecutive points of a list of `(f, y)` pairs:
    `Σ (f[i+1]-f[i]) * (y[i]+y[i+1]) / 2` (`cumulative_trapezoid(...)[-1]`) -/
def trapz : List (α × α) → α
  | [] => zero
  | [_] => zero
  | (f0, y0) :: (f1, y1) :: rest => (f1 - f0) * (y0 + y1) / two + trapz ((f1, y1) :: rest)

def listMin (d : α) : List α → α
  | [] => d
  | x :: xs => xs.foldl (fun m v => if lt v m then v else m) x

def listMax (d : α) : List α → α
  | [] => d
  | x :: xs => xs.foldl (fun m v => if lt m v then v else m) x

/-- `integral_rms(f, asd, band)` (dsp.py:209-276) for a non-empty grid; `band = none` is the
    full span.  `none` result = the function raises (`band[0] > band[1]`). -/
def integralRms (pts : List (α × α)) (band : Option (α × α)) : Option α :=
  let fs := pts.map (·.1)
  let fmn := listMin zero fs
  let fmx := listMax zero fs
  let go (lo hi : α) : α :=
    if ge lo hi then zero
    else
      let kept := pts.filter (fun p => ge p.1 lo && le p.1 hi)
      if kept.isEmpty then zero
      else sqrt (trapz (kept.map (fun p => (p.1, p.2 * p.2))))
  match band with
  | none => some (go fmn fmx)
  | some (b0, b1) =>
    if gt b0 b1 then none
    else some (go (if lt fmn b0 then b0 else fmn) (if lt b1 fmx then b1 else fmx))

/-- order-0 detrend: `x - mean(x)` -/
def detrend0 (xs : List α) : List α :=
  let m := xs.foldl (· + ·) zero / ofNat xs.length
  xs.map (fun x => x - m)

/-- `np.interp(x, xp, fp)` for increasing `xp` (clamped piecewise-linear) -/
def interp (xp fp : List α) (x : α) : α :=
  match xp, fp with
  | [], _ => zero
  | _, [] => zero
  | x0 :: xs, y0 :: ys =>
    if le x x0 then y0
    else go x0 y0 xs ys
where
  go (xa ya : α) : List α → List α → α
    | xb :: xs, yb :: ys =>
      if le x xb then
        if beq x xb then yb
        else ya + (yb - ya) / (xb - xa) * (x - xa)
      else go xb yb xs ys
    | _, _ => ya

end Model
