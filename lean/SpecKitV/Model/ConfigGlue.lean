/-
  SpecKitV.Model.ConfigGlue — SPECIFICATIONS (decision tables stated outright) of the configuration glue of `SpectrumAnalyzer`:
  what `plan()` hands to the scheduler, what happens after the scheduler call, the window / overlap / scheduler tables of the
  constructor and the single-bin request resolution.  The translated code (Gen/ConfigGlue.lean) is proved equal to these and to
  `Model.planStep` / `Model.aStep` / `Model.aRun` (Model/Analyzer.lean) in Props/ConfigGlueGen.lean.  Hand-written, Mathlib-free.
-/
import SpecKitV.Np.ConfigGlue
import SpecKitV.Model.Analyzer

namespace CG.Spec
open RealLike
variable {α : Type} [RealLike α]

/-! ### (a) plan(): keyword arguments, what follows the scheduler call, the connection to `Model.planStep` -/

/-- which config entry goes to which scheduler keyword (analysis.py:403-414): `N=self.nx, fs, olap=final_olap, bmin, Lmin, Kdes`;
    `num_patch_pts` only when the scheduler function is called `new_ltf_plan`; no `Jdes` yet -/
def commonKw {P : Type} (cfg : PlanCfg α P) : SchedKw α :=
  { N := some (.int cfg.nx), fs := some (.real cfg.fs), olap := some (.real cfg.final_olap), bmin := some (.real cfg.bmin),
    Lmin := some (.int cfg.Lmin), Kdes := some (.int cfg.Kdes),
    num_patch_pts := if cfg.scheduler_func.name = some "new_ltf_plan" then some (PyVal.ofOptInt cfg.num_patch_pts) else none,
    Jdes := none }

/-- the scheduler is called with the common keywords plus the CURRENT `config["Jdes"]` (analysis.py:433) -/
def callKw {P : Type} (cfg : PlanCfg α P) (J : Int) : SchedKw α :=
  { commonKw cfg with Jdes := some (.int J) }

/-- after the scheduler call: the validation / normalisation statements `0 … bandStep-1`, the band restriction (statement `bandStep`)
    iff a band is configured, the final checks `bandStep+1 … nsteps-1`; any raise makes the whole build fail -/
def postBuild {P : Type} (step : Nat → P → P × Option PyExc) (nsteps bandStep : Nat) (hasBand : Bool) (p : P) : Option P :=
  match runSteps step 0 bandStep p with
  | (_, some _) => none
  | (p1, none) =>
    match (if hasBand then step bandStep p1 else (p1, none)) with
    | (_, some _) => none
    | (p2, none) =>
      match runSteps step (bandStep + 1) (nsteps - (bandStep + 1)) p2 with
      | (_, some _) => none
      | (p3, none) => some p3

/-- `Model.AState` keeps `Jdes` as a natural number, Python's `config["Jdes"]` is any `int`: an injective coding ℤ → ℕ (zigzag),
    so that the correspondence with `Model.planStep` needs no sign hypothesis -/
def encJ : Int → Nat
  | .ofNat n => 2 * n
  | .negSucc n => 2 * n + 1

def decJ (n : Nat) : Int := if n % 2 = 0 then Int.ofNat (n / 2) else Int.negSucc (n / 2)

/-- the `search` argument of `Model.planStep`: the Jdes search on the analyzer's scheduler with the common keywords; a raise and a
    `None` result both make `plan()` fail without touching the state -/
def searchM {P : Type} (cfg : PlanCfg α P)
    (search : SchedFn α P → Int → SchedKw α → Except PyExc (Option Int)) (n : Nat) : Option Nat :=
  match search cfg.scheduler_func (decJ n) (commonKw cfg) with
  | .ok (some J) => some (encJ J)
  | _ => none

/-- the `build` argument of `Model.planStep`: scheduler call with `Jdes = J`, then everything that follows it -/
def buildM {P : Type} (cfg : PlanCfg α P) (step : Nat → P → P × Option PyExc) (nsteps bandStep : Nat) (n : Nat) : Option P :=
  match cfg.scheduler_func.call (callKw cfg (decJ n)) with
  | .error _ => none
  | .ok p => postBuild step nsteps bandStep cfg.band.isSome p

def toA {P : Type} (st : PlanSt P) : Model.AState P := ⟨st.cache, encJ st.jdes⟩

def resOpt {P : Type} : PlanRes P → Option P
  | .ok p => some p
  | .okNone => none
  | .raised _ => none

def outA {P R S : Type} : OpOut P R S → Model.AOut P R S
  | .plan p => .plan p
  | .planNone => .error
  | .result r => .result r
  | .single s => .single s
  | .error _ => .error

/-! ### (b) `_process_window_config` -/

/-- which window function, which alpha, which friendly name (analysis.py:288-323).  `kalpha` = `kaiser_alpha`. -/
def windowChoice (kalpha : α → α) (win : PyObj WinFn) (psll : Option α) (win_dict : PyDict WinFn) :
    Except PyExc (WinFn × Option α × Option String) :=
  match win with
  | .str s =>
    let w := strLower s
    if w = "kaiser" then
      match psll with
      | none => .error .ValueError
      | some p => .ok (.np_kaiser, some (kalpha p), some w)
    else if w = "hann" ∨ w = "hanning" then .ok (.np_hanning, none, some w)
    else
      match dictGet? win_dict s with        -- looked up under the name AS GIVEN, remembered in lower case
      | some f => .ok (f, none, some w)
      | none => .error .ValueError
  | .fn f =>
    if f = .np_kaiser ∨ f = .sp_kaiser then   -- scipy's kaiser is replaced by numpy's
      match psll with
      | none => .error .ValueError
      | some p => .ok (.np_kaiser, some (kalpha p), some "kaiser")
    else .ok (f, none, if is_function_in_dict f win_dict then get_key_for_function f win_dict else some "custom_win")
  | .other => .error .TypeError

/-- overlap resolution (analysis.py:325-351).  `krov` = `kaiser_rov`, `parse` = float() of a str. -/
def overlapChoice (krov : α → α) (wf : WinFn) (alpha : Option α) (win_name : Option String) (olap : PyVal α)
    (olap_dict : PyDict α) (parse : String → Option α) : Except PyExc α :=
  if olap.eqStr "default" then
    if wf = .np_kaiser then
      match alpha with
      | some a => .ok (krov a)
      | none => .error .RuntimeError
    else
      match dictGetOpt? olap_dict win_name with
      | some v => .ok v
      | none => .ok (ofSci 5 true 1)
  else
    match olap.float? parse with
    | none => .error .TypeError
    | some v => if isfinite v && (le (ofNat 0) v && lt v (ofNat 1)) then .ok v else .error .ValueError

def windowSpec (kalpha krov : α → α) (win : PyObj WinFn) (psll : Option α) (olap : PyVal α)
    (win_dict : PyDict WinFn) (olap_dict : PyDict α) (parse : String → Option α) : Except PyExc (WinOut α) :=
  match windowChoice kalpha win psll win_dict with
  | .error e => .error e
  | .ok (wf, a, nm) =>
    match overlapChoice krov wf a nm olap olap_dict parse with
    | .error e => .error e
    | .ok v => .ok { win_func := some wf, alpha := some a, final_olap := some v, win_name := some nm }

/-! ### (c) `_process_scheduler_config` -/

def schedByName (s : String) : Option SchedId :=
  if s = "lpsd" then some .lpsd_plan
  else if s = "ltf" then some .ltf_plan
  else if s = "vectorized_ltf" then some .vectorized_ltf_plan
  else if s = "new_ltf" then some .new_ltf_plan
  else none

def schedSpec : PyObj SchedId → Except PyExc SchedOut
  | .str s =>
    match schedByName s with
    | some f => .ok { scheduler_func := some f, scheduler_name := some s }
    | none => .error .ValueError
  | .fn f => .ok { scheduler_func := some f, scheduler_name := some ((SchedId.name f).getD "custom_sched") }
  | .other => .error .TypeError

/-! ### (d) the request resolution of `compute_single_bin` (analysis.py:564-585) -/

def singleBinRequest (fs : α) (nx : Int) (L fres : Option α) : Except PyExc (Int × α) :=
  match L, fres with
  | some _, some _ => .error .ValueError
  | none, none => .error .ValueError
  | some l, none =>
    let s := trunc l
    if s < 1 ∨ s > nx then .error .ValueError else .ok (s, fs / ofInt s)
  | none, some r =>
    if !(isfinite r) || le r (ofNat 0) then .error .ValueError
    else
      let s := roundEven (fs / r)
      if s < 1 then (if (1 : Int) > nx then .error .ValueError else .ok (1, fs / ofInt 1))
      else if s > nx then .error .ValueError
      else .ok (s, r)

end CG.Spec
