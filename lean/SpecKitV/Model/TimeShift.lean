/-
  SpecKitV.Model.TimeShift — hand model of dsp.lagrange_taps and dsp.timeshift (both paths).
-/
import SpecKitV.Num

namespace Model
open RealLike
variable {α : Type} [RealLike α]

/-- running `factor` after `j` iterations of the loop at dsp.py:1324-1328
    (`factor = d*(1-d)`, then `factor *= (-1)*(1 - j/h)/(1 + j/h)` for `j = 1, 2, …`) -/
def tapsFactor (h : Nat) (d : α) : Nat → α
  | 0 => d * (one - d)
  | j + 1 => tapsFactor h d j *
      (ofInt (-1) * (one - ofNat (j + 1) / ofNat h) / (one + ofNat (j + 1) / ofNat h))

/-- the tap value before the common factors are applied (dsp.py:1327-1333) -/
def tapRaw (h : Nat) (d : α) (k : Nat) : α :=
  if k + 1 = h then one - d
  else if k = h then d
  else if k + 1 < h then
    let j := h - 1 - k
    tapsFactor h d j / (ofNat j + d)
  else
    let j := k - h
    tapsFactor h d j / (ofNat (j + 1) - d)

/-- `lagrange_taps(d, h)[k]` for a scalar fractional shift `d` (dsp.py:1280-1345) -/
def tap (h : Nat) (d : α) (k : Nat) : α :=
  if h = 1 then (if k = 0 then one - d else d)
  else
    let t := tapRaw h d k
    let t := forRange (h - 2) t (fun i acc =>
      acc * (one - (d / ofNat (i + 2)) * (d / ofNat (i + 2))))
    t * ((one + d) * (one - d / ofNat h))

def clampIdx (i : Int) (size : Nat) : Nat :=
  if i < 0 then 0 else if i ≥ (size : Int) then size - 1 else i.toNat

/-- constant-shift path (dsp.py:1412-1431), `size ≥ 2`: output sample `n`.
    `sInt = floor(shift)`, `d = shift - sInt`. -/
def shiftConst (data : Nat → α) (size : Nat) (h : Nat) (sInt : Int) (d : α) (n : Nat) : α :=
  let iMin : Int := sInt - ((h : Int) - 1)
  let iMax : Int := sInt + (h : Int) + (size : Int)
  if iMax - 1 < 0 then data 0
  else if iMin > (size : Int) - 1 then data (size - 1)
  else
    sumRange (2 * h) (fun k => data (clampIdx ((n : Int) + iMin + (k : Int)) size) * tap h d k)

/-- time-varying path (dsp.py:1433-1446): output sample `n` for the per-sample shift
    `(sInt, d)` of that sample; reads are zero outside the record. -/
def shiftVar (data : Nat → α) (size : Nat) (h : Nat) (sInt : Int) (d : α) (n : Nat) : α :=
  let idx0 : Int := (n : Int) + sInt
  let lo : Int := -((h : Int) + 1)
  let hi : Int := (size : Int) + ((h : Int) - 1)
  let idx : Int := if idx0 < lo then lo else if idx0 > hi then hi else idx0
  sumRange (2 * h) (fun k =>
    let i : Int := idx - ((h : Int) - 1) + (k : Int)
    tap h d k * (if i < 0 ∨ i ≥ (size : Int) then zero else data i.toNat))

end Model
