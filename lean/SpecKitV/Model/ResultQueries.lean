/-
  SpecKitV.Model.ResultQueries — hand-written SPECIFICATIONS (right-hand sides of the equality theorems in
  Props/ResultQueriesGen.lean) for the result-side glue of analysis.py:
    * `assemble`      : what `SpectrumAnalyzer.compute()` puts into the result arrays, given the rows of `_lpsd_core`
                        ("field F of bin k of the result is component c of the row whose index is k");
    * `measure`       : `SpectrumResult.get_measurement` (clamped piecewise-linear interpolation on the grid `f`,
                        complex quantities componentwise, scalar in → scalar out);
    * `exportFrame`   : `SpectrumResult.to_dataframe` (export = projection of the attribute table onto the per-bin arrays,
                        indexed by `f`);
    * `advertised`    : the names `SpectrumResult.__dir__` advertises.
  The lazy cache protocol of `__getattr__` is specified by `Model.lazyGet` / `Model.lazyRun` (Model/Analyzer.lean).
  Mathlib-free.
-/
import SpecKitV.Num
import SpecKitV.Model.Dsp
import SpecKitV.Np.ResultQueries

namespace Model
open RealLike
variable {α : Type} [RealLike α]

/-! ### `compute()`: assembly of the per-bin rows (analysis.py:790-828)

Row format of `_lpsd_core` (analysis.py:997-1008), by tuple position:
`p0 = i` (bin index), `p1 = XY` (mean cross product, complex), `p2 = MXX`, `p3 = MYY`, `p4 = S1*S1`, `p5 = S2`, `p6 = M2`,
`p7 = elapsed`. -/

/-- the row that carries bin `k` (the first one, if several do) -/
def rowAt (rows : List (Np.Row8 α)) (k : Nat) : Option (Np.Row8 α) :=
  rows.find? (fun r => r.p0 == (k : Int))

/-- per-bin array of length `nf` whose bin `k` is component `c` of the row of bin `k` (`dflt k` if no row carries bin `k`) -/
def binArray {β : Type} (nf : Nat) (rows : List (Np.Row8 α)) (c : Np.Row8 α → β) (dflt : Nat → β) : Arr β :=
  ⟨nf, fun k => match rowAt rows k with
                | some r => c r
                | none => dflt k⟩

/-- the result arrays: `XX ← MXX`, `YY ← MYY`, `XY ← XY`, `S12 ← S1²`, `S2 ← S2`, `M2 ← M2`, `compute_t ← elapsed` -/
def assemble (nf : Nat) (rows : List (Np.Row8 α)) (junk : Nat → α) (junkC : Nat → Cx α) : Np.ResultArrays α :=
  { XX := binArray nf rows (·.p2) junk
    YY := binArray nf rows (·.p3) junk
    XY := binArray nf rows (·.p1) junkC
    S12 := binArray nf rows (·.p4) junk
    S2 := binArray nf rows (·.p5) junk
    M2 := binArray nf rows (·.p6) junk
    compute_t := binArray nf rows (·.p7) junk }

/-! ### `get_measurement` (analysis.py:1469-1511) -/

/-- value of a tabulated quantity at one frequency: `Model.interp` on the grid; complex tables componentwise -/
def measureR (grid y : List α) (x : α) : α := interp grid y x
def measureC (grid : List α) (y : List (Cx α)) (x : α) : Cx α :=
  ⟨interp grid (y.map Cx.re) x, interp grid (y.map Cx.im) x⟩

/-- scalar query → scalar value; array query → array of values, element by element -/
def measure (grid : List α) : Np.Table α → Np.Query α → Np.Meas α
  | .real y, .scalar x => .scalarR (measureR grid y x)
  | .real y, .array xs => .arrayR (xs.map (measureR grid y))
  | .cplx y, .scalar x => .scalarC (measureC grid y x)
  | .cplx y, .array xs => .arrayC (xs.map (measureC grid y))

/-! ### `to_dataframe` (analysis.py:1513-1544) over an abstract attribute table

`tbl name = none` means the attribute read raises `AttributeError`; `callable`, `isNdarray`, `shape` describe a value. -/

/-- a per-bin array: a non-callable ndarray whose first dimension is the number of bins -/
def perBin {V : Type} (callable isNdarray : V → Bool) (shape : V → List Nat) (n : Nat) (v : V) : Bool :=
  !(callable v) && isNdarray v && ((shape v).take 1 == [n])

/-- the exported columns: every public attribute name of `set(names) − {iscsd, fs}` other than the index `f` whose value is a
    per-bin array, in sorted order, with its value -/
def exportColumns {V : Type} (callable isNdarray : V → Bool) (shape : V → List Nat) (names : List String)
    (tbl : String → Option V) (n : Nat) : List (String × V) :=
  (Np.sortedSetDiff names ["iscsd", "fs"]).filterMap (fun a =>
    if a = "f" ∨ Np.startswith a "_" = true then none
    else match tbl a with
      | some v => if perBin callable isNdarray shape n v then some (a, v) else none
      | none => none)

/-- the export: index = the attribute `f`, `n` = its first dimension, columns = `exportColumns`
    (`none`: `f` cannot be read or has no first dimension) -/
def exportFrame {V : Type} (callable isNdarray : V → Bool) (shape : V → List Nat) (names : List String)
    (tbl : String → Option V) : Option (V × List (String × V)) :=
  match tbl "f" with
  | none => none
  | some f =>
    match (shape f)[0]? with
    | none => none
    | some n => some (f, exportColumns callable isNdarray shape names tbl n)

/-! ### `__dir__` (analysis.py:1379-1429) -/

/-- `dir(result)` advertises: the default attributes, the keys of the result dictionary and the dynamic names — as a set -/
def advertised (dflt dataKeys dynamic : List String) (a : String) : Prop :=
  a ∈ dflt ∨ a ∈ dataKeys ∨ a ∈ dynamic

end Model
