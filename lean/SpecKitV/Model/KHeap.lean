/-
  SpecKitV.Model.KHeap — buffer-aliasing semantics for straight-line NumPy array code (the NumPy fallback
  kernels of core.py and `_gather_segments`): which BUFFERS can a statement write?

  A kernel body is a list of `KOp`s over numbered array variables (generated from the Python source by
  vk/regions/kernel_heap.py → Gen/KernelHeap.lean).  Two semantics:

  * `cRun`  — CONCRETE: every variable holds one buffer id; the places where NumPy's behaviour depends on
              run-time facts the model does not track (does `np.asarray(x, float64, order="C")` return `x` itself
              or a converted copy?  which branch of an `if` bound the name?) are resolved by an arbitrary
              oracle `ch : Nat → Bool` consulted once per such op;
  * `aRun`  — ABSTRACT (may-alias): every variable holds the LIST of buffers it may denote; an in-place
              operation is charged to all of them.

  `Props/KernelHeapGen` proves `cRun ⊆ aRun` for every oracle (so the abstract written-set is an upper bound of
  what any execution writes) and evaluates the abstract run of the generated op lists: no caller buffer is in it.
  NumPy's aliasing rules encoded in `KOp` (advanced indexing copies, basic indexing / `.T` / `.real` view,
  `nan_to_num(copy=False)` works in place, `a -= b` and `a[...] = b` write `a`'s buffer, arithmetic allocates) are
  validated against NumPy with `np.shares_memory` by the C13 correspondence.  Mathlib-free.
-/

namespace Model.KHeap

inductive KOp where
  /-- `dst = np.asarray(src, dtype=…, order="C")` / `np.ascontiguousarray`: `src` itself or a fresh converted copy -/
  | asarray (dst src : Nat)
  /-- `dst = src[index array]` — advanced indexing always copies -/
  | fancy (dst src : Nat)
  /-- `dst = src[slice|int|None,…]`, `src.T`, `src.real`, `src.imag`, `src.reshape(…)`: a view of `src`'s buffer -/
  | basic (dst src : Nat)
  /-- plain rebinding `dst = src` -/
  | bind (dst src : Nat)
  /-- `dst = <arithmetic / reduction / np.empty / np.exp(…) …>`: a newly allocated buffer -/
  | fresh (dst : Nat)
  /-- `dst = np.nan_to_num(src, copy=c)`: `copy=False` sanitises `src`'s buffer in place and returns it -/
  | nanToNum (dst src : Nat) (copy : Bool)
  /-- `v -= e`, `v *= e`, `v[...] = e`, `np.f(…, out=v)`: writes `v`'s buffer -/
  | write (v : Nat)
  /-- join after an `if`/loop: `dst` is `a` or `b` -/
  | phi (dst a b : Nat)
deriving DecidableEq, Repr

/-! ### concrete semantics -/

structure CSt where
  env : Nat → Nat          -- variable → buffer id
  next : Nat               -- next fresh buffer id
  written : List Nat
  tick : Nat               -- number of oracle consultations so far

def CSt.set (s : CSt) (v b : Nat) : CSt := { s with env := fun k => if k = v then b else s.env k }

def cStep (ch : Nat → Bool) (s : CSt) : KOp → CSt
  | .asarray d x =>
    -- buffer ids are only names: the id is consumed on both paths so that numbering does not depend on the oracle
    if ch s.tick then { (s.set d (s.env x)) with next := s.next + 1, tick := s.tick + 1 }
    else { (s.set d s.next) with next := s.next + 1, tick := s.tick + 1 }
  | .fancy d _ => { (s.set d s.next) with next := s.next + 1 }
  | .basic d x => s.set d (s.env x)
  | .bind d x => s.set d (s.env x)
  | .fresh d => { (s.set d s.next) with next := s.next + 1 }
  | .nanToNum d x copy =>
    if copy then { (s.set d s.next) with next := s.next + 1 }
    else { (s.set d (s.env x)) with written := s.env x :: s.written }
  | .write v => { s with written := s.env v :: s.written }
  | .phi d a b =>
    if ch s.tick then { (s.set d (s.env a)) with tick := s.tick + 1 }
    else { (s.set d (s.env b)) with tick := s.tick + 1 }

/-- the `k` array parameters of the kernel are variables `0 … k-1` holding the caller's buffers `0 … k-1` -/
def cInit (k : Nat) : CSt := { env := fun v => v, next := k, written := [], tick := 0 }

def cRun (ch : Nat → Bool) (k : Nat) (ops : List KOp) : CSt := ops.foldl (cStep ch) (cInit k)

/-! ### abstract (may-alias) semantics -/

structure ASt where
  env : Nat → List Nat     -- variable → buffers it may denote
  next : Nat
  written : List Nat

def ASt.set (s : ASt) (v : Nat) (bs : List Nat) : ASt := { s with env := fun k => if k = v then bs else s.env k }

def aStep (s : ASt) : KOp → ASt
  | .asarray d x => { (s.set d (s.next :: s.env x)) with next := s.next + 1 }
  | .fancy d _ => { (s.set d [s.next]) with next := s.next + 1 }
  | .basic d x => s.set d (s.env x)
  | .bind d x => s.set d (s.env x)
  | .fresh d => { (s.set d [s.next]) with next := s.next + 1 }
  | .nanToNum d x copy =>
    if copy then { (s.set d [s.next]) with next := s.next + 1 }
    else { (s.set d (s.env x)) with written := s.env x ++ s.written }
  | .write v => { s with written := s.env v ++ s.written }
  | .phi d a b => s.set d (s.env a ++ s.env b)

def aInit (k : Nat) : ASt := { env := fun v => [v], next := k, written := [] }

def aRun (k : Nat) (ops : List KOp) : ASt := ops.foldl aStep (aInit k)

/-- caller buffers (ids `< k`) in the abstract written set -/
def callerWritten (k : Nat) (ops : List KOp) : List Nat := (aRun k ops).written.filter (· < k)

end Model.KHeap
