/-
  SpecKitV.Model.DfWrappers — hand model (specification) of the DataFrame wrappers dsp.df_timeshift and dsp.df_detrend on frame
  VALUES (no object store): what the returned frame is, and whether it is the input object, a fresh copy, or a row slice of a
  fresh copy.  The per-column routine is a parameter (`shiftFn` / `detrendFn`); the theorems of Props/DfWrappersGen.lean
  instantiate it with the ALREADY TRANSLATED `Gen.timeshift` / `Gen.polynomial_detrend`.  Mathlib-free.
-/
import SpecKitV.Num
import SpecKitV.Np.DfWrappers

namespace Model.Df
open NpDf
variable {α : Type} [RealLike α]

/-- dtype kinds both wrappers treat as numeric: bool, signed, unsigned, float, complex -/
def numericKinds : List Char := ['b', 'i', 'u', 'f', 'c']

def numeric (k : Char) : Bool := numericKinds.contains k

/-- the label under which the result for column `c` is stored -/
def target (inplace : Bool) (suffix c : String) : String := if inplace then c else c ++ suffix

/-- one selected label `c`: a numeric column of the INPUT frame `df` is transformed and stored into `out` under `target c`
    (update in place or append); a non-numeric one is skipped; an unknown label, a failing `T` or a result of the wrong length raise -/
def step (T : Arr α → Option (Arr α)) (df : Frame α) (inplace : Bool) (suffix : String) (c : String) (out : Frame α) :
    Option (Frame α) :=
  match df.col? c with
  | none => none
  | some col =>
    if numeric col.kind then
      match T col.vals with
      | none => none
      | some v => if v.n ≠ out.nrows then none else some (out.setCol (target inplace suffix c) resultKind v)
    else some out

/-- the column loop: the selected labels left to right -/
def applyCols (T : Arr α → Option (Arr α)) (df : Frame α) (inplace : Bool) (suffix : String) (sel : List String) (out : Frame α) :
    Option (Frame α) :=
  forEach sel out (step T df inplace suffix)

/-- what is returned: the input object itself, a fresh copy `g`, or the fresh copy `g` and a row slice `g'` of it (returned) -/
inductive Result (α : Type) where
  | same : Result α
  | fresh (g : Frame α) : Result α
  | sliced (g g' : Frame α) : Result α

/-- the frame value returned -/
def Result.value (dfv : Frame α) : Result α → Frame α
  | .same => dfv
  | .fresh g => g
  | .sliced _ g' => g'

/-- the object store after the call and the reference returned: objects are only ever APPENDED to the store -/
def Result.realize (h : Heap α) (df : Ref) : Result α → Heap α × Ref
  | .same => (h, df)
  | .fresh g => (⟨h.objs ++ [some g]⟩, h.objs.length)
  | .sliced g g' => (⟨h.objs ++ [some g] ++ [some g']⟩, h.objs.length + 1)

/-- the selected labels: `None` = every column of the input -/
def selection (df : Frame α) (columns : Option (List String)) : List String :=
  match columns with
  | none => df.names
  | some cs => cs

/-- truncation by `nt` rows at each end: nothing for `nt ≤ 0`, the EMPTY frame (same columns) if `2·nt ≥ len`, else rows `nt … len-nt-1` -/
def truncRows (g : Frame α) (nt : Int) : Result α :=
  if nt > 0 then
    if nt * 2 ≥ (g.nrows : Int) then .sliced g (g.rows 0 0) else .sliced g (g.rows nt (-nt))
  else .fresh g

/-- `df_timeshift(df, fs, seconds, columns, truncate, inplace, suffix)`; `shiftFn v s` = `timeshift(v, s)` with the default order -/
def dfTimeshift (shiftFn : Arr α → α → Option (Arr α)) (isFrame : Bool) (df : Frame α) (fs : PyFloat α) (seconds : α)
    (columns : Option (List String)) (truncate : PyTrunc) (inplace : Bool) (suffix : String) : Option (Result α) :=
  if !isFrame || df.empty then none
  else
    match fs with
    | .fin f =>
      if RealLike.le f (RealLike.ofNat 0) then none
      else if RealLike.beq seconds (RealLike.ofNat 0) then some .same
      else if (selection df columns).any (fun c => !df.hasCol c) then none
      else
        match applyCols (fun v => shiftFn v (seconds * f)) df inplace suffix (selection df columns) df with
        | none => none
        | some g =>
          match truncate with
          | .none => some (.fresh g)
          | .bool _ => some (truncRows g (RealLike.trunc (RealLike.ofNat 2 * RealLike.abs (seconds * f))))
          | .int z => some (truncRows g z)
          | .other => none
    | _ => none

/-- `df_detrend(df, columns, order, inplace, suffix)`; `detrendFn v p` = `polynomial_detrend(v, order=p)` -/
def dfDetrend (detrendFn : Arr α → Int → Option (Arr α)) (isFrame : Bool) (df : Frame α) (columns : Option (List String))
    (order : Int) (inplace : Bool) (suffix : String) : Option (Result α) :=
  if !isFrame || df.empty then none
  else if order < 0 then none
  else if (selection df columns).any (fun c => !df.hasCol c) then none
  else (applyCols (fun v => detrendFn v order) df inplace suffix (selection df columns) df).map .fresh

end Model.Df
