/-
  SpecKitV.Model.ResultPurity — buffer-aliasing semantics for the METHODS of `SpectrumResult` (speckit/analysis.py):
  can a method write, in place, an array that a slot of the result's `_data` / `_cache` dictionaries holds?

  A method body (for `__getattr__`: one arm of its name dispatch, with the common prologue and epilogue) is a list of `ROp`s over
  numbered variables, generated from the Python source by vk/regions/result_purity.py → Gen/ResultPurity.lean.  The first `k`
  variables are the ENTRY variables: one per syntactically distinct way the method reaches an object held by the result
  (`self.<X>`, `self._data[<key>]`, `self._cache[name]`, `getattr(self, <expr>)`, the values of `self._data`), plus the method's
  own parameters.  Two semantics, as in Model/KHeap (the ops `asarray … phi` have the same meaning there):

  * `cRun` — CONCRETE: every variable holds ONE buffer id.  At entry the variables hold ARBITRARY existing buffers (`init`; two
             entry variables may well hold the same buffer: `psd` IS `Gxx`, `tf` IS `Hxy`), `prot` = the buffers some slot holds,
             `next` = the first unallocated id.  Run-time facts the model does not track (does `np.asarray(x)` return `x`?  which
             branch bound the name?) are resolved by an arbitrary oracle.  An in-place write of a buffer that is protected AT THAT
             MOMENT is recorded in `viol`; `protect v` (the cache store `self._cache[name] = val`) adds `val`'s buffer to `prot`;
             `slotStore own` is a (re)binding of a slot of `_cache`/`_data`: legal only when `own` (the key is the attribute name
             being served by `__getattr__`, or the method is the constructor), otherwise counted in `slotBad`.
  * `aRun` — ABSTRACT (may-alias): every variable holds the LIST of abstract buffers it may denote; entry variable `i` holds the
             abstract buffer `i` (all of them protected); writes are charged to every may-alias, `protect` to every may-alias.

  Props/ResultPurityGen proves `cRun ⊑ aRun` up to the renaming of the entry buffers, for every oracle and every entry state, and
  evaluates the abstract run of the generated lists: `viol = []`, `slotBad = 0`.  Mathlib-free.
-/

namespace Model.RPurity

inductive ROp where
  /-- `dst = np.asarray(src)` / `np.asanyarray` / `np.ascontiguousarray` / `np.ravel(src)` / `src.reshape(..)` / `np.real(src)` … :
      `src`'s buffer itself (a view) or a newly allocated one — NumPy decides at run time -/
  | asarray (dst src : Nat)
  /-- `dst = src[index array]` / `src[boolean mask]` — advanced indexing always copies -/
  | fancy (dst src : Nat)
  /-- `dst = src[slice|int,…]`, `src.T`, `src.real`, `src.imag`: a view of `src`'s buffer -/
  | basic (dst src : Nat)
  /-- plain rebinding `dst = src` -/
  | bind (dst src : Nat)
  /-- `dst = <arithmetic / ufunc without out= / reduction / np.zeros_like / .copy() …>`: a newly allocated buffer -/
  | fresh (dst : Nat)
  /-- `dst = np.nan_to_num(src, copy=c)`: `copy=False` sanitises `src`'s buffer in place and returns it -/
  | nanToNum (dst src : Nat) (copy : Bool)
  /-- `v -= e`, `v *= e`, `v[...] = e`, `np.f(…, out=v)`, `v.sort()`, `v.fill(..)`, `v.setflags(..)`, `del v[..]`,
      an unknown call that is handed `v`: writes (may write) `v`'s buffer -/
  | write (v : Nat)
  /-- join after an `if` / loop / conditional expression / container lookup: `dst` is `a` or `b` -/
  | phi (dst a b : Nat)
  /-- `self._cache[key] = v` (the value part): `v`'s buffer is held by a slot from now on -/
  | protect (v : Nat)
  /-- a slot of `_cache` / `_data` is bound, re-bound or removed; `own` = it is the slot of the attribute being served
      (`self._cache[name] = val` inside `__getattr__(self, name)`), or the method is `__init__` -/
  | slotStore (own : Bool)
deriving DecidableEq, Repr

/-! ### concrete semantics -/

structure CSt where
  env : Nat → Nat          -- variable → buffer id
  next : Nat               -- next fresh buffer id
  prot : List Nat          -- buffers held by a slot of `_data` / `_cache`
  viol : List Nat          -- protected buffers that were written in place
  slotBad : Nat            -- illegal slot operations
  tick : Nat               -- oracle consultations so far

def CSt.set (s : CSt) (v b : Nat) : CSt := { s with env := fun k => if k = v then b else s.env k }

/-- an in-place write of buffer `b` -/
def CSt.wr (s : CSt) (b : Nat) : CSt := if b ∈ s.prot then { s with viol := b :: s.viol } else s

def cStep (ch : Nat → Bool) (s : CSt) : ROp → CSt
  | .asarray d x =>
    if ch s.tick then { (s.set d (s.env x)) with next := s.next + 1, tick := s.tick + 1 }
    else { (s.set d s.next) with next := s.next + 1, tick := s.tick + 1 }
  | .fancy d _ => { (s.set d s.next) with next := s.next + 1 }
  | .basic d x => s.set d (s.env x)
  | .bind d x => s.set d (s.env x)
  | .fresh d => { (s.set d s.next) with next := s.next + 1 }
  | .nanToNum d x copy =>
    if copy then { (s.set d s.next) with next := s.next + 1 }
    else (s.wr (s.env x)).set d (s.env x)
  | .write v => s.wr (s.env v)
  | .phi d a b =>
    if ch s.tick then { (s.set d (s.env a)) with tick := s.tick + 1 }
    else { (s.set d (s.env b)) with tick := s.tick + 1 }
  | .protect v => { s with prot := s.env v :: s.prot }
  | .slotStore own => if own then s else { s with slotBad := s.slotBad + 1 }

/-- entry state of a call: entry variable `i < k` holds the buffer `init i`, `P` = the buffers the slots hold, `n` = first unallocated id;
    `viol`, `slotBad` are carried over from earlier calls on the same result.  (A variable `≥ k` is unbound at entry — reading it is a
    NameError in Python and the generator never emits that; the model lets it hold what entry variable 0 holds.) -/
def cEntry (k : Nat) (init : Nat → Nat) (P : List Nat) (n : Nat) (viol : List Nat) (slotBad : Nat) : CSt :=
  { env := fun v => init (if v < k then v else 0), next := n, prot := P, viol := viol, slotBad := slotBad, tick := 0 }

def cRunFrom (ch : Nat → Bool) (s : CSt) (ops : List ROp) : CSt := ops.foldl (cStep ch) s

/-- one call on a fresh history -/
def cRun (ch : Nat → Bool) (k : Nat) (init : Nat → Nat) (P : List Nat) (n : Nat) (ops : List ROp) : CSt :=
  cRunFrom ch (cEntry k init P n [] 0) ops

/-! ### a history of calls on one result -/

/-- one call: which generated list runs, what its entry variables hold, how the run-time choices fall -/
structure Call where
  k : Nat
  ops : List ROp
  init : Nat → Nat
  ch : Nat → Bool

/-- what persists between calls: the buffers the slots hold, the allocation counter, the violations so far -/
structure Hist where
  prot : List Nat
  next : Nat
  viol : List Nat
  slotBad : Nat

/-- the entry variables of the call hold ARBITRARY existing buffers (`init v % next`: any id below the allocation counter) -/
def callStep (h : Hist) (c : Call) : Hist :=
  let s := cRunFrom c.ch (cEntry c.k (fun v => c.init v % h.next) h.prot h.next h.viol h.slotBad) c.ops
  { prot := s.prot, next := s.next, viol := s.viol, slotBad := s.slotBad }

def session (h : Hist) (calls : List Call) : Hist := calls.foldl callStep h

/-! ### abstract (may-alias) semantics -/

structure ASt where
  env : Nat → List Nat     -- variable → abstract buffers it may denote
  next : Nat
  prot : List Nat
  viol : List Nat
  slotBad : Nat

def ASt.set (s : ASt) (v : Nat) (bs : List Nat) : ASt := { s with env := fun k => if k = v then bs else s.env k }

def ASt.wr (s : ASt) (bs : List Nat) : ASt := { s with viol := bs.filter (fun b => decide (b ∈ s.prot)) ++ s.viol }

def aStep (s : ASt) : ROp → ASt
  | .asarray d x => { (s.set d (s.next :: s.env x)) with next := s.next + 1 }
  | .fancy d _ => { (s.set d [s.next]) with next := s.next + 1 }
  | .basic d x => s.set d (s.env x)
  | .bind d x => s.set d (s.env x)
  | .fresh d => { (s.set d [s.next]) with next := s.next + 1 }
  | .nanToNum d x copy =>
    if copy then { (s.set d [s.next]) with next := s.next + 1 }
    else (s.wr (s.env x)).set d (s.env x)
  | .write v => s.wr (s.env v)
  | .phi d a b => s.set d (s.env a ++ s.env b)
  | .protect v => { s with prot := s.env v ++ s.prot }
  | .slotStore own => if own then s else { s with slotBad := s.slotBad + 1 }

/-- entry variable `i < k` holds the abstract buffer `i`; all `k` of them are protected.  (A variable `≥ k` that is read before it is
    assigned — the generator never emits that — is treated like an entry variable: it is given the abstract buffer `0`.) -/
def aInit (k : Nat) : ASt :=
  { env := fun v => if v < k then [v] else [0], next := k, prot := List.range k, viol := [], slotBad := 0 }

def aRun (k : Nat) (ops : List ROp) : ASt := ops.foldl aStep (aInit k)

/-- the verdict on one generated list: the abstract run charges no protected buffer with a write and sees no illegal slot operation -/
def clean (k : Nat) (ops : List ROp) : Bool :=
  (aRun k ops).viol.isEmpty && (aRun k ops).slotBad == 0

/-- abstract entry buffers (names of cache / data entries) charged with an in-place write — for diagnostics -/
def entriesWritten (k : Nat) (ops : List ROp) : List Nat := (aRun k ops).viol.filter (· < k)

end Model.RPurity
