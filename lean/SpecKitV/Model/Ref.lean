/-
  SpecKitV.Model.Ref — the reference estimator of C01/C05: windowed, detrended DFT of every
  segment evaluated directly, averaged.  Forward convention `exp(-i ω n)`, cross product
  `X · conj Y`.  Also the hand model of the NumPy fallbacks of core.py (which evaluate the same
  sums through a matrix product) and of the reducer.
-/
import SpecKitV.Num

namespace Model
open RealLike
variable {α : Type} [RealLike α]

/-- detrended sample `n` of the segment of `x` starting at `s`:
    order `-1` none, `0` mean, `1,2` projection `Q Qᵀ seg` (`Q` is `L × (p+1)`). -/
def detr (order : Int) (Q : Nat → Nat → α) (x : Nat → α) (s L : Nat) (n : Nat) : α :=
  if order == -1 then x (s + n)
  else if order == 0 then
    x (s + n) - sumRange L (fun m => x (s + m)) / ofNat L
  else
    let p1 := (order + 1).toNat
    x (s + n) - sumRange p1 (fun k => Q n k * sumRange L (fun m => Q m k * x (s + m)))

/-- `X_s(ω) = Σ_n w n · detr n · e^{-iωn}` -/
def segDFT (order : Int) (Q : Nat → Nat → α) (x : Nat → α) (s L : Nat) (w : Nat → α)
    (omega : α) : Cx α :=
  let d := detr order Q x s L
  ⟨sumRange L (fun n => w n * d n * cos (omega * ofNat n)),
   zero - sumRange L (fun n => w n * d n * sin (omega * ofNat n))⟩

/-- reducer (core.py:417-462): means and mean squared scatter about the mean; `K ≥ 1` -/
def reduceStats (K : Nat) (xx yy xyr xyi : Nat → α) : α × α × α × α × α :=
  let kf : α := ofNat K
  let mxx := sumRange K xx / kf
  let myy := sumRange K yy / kf
  let mur := sumRange K xyr / kf
  let mui := sumRange K xyi / kf
  let m2 := if K ≥ 2 then
      sumRange K (fun j => (xyr j - mur) * (xyr j - mur) + (xyi j - mui) * (xyi j - mui)) / kf
    else zero
  (mxx, myy, mur, mui, m2)

/-- the reference 5-tuple for a bin: direct DFT of every segment, then the reducer -/
def refStats (order : Int) (Q : Nat → Nat → α) (x y : Nat → α) (starts : Nat → Nat) (K L : Nat)
    (w : Nat → α) (omega : α) : α × α × α × α × α :=
  let X := fun j => segDFT order Q x (starts j) L w omega
  let Y := fun j => segDFT order Q y (starts j) L w omega
  reduceStats K (fun j => Cx.normSq (X j)) (fun j => Cx.normSq (Y j))
    (fun j => ((X j) * Cx.conj (Y j)).re) (fun j => ((X j) * Cx.conj (Y j)).im)

/-- auto mode: `yy = xx`, `xyr = xx`, `xyi = 0` -/
def refStatsAuto (order : Int) (Q : Nat → Nat → α) (x : Nat → α) (starts : Nat → Nat) (K L : Nat)
    (w : Nat → α) (omega : α) : α × α × α × α × α :=
  let p := fun j => Cx.normSq (segDFT order Q x (starts j) L w omega)
  reduceStats K p p p (fun _ => zero)

end Model
