import SpecKitV.Lemmas.Sinusoid
import SpecKitV.Lemmas.AnalyzerGlue
import SpecKitV.Lemmas.Goertzel

#print axioms leakage_bound
#print axioms onpeak_lower
#print axioms sinusoid_identity
#print axioms winT_le_sum
#print axioms kaiserWin_dft_even
#print axioms kaiserWin_nonneg
#print axioms kaiserAlpha_cubic
#print axioms goertzelS_dft
