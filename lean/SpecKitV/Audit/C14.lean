import SpecKitV.Props.C14
import SpecKitV.Lemmas.AnalyzerGlue

#print axioms Par.prange_any_schedule
#print axioms Par.prange_schedules_agree
#print axioms Par.prange_frame
#print axioms Model.planStep_fresh_ok
#print axioms Model.history_independent
#print axioms Model.history_independent_list
#print axioms Model.plan_cached_unchanged
#print axioms Model.lazyGet_sound
#print axioms Model.lazyRun_sound
#print axioms Model.lazyRun_empty
#print axioms Model.lazy_order_independent
#print axioms Model.lazy_order_perm
#print axioms Model.lazyGet_cached
#print axioms Model.coreLoop_eq_map
