import SpecKitV.Props.ResultQueriesGen
import SpecKitV.Props.KernelHeapGen
import SpecKitV.Props.C14
import SpecKitV.Lemmas.AnalyzerGlue
import SpecKitV.Props.ConfigGlueGen

#print axioms gen_getattr_eq_model
#print axioms gen_getattr_run_eq_model
#print axioms gen_lazy_cache_sound
#print axioms gen_lazy_run_empty
#print axioms gen_lazy_order_independent
#print axioms gen_lazy_run_dynamic
#print axioms gen_getattr_formula_first
#print axioms np_kernels_write_no_caller_buffer
#print axioms cRun_sub_aRun
#print axioms np_kernels_abstract_clean
#print axioms Par.prange_any_schedule
#print axioms Par.prange_schedules_agree
#print axioms Par.prange_frame
#print axioms Model.planStep_fresh_ok
#print axioms Model.history_independent
#print axioms Model.history_independent_list
#print axioms Model.plan_cached_unchanged
#print axioms Model.lazyGet_sound
#print axioms Model.lazyRun_sound
#print axioms Model.lazyRun_empty
#print axioms Model.lazy_order_independent
#print axioms Model.lazy_order_perm
#print axioms Model.lazyGet_cached
#print axioms Model.coreLoop_eq_map
#print axioms ConfigGlue.gen_cg_plan_eq_model
#print axioms ConfigGlue.gen_plan_cached_unchanged
#print axioms ConfigGlue.gen_step_eq_model
#print axioms ConfigGlue.gen_run_eq_model
#print axioms ConfigGlue.gen_history_independent_list
#print axioms ConfigGlue.gen_history_independent
#print axioms ConfigGlue.gen_history_dependent_after_failure
#print axioms ConfigGlue.gen_sched_eq_spec
#print axioms ConfigGlue.gen_sched_new_ltf
#print axioms ConfigGlue.gen_sched_callable
#print axioms ConfigGlue.gen_request_eq_spec
#print axioms ConfigGlue.gen_request_L_exact
#print axioms ConfigGlue.gen_request_fres
#print axioms ConfigGlue.gen_request_fres_not_exact
#print axioms ConfigGlue.gen_window_eq_spec
#print axioms ConfigGlue.kaiser_rov_range
#print axioms ConfigGlue.kaiser_alpha_ge_half
#print axioms ConfigGlue.gen_window_kaiser
#print axioms ConfigGlue.gen_window_explicit_olap
#print axioms ConfigGlue.gen_window_explicit_olap_ok
#print axioms ConfigGlue.gen_window_final_olap_range_partial
#print axioms ConfigGlue.gen_window_final_olap_negative
