import SpecKitV.Lemmas.Rms
import SpecKitV.Lemmas.Detrend

#print axioms trapz_sq_nonneg
#print axioms trapz_append
#print axioms integralRms_spec
#print axioms integralRms_none
#print axioms rms_monotone
#print axioms rms_additive_at_grid
#print axioms rms_superadditive
#print axioms detrend0_sum_zero
#print axioms detrend0_const
#print axioms detrend0_idem
#print axioms detr_poly_kills_span
#print axioms detr_poly_orthogonal
#print axioms detr_poly_idempotent
#print axioms detr_linear
