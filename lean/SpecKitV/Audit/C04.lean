import SpecKitV.Lemmas.SchedLtf
import SpecKitV.Lemmas.Starts
import SpecKitV.Lemmas.SchedNewVec
import SpecKitV.Props.C04
import SpecKitV.Props.JdesGen
import SpecKitV.Props.C04New
import SpecKitV.Props.C04Vec
import SpecKitV.Props.SchedGen
import SpecKitV.Props.VecGen
import SpecKitV.Props.StartsGen
import SpecKitV.Props.PostGen
import SpecKitV.Props.Utils
import SpecKitV.Props.SchedGlueGen

#print axioms ltfStep_mono
#print axioms ltfStep_logspaced
#print axioms ltfStep_K
#print axioms nsegRaw_eq
#print axioms capK_le
#print axioms startsEven_safe
#print axioms startsAccum_safe
#print axioms overlapMean_eq_closed
#print axioms overlapMean_accum_eq_closed
#print axioms SchedNV.searchLeft_mono
#print axioms SchedNV.roundEven_mono
#print axioms SchedNV.roundEven_abs_sub_le
#print axioms ltfPlan_monotone
#print axioms lpsdPlan_monotone
#print axioms ltfPlan_K_formula
#print axioms lpsdPlan_K_formula
#print axioms ltfPlan_logspaced
#print axioms plan_even_spread
#print axioms plan_overlap_reported
#print axioms findJdes_sound
#print axioms findJdes_fuel
#print axioms findJdes_complete
#print axioms gen_findJdes_eq_model
#print axioms gen_findJdes_sound
#print axioms gen_findJdes_complete
#print axioms gen_findJdes_complete_log
#print axioms newPlan_monotone
#print axioms NewMono.newStep_mono
#print axioms NewMono.inv_step
#print axioms NewMono.newK_anti
#print axioms vecGridPoint_mono
#print axioms vecGrid_mono
#print axioms vecGrid_pos
#print axioms vecPlan_monotone
#print axioms gen_ltf_round_eq
#print axioms gen_ltf_walk_eq_model
#print axioms gen_new_walk_eq_model
#print axioms Arr.memo_eq
#print axioms Np.logspace_get
#print axioms Np.searchsortedLeft_eq
#print axioms gen_vec_walk_eq_model
#print axioms gen_vec_walk_eq_plan
#print axioms gen_ltf_starts_eq_model
#print axioms gen_ltf_starts_safe
#print axioms gen_vec_post_eq_model
#print axioms gen_new_post_eq_vec_post
#print axioms gen_post_starts_safe
#print axioms gen_round_half_up_eq_model
#print axioms gen_round_half_up_eq_floor
#print axioms SchedGlue.gen_require_args_eq
#print axioms SchedGlue.gen_ltf_post_eq
#print axioms SchedGlue.gen_vec_post_glue_eq
#print axioms SchedGlue.gen_new_post_glue_eq
#print axioms SchedGlue.gen_ltf_plan_eq_model
#print axioms SchedGlue.gen_vec_plan_eq_model
#print axioms SchedGlue.gen_new_plan_eq_model
#print axioms SchedGlue.gen_lpsd_forward
#print axioms SchedGlue.gen_lpsd_plan_eq_ltf
#print axioms SchedGlue.gen_lpsd_plan_eq_model
#print axioms SchedGlue.gen_plan_missing_key
#print axioms SchedGlue.gen_lpsd_missing_key
#print axioms SchedGlue.planDict_keys
#print axioms SchedGlue.gen_plan_wiring
#print axioms SchedGlue.planDict_overlap
#print axioms SchedGlue.gen_ltf_plan_props
#print axioms SchedGlue.gen_lpsd_plan_props
#print axioms SchedGlue.gen_new_plan_props
#print axioms SchedGlue.gen_vec_plan_props
#print axioms SchedGlue.gen_plan_overlap_key
