import SpecKitV.Props.AttrsB
import SpecKitV.Lemmas.Arcsin

#print axioms Gxx_dev_formula
#print axioms Gyy_dev_formula
#print axioms Gxy_dev_formula
#print axioms Hxy_dev_formula
#print axioms coh_dev_formula
#print axioms Gxx_error_formula
#print axioms Gxy_error_formula
#print axioms Hxy_mag_error_formula
#print axioms Hxy_rad_error_formula
#print axioms Hxy_deg_error_formula
#print axioms coh_error_formula
#print axioms Gxx_dev_is_est_times_error
#print axioms Gxy_dev_is_est_times_error
#print axioms Hxy_dev_is_est_times_error
#print axioms coh_dev_is_est_times_error
#print axioms dev_scales_inv_sqrt_n
#print axioms phase_ge_mag
#print axioms phase_le_half_pi_mag
#print axioms auto_dev_uses_unit_coherence
#print axioms le_arcsin_of_nonneg
#print axioms arcsin_le_half_pi_mul
#print axioms arcsin_div_self_tendsto_one
#print axioms magErr_le_radErr
#print axioms radErr_le_half_pi_magErr
#print axioms radErr_div_magErr_tendsto_one
#print axioms radErr_one
#print axioms magErr_one
