import SpecKitV.Props.AttrsA
import SpecKitV.Lemmas.Rms

#print axioms psd_alias
#print axioms asd_sq
#print axioms ps_def
#print axioms csd_alias
#print axioms cs_def
#print axioms tf_alias
#print axioms cf_def
#print axioms cf_db_def
#print axioms deg_rad
#print axioms cf_rad_def
#print axioms Gyx_conj
#print axioms Hyx_conj
#print axioms none_table_cross
#print axioms none_table_auto
#print axioms interp_at_grid
#print axioms interp_clamp_left
#print axioms interp_clamp_right
#print axioms interp_between
