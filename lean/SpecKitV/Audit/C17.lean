import SpecKitV.Lemmas.Chunking
import SpecKitV.Props.NoiseGen

#print axioms Model.sectionRun_append
#print axioms Model.sectionRun_length
#print axioms Model.sectionRun_nil
#print axioms Model.cascadeRun_append
#print axioms Model.cascadeRun_nil_block
#print axioms Model.white_chunking
#print axioms Model.red_chunking
#print axioms Model.alpha_chunking
#print axioms Model.white_sample_runs
#print axioms sectionRun_direct_form
#print axioms sectionRun_first
#print axioms gen_section_loop
#print axioms gen_cascade_eq_model
#print axioms gen_cascade_chunking
