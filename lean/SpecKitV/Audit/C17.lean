import SpecKitV.Lemmas.Chunking

#print axioms Model.sectionRun_append
#print axioms Model.sectionRun_length
#print axioms Model.sectionRun_nil
#print axioms Model.cascadeRun_append
#print axioms Model.cascadeRun_nil_block
#print axioms Model.white_chunking
#print axioms Model.red_chunking
#print axioms Model.alpha_chunking
#print axioms Model.white_sample_runs
#print axioms sectionRun_direct_form
#print axioms sectionRun_first
