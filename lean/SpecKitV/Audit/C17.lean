import SpecKitV.Lemmas.Chunking
import SpecKitV.Props.NoiseGen
import SpecKitV.Props.NoiseGensGen

#print axioms Model.sectionRun_append
#print axioms Model.sectionRun_length
#print axioms Model.sectionRun_nil
#print axioms Model.cascadeRun_append
#print axioms Model.cascadeRun_nil_block
#print axioms Model.white_chunking
#print axioms Model.red_chunking
#print axioms Model.alpha_chunking
#print axioms Model.white_sample_runs
#print axioms sectionRun_direct_form
#print axioms sectionRun_first
#print axioms gen_section_loop
#print axioms gen_cascade_eq_model
#print axioms gen_cascade_chunking
#print axioms gen_white_init_eq_model
#print axioms gen_white_get_series_eq_model
#print axioms gen_white_chunking
#print axioms gen_buffer_size_pos
#print axioms gen_white_get_sample_eq_model
#print axioms gen_white_sample_runs
#print axioms gen_red_get_series_eq_model
#print axioms gen_red_chunking
#print axioms gen_red_get_sample_eq_model
#print axioms gen_red_settle_eq_model
#print axioms gen_red_init_eq_model
#print axioms gen_red_requests_eq_model
#print axioms gen_red_stream_chunking
#print axioms gen_alpha_get_series_eq_model
#print axioms gen_alpha_chunking
#print axioms gen_alpha_get_sample_eq_model
#print axioms gen_alpha_settle_eq_model
#print axioms gen_alpha_obj_init_eq_model
#print axioms gen_alpha_requests_eq_model
#print axioms gen_pink_init_eq
#print axioms gen_alpha_stream_chunking
#print axioms gen_same_seed_same_stream
