import SpecKitV.Lemmas.Taps
import SpecKitV.Props.TapsGen
import SpecKitV.Lemmas.TimeShiftPaths
import SpecKitV.Props.TimeShiftGen

#print axioms tap_eq_lagrange
#print axioms taps_sum_one
#print axioms taps_reproduce_poly
#print axioms tap_at_zero
#print axioms gen_taps_eq_model
#print axioms gen_taps_eq_lagrange
#print axioms gen_taps_sum_one
#print axioms gen_taps_reproduce_poly
#print axioms gen_tap_at_zero
#print axioms clampIdx_lt
#print axioms shiftConst_interior
#print axioms paths_agree_interior
#print axioms shiftConst_is_interpolant
#print axioms shiftConst_reproduces_poly
#print axioms shiftConst_integer
#print axioms shiftConst_zero
#print axioms shiftConst_const
#print axioms gen_timeshift_even_order
#print axioms gen_timeshift_tiny
#print axioms gen_timeshift_zero
#print axioms gen_timeshift_size_mismatch
#print axioms gen_timeshift_negative_order
#print axioms gen_timeshift_const_eq_model
#print axioms gen_timeshift_var_eq_model
#print axioms gen_const_interior
#print axioms gen_const_is_interpolant
#print axioms gen_const_reproduces_poly
#print axioms gen_const_integer
#print axioms gen_zero_identity
#print axioms gen_const_constant
#print axioms gen_paths_agree_interior
#print axioms gen_var_is_interpolant
#print axioms gen_df_samples
#print axioms gen_df_order
#print axioms gen_df_numeric_kinds
#print axioms gen_df_column_noop
#print axioms gen_df_column_eq_model
