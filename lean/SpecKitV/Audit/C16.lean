import SpecKitV.Lemmas.Taps
import SpecKitV.Props.TapsGen
import SpecKitV.Lemmas.TimeShiftPaths

#print axioms tap_eq_lagrange
#print axioms taps_sum_one
#print axioms taps_reproduce_poly
#print axioms tap_at_zero
#print axioms gen_taps_eq_model
#print axioms gen_taps_eq_lagrange
#print axioms gen_taps_sum_one
#print axioms gen_taps_reproduce_poly
#print axioms gen_tap_at_zero
#print axioms clampIdx_lt
#print axioms shiftConst_interior
#print axioms paths_agree_interior
#print axioms shiftConst_is_interpolant
#print axioms shiftConst_reproduces_poly
#print axioms shiftConst_integer
#print axioms shiftConst_zero
#print axioms shiftConst_const
