import SpecKitV.Props.ResultQueriesGen
import SpecKitV.Lemmas.AnalyzerGlue
import SpecKitV.Props.C13
import SpecKitV.Props.KernelHeapGen
import SpecKitV.Props.C13Finite

#print axioms gen_compute_sanitised
#print axioms gen_compute_assemble_eq_model
#print axioms Model.channelOf_transpose
#print axioms Model.sanitise_idem
#print axioms Model.sanitise_eq_zero_fill
#print axioms Model.ctor_copy_no_foreign_write
#print axioms Model.ctor_copy_no_write
#print axioms Model.ctor_inplace_writes_caller
#print axioms Model.ctor_inplace_spares_copied
#print axioms Model.heapRun_written_ge
#print axioms ctor_ops_copying
#print axioms ctor_writes_nothing
#print axioms ctor_written_ge
#print axioms ctor_result_fresh
#print axioms inplace_would_write_fortran_Nx2
#print axioms cRun_sub_aRun
#print axioms np_kernels_abstract_clean
#print axioms np_kernels_write_no_caller_buffer
#print axioms view_gather_would_write
#print axioms np_kernels_do_write
#print axioms C13Finite.densities_finite
#print axioms C13Finite.coherence_finite
#print axioms C13Finite.tf_finite
#print axioms C13Finite.conditioned_finite
#print axioms C13Finite.empirical_finite
#print axioms C13Finite.auto_errors_finite
#print axioms C13Finite.cross_errors_finite
