import SpecKitV.Lemmas.Bilinear
import SpecKitV.Lemmas.FftNoise
import SpecKitV.Props.NoiseGen

#print axioms bilinear_section
#print axioms bilinear_dc
#print axioms bilinear_nyquist
#print axioms fftnoise_hermitian
#print axioms fftnoise_dc_real
#print axioms fftnoise_nyquist_real
#print axioms fftnoise_magnitude_pos
#print axioms fftnoise_magnitude_neg
#print axioms fftnoise_dc_magnitude
#print axioms fftnoise_nyquist_magnitude
#print axioms fftnoise_zero_bins
#print axioms hermitian_idft_real
#print axioms fftnoise_series_real
#print axioms bandMask_symm
#print axioms bandMask_iff
#print axioms fftfreqAbs_symm
#print axioms fftfreqAbs_eq
#print axioms sectionCorners_ratio
#print axioms sectionCorners_step
#print axioms gen_filter_coeffs_eq_model
