import SpecKitV.Lemmas.Bilinear
import SpecKitV.Lemmas.FftNoise
import SpecKitV.Props.NoiseGen
import SpecKitV.Props.FftNoiseGen

#print axioms bilinear_section
#print axioms bilinear_dc
#print axioms bilinear_nyquist
#print axioms fftnoise_hermitian
#print axioms fftnoise_dc_real
#print axioms fftnoise_nyquist_real
#print axioms fftnoise_magnitude_pos
#print axioms fftnoise_magnitude_neg
#print axioms fftnoise_dc_magnitude
#print axioms fftnoise_nyquist_magnitude
#print axioms fftnoise_zero_bins
#print axioms hermitian_idft_real
#print axioms fftnoise_series_real
#print axioms bandMask_symm
#print axioms bandMask_iff
#print axioms fftfreqAbs_symm
#print axioms fftfreqAbs_eq
#print axioms sectionCorners_ratio
#print axioms sectionCorners_step
#print axioms gen_filter_coeffs_eq_model
#print axioms gen_fftnoise_spectrum_eq_model
#print axioms gen_fftnoise_rejects_iff
#print axioms gen_fftnoise_hermitian
#print axioms gen_fftnoise_dc_real
#print axioms gen_fftnoise_nyquist_real
#print axioms gen_fftnoise_magnitude_pos
#print axioms gen_fftnoise_magnitude_neg
#print axioms gen_fftnoise_dc_magnitude
#print axioms gen_fftnoise_nyquist_magnitude
#print axioms gen_fftnoise_zero_bins
#print axioms gen_fftnoise_series_real
#print axioms gen_fftnoise_eq
#print axioms gen_fftnoise_series
#print axioms FftNoiseGen.npifft_toC
#print axioms gen_band_spectrum_eq_model
#print axioms gen_band_rejects_iff
#print axioms gen_band_symm
#print axioms gen_band_iff
#print axioms gen_band_limited_noise_eq
#print axioms gen_band_limited_zero_outside
#print axioms gen_band_limited_unit_inside
#print axioms gen_alpha_init_eq_model
#print axioms gen_alpha_rejects_iff
#print axioms gen_alpha_corners
#print axioms gen_alpha_corners_ratio
#print axioms gen_alpha_corners_step
#print axioms gen_alpha_section_response
#print axioms gen_alpha_effective
#print axioms gen_alpha_section_dc_nyquist
#print axioms gen_white_init_eq
#print axioms gen_white_variance
