import SpecKitV.Lemmas.Bilinear

#print axioms bilinear_section
#print axioms bilinear_dc
#print axioms bilinear_nyquist
