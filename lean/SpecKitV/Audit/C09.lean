import SpecKitV.Lemmas.CauchySchwarz
import SpecKitV.Props.AttrsA
import SpecKitV.Props.C01

#print axioms cross_cs_real
#print axioms cross_cs_complex
#print axioms cross_cs_means
#print axioms cross_cs_eq_one_segment
#print axioms cross_cs_eq_dependent
#print axioms cross_swap
#print axioms cross_swap_modsq
#print axioms coh_bounds
#print axioms Gxy_sq_le
#print axioms coh_one_of_eq
#print axioms coh_def
#print axioms swap_channels
#print axioms conditioned_sum
#print axioms residual_identity
#print axioms residual_eq_GyyRx
#print axioms auto_consistent
#print axioms auto_is_diag
