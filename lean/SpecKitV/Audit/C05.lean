import SpecKitV.Props.AnalysisGen
import SpecKitV.Lemmas.AnalyzerGlue
import SpecKitV.Props.C01
import SpecKitV.Props.LpsdCoreGen
import SpecKitV.Props.C05

#print axioms gen_single_bin_seg_eq_model
#print axioms gen_single_bin_omega_eq
#print axioms Model.coreStep_spec
#print axioms Model.coreLoop_eq_map
#print axioms Model.cachesOk_empty
#print axioms Model.band_commutes
#print axioms Model.band_commutes_zip
#print axioms Model.bandFilter_sublist
#print axioms singleBinStarts_whole
#print axioms singleBinStarts_in_range
#print axioms singleBinStarts_head
#print axioms kaiserWin_dft_even
#print axioms kaiserWin_nonneg
#print axioms kaiserWin_center
#print axioms kaiserAlpha_cubic
#print axioms stats_win_only_csd_eq_ref
#print axioms stats_win_only_auto_eq_ref
#print axioms stats_detrend0_csd_eq_ref
#print axioms stats_detrend0_auto_eq_ref
#print axioms stats_poly_csd_eq_ref
#print axioms stats_poly_auto_eq_ref
#print axioms LpsdCoreGen.gen_build_window_spec
#print axioms LpsdCoreGen.gen_build_window_flag
#print axioms LpsdCoreGen.gen_lpsd_core_step
#print axioms LpsdCoreGen.gen_lpsd_core_fold
#print axioms LpsdCoreGen.gen_lpsd_core_rows
#print axioms LpsdCoreGen.gen_lpsd_core_raises_iff
#print axioms LpsdCoreGen.dispatchWith_numba
#print axioms LpsdCoreGen.genCuda6_eq_genNumba6
#print axioms LpsdCoreGen.dispatchWith_genFamily
#print axioms LpsdCoreGen.gen_lpsd_core_eq_model
#print axioms LpsdCoreGen.gen_lpsd_core_sums
#print axioms LpsdCoreGen.gen_lpsd_core_eq_ref_cross
#print axioms LpsdCoreGen.gen_lpsd_core_eq_ref_auto
#print axioms LpsdCoreGen.gen_lpsd_core_bin_local
#print axioms LpsdCoreGen.gen_lpsd_core_band
#print axioms LpsdCoreGen.gen_lpsd_core_order1_add_line_auto
#print axioms LpsdCoreGen.lpsdWindow_kaiser
#print axioms LpsdCoreGen.lpsdWindow_kaiser_dft_even
#print axioms LpsdCoreGen.lpsdWindow_other
#print axioms LpsdCoreGen.gen_single_window
#print axioms LpsdCoreGen.gen_single_bin_section_eq_model
#print axioms LpsdCoreGen.gen_single_bin_eq_lpsdCore
#print axioms LpsdCoreGen.gen_plan_validate_arrays
#print axioms LpsdCoreGen.gen_plan_validate_eq_model
#print axioms LpsdCoreGen.gen_plan_validate_accepts_safe
#print axioms LpsdCoreGen.gen_plan_band_eq_model
#print axioms LpsdCoreGen.gen_plan_band_none
#print axioms LpsdCoreGen.dispatchWith_genNp6
#print axioms LpsdCoreGen.dispatchWith_genFamilyAll
#print axioms LpsdCoreGen.gen_lpsd_core_eq_model_all_backends
#print axioms LpsdCoreGen.gen_lpsd_core_eq_ref_all_backends_cross
#print axioms LpsdCoreGen.gen_lpsd_core_eq_ref_all_backends_auto
#print axioms LpsdCoreGen.gen_single_bin_section_all_backends
#print axioms lpsdCore_eq_ref_cross
#print axioms lpsdCore_eq_ref_auto
#print axioms lpsdCore_bin_local
#print axioms lpsdCore_band
#print axioms winSums_spec
#print axioms lpsdCore_single
#print axioms lpsdCore_order1_add_line_auto
#print axioms lpsdCore_order1_add_line_cross
