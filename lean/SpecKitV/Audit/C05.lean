import SpecKitV.Props.AnalysisGen
import SpecKitV.Lemmas.AnalyzerGlue
import SpecKitV.Props.C01
import SpecKitV.Props.C05

#print axioms gen_single_bin_seg_eq_model
#print axioms gen_single_bin_omega_eq
#print axioms Model.coreStep_spec
#print axioms Model.coreLoop_eq_map
#print axioms Model.cachesOk_empty
#print axioms Model.band_commutes
#print axioms Model.band_commutes_zip
#print axioms Model.bandFilter_sublist
#print axioms singleBinStarts_whole
#print axioms singleBinStarts_in_range
#print axioms singleBinStarts_head
#print axioms kaiserWin_dft_even
#print axioms kaiserWin_nonneg
#print axioms kaiserWin_center
#print axioms kaiserAlpha_cubic
#print axioms stats_win_only_csd_eq_ref
#print axioms stats_win_only_auto_eq_ref
#print axioms stats_detrend0_csd_eq_ref
#print axioms stats_detrend0_auto_eq_ref
#print axioms stats_poly_csd_eq_ref
#print axioms stats_poly_auto_eq_ref
#print axioms lpsdCore_eq_ref_cross
#print axioms lpsdCore_eq_ref_auto
#print axioms lpsdCore_bin_local
#print axioms lpsdCore_band
#print axioms winSums_spec
#print axioms lpsdCore_single
#print axioms lpsdCore_order1_add_line_auto
#print axioms lpsdCore_order1_add_line_cross
