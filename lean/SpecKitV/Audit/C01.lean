import SpecKitV.Lemmas.Goertzel
import SpecKitV.Props.C01

#print axioms goertzelS_dft
#print axioms forRange_goertzel
#print axioms segDFT_toC
#print axioms goertzel_pair_outputs
#print axioms goertzel_pair_segDFT
#print axioms reduce_spec
#print axioms reduce_M2_all_K
#print axioms reduce_M2_nonneg
#print axioms reduce_M2_one
#print axioms stats_win_only_csd_eq_ref
#print axioms stats_win_only_auto_eq_ref
#print axioms stats_detrend0_csd_eq_ref
#print axioms stats_detrend0_auto_eq_ref
#print axioms stats_poly_csd_eq_ref
#print axioms stats_poly_auto_eq_ref
#print axioms stats_win_only_csd_cuda_eq_ref
#print axioms stats_win_only_auto_cuda_eq_ref
#print axioms stats_detrend0_csd_cuda_eq_ref
#print axioms stats_detrend0_auto_cuda_eq_ref
#print axioms stats_poly_csd_cuda_eq_ref
#print axioms stats_poly_auto_cuda_eq_ref
#print axioms numba_cuda_agree_win_only_csd
#print axioms numba_cuda_agree_win_only_auto
#print axioms numba_cuda_agree_detrend0_csd
#print axioms numba_cuda_agree_detrend0_auto
#print axioms numba_cuda_agree_poly_csd
#print axioms numba_cuda_agree_poly_auto
#print axioms auto_is_diag
#print axioms ref_cross_is_X_conjY
