import SpecKitV.Lemmas.CalibPoly
import SpecKitV.Lemmas.Sinusoid
import SpecKitV.Lemmas.Calib0
import SpecKitV.Props.AttrsA

#print axioms segDFT_poly_eq
#print axioms proj_coeff_bound
#print axioms basis_coeff_le_sqrt
#print axioms basisT_le_sqrt
#print axioms calibration_core
#print axioms calibration_bound_poly
#print axioms calibration_bound_poly_sqrt
#print axioms power_spectrum_calibrated_poly
#print axioms calibration_bound_order0_of_poly
#print axioms orthoCols_Q4
#print axioms segDFT_raw_toC
#print axioms sinusoid_identity
#print axioms calibration_bound
#print axioms power_spectrum_calibrated
#print axioms winT_le_sum
#print axioms winT_zero
#print axioms segDFT_order0_eq
#print axioms sinusoid_mean_bound
#print axioms calibration_bound_order0
#print axioms power_spectrum_calibrated_order0
#print axioms ps_of_segment_bound
#print axioms Gxx_def
#print axioms Gxy_def
#print axioms enbw_def
#print axioms ps_eq
#print axioms ps_def
#print axioms scale_x
#print axioms scale_y
#print axioms scale_fs
