import SpecKitV.Lemmas.Sinusoid
import SpecKitV.Lemmas.Calib0
import SpecKitV.Props.AttrsA

#print axioms segDFT_raw_toC
#print axioms sinusoid_identity
#print axioms calibration_bound
#print axioms power_spectrum_calibrated
#print axioms winT_le_sum
#print axioms winT_zero
#print axioms segDFT_order0_eq
#print axioms sinusoid_mean_bound
#print axioms calibration_bound_order0
#print axioms power_spectrum_calibrated_order0
#print axioms ps_of_segment_bound
#print axioms Gxx_def
#print axioms Gxy_def
#print axioms enbw_def
#print axioms ps_eq
#print axioms ps_def
#print axioms scale_x
#print axioms scale_y
#print axioms scale_fs
