import SpecKitV.Lemmas.Sinusoid
import SpecKitV.Props.AttrsA

#print axioms segDFT_raw_toC
#print axioms sinusoid_identity
#print axioms calibration_bound
#print axioms power_spectrum_calibrated
#print axioms winT_le_sum
#print axioms winT_zero
#print axioms Gxx_def
#print axioms Gxy_def
#print axioms enbw_def
#print axioms ps_eq
#print axioms ps_def
#print axioms scale_x
#print axioms scale_y
#print axioms scale_fs
