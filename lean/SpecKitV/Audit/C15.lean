import SpecKitV.Props.MisoGen
import SpecKitV.Lemmas.MisoResidual
import SpecKitV.Props.AttrsA

#print axioms gen_numeric_eq_model
#print axioms gen_analytic_eq_model
#print axioms MisoGen.numeric_assembly
#print axioms MisoGen.analytic_T
#print axioms MisoGen.analytic_S
#print axioms MisoGen.analytic_S00
#print axioms MisoGen.analytic_H
#print axioms MisoGen.numeric_H_solves
#print axioms MisoGen.analytic_H_solves
#print axioms gen_numeric_eq_resid
#print axioms gen_numeric_is_norm
#print axioms gen_numeric_normal_eq
#print axioms gen_numeric_le_output
#print axioms gen_numeric_minimises
#print axioms gen_numeric_exact_combination_zero
#print axioms gen_numeric_remix_invariant
#print axioms gen_analytic_eq_resid
#print axioms gen_analytic_normal_eq
#print axioms gen_analytic_le_output
#print axioms gen_analytic_exact_combination_zero
#print axioms gen_analytic_remix_invariant
#print axioms gen_solvers_agree
#print axioms gen_siso_eq_GyyRx
#print axioms gen_siso_eq_miso_q1
#print axioms MisoGen.abs_csqrt
#print axioms MisoGen.NTkey_inj
#print axioms MisoGen.Skey_inj'
#print axioms analytic_key_collision
#print axioms analytic_T_1_11_holds_conjugate
#print axioms old_numeric_key_collision
#print axioms Miso.residual_is_norm
#print axioms Miso.residual_real_nonneg
#print axioms Miso.normal_eq_minimises
#print axioms Miso.residual_le_output
#print axioms Miso.solvers_agree
#print axioms Miso.exact_combination_zero
#print axioms Miso.remix_invariant
#print axioms Miso.siso_case
#print axioms model_misoResidual_toC
#print axioms residual_identity
#print axioms residual_identity'
#print axioms residual_eq_GyyRx
