import SpecKitV.Lemmas.MisoResidual
import SpecKitV.Props.AttrsA

#print axioms Miso.residual_is_norm
#print axioms Miso.residual_real_nonneg
#print axioms Miso.normal_eq_minimises
#print axioms Miso.residual_le_output
#print axioms Miso.solvers_agree
#print axioms Miso.exact_combination_zero
#print axioms Miso.remix_invariant
#print axioms Miso.siso_case
#print axioms model_misoResidual_toC
#print axioms residual_identity
#print axioms residual_identity'
#print axioms residual_eq_GyyRx
