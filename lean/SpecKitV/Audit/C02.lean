import SpecKitV.Lemmas.Starts
import SpecKitV.Lemmas.SchedLtf
import SpecKitV.Lemmas.SchedNewVec
import SpecKitV.Props.C02
import SpecKitV.Props.SchedGen
import SpecKitV.Props.VecGen
import SpecKitV.Props.StartsGen
import SpecKitV.Props.PostGen
import SpecKitV.Props.Utils
import SpecKitV.Props.SchedGlueGen

#print axioms roundHalfUp_eq
#print axioms capK_le
#print axioms capK_ge_one
#print axioms nsegRaw_ge_one
#print axioms nsegRaw_eq
#print axioms startsEven_one
#print axioms startsAccum_one
#print axioms startsEven_safe
#print axioms startsAccum_safe
#print axioms startsEven_uncapped_collide
#print axioms ltfStep_L_bounds
#print axioms ltfStep_K
#print axioms ltf_walk_fuel
#print axioms ltf_walk_nonempty
#print axioms walk_entry_is_step
#print axioms SchedNV.newStep_L_bounds
#print axioms SchedNV.newStep_K
#print axioms SchedNV.newWalk_bins
#print axioms SchedNV.newWalk_fuel
#print axioms SchedNV.vecGridPoint_props
#print axioms SchedNV.vecWalk_entry_from_map
#print axioms SchedNV.searchLeft_le
#print axioms ltfPlan_safe
#print axioms lpsdPlan_safe
#print axioms newPlan_safe
#print axioms vecPlan_safe
#print axioms planValidate_ok
#print axioms planValidate_ok_lpsd
#print axioms gen_ltf_round_eq
#print axioms gen_ltf_walk_eq_model
#print axioms gen_new_walk_eq_model
#print axioms Arr.memo_eq
#print axioms Np.logspace_get
#print axioms Np.searchsortedLeft_eq
#print axioms gen_vec_walk_eq_model
#print axioms gen_vec_walk_eq_plan
#print axioms gen_ltf_starts_eq_model
#print axioms gen_ltf_starts_safe
#print axioms gen_vec_post_eq_model
#print axioms gen_new_post_eq_vec_post
#print axioms gen_post_starts_safe
#print axioms gen_round_half_up_eq_model
#print axioms gen_round_half_up_eq_floor
#print axioms SchedGlue.gen_require_args_eq
#print axioms SchedGlue.gen_ltf_post_eq
#print axioms SchedGlue.gen_vec_post_glue_eq
#print axioms SchedGlue.gen_new_post_glue_eq
#print axioms SchedGlue.gen_ltf_plan_eq_model
#print axioms SchedGlue.gen_vec_plan_eq_model
#print axioms SchedGlue.gen_new_plan_eq_model
#print axioms SchedGlue.gen_lpsd_forward
#print axioms SchedGlue.gen_lpsd_plan_eq_ltf
#print axioms SchedGlue.gen_lpsd_plan_eq_model
#print axioms SchedGlue.gen_plan_missing_key
#print axioms SchedGlue.gen_lpsd_missing_key
#print axioms SchedGlue.planDict_keys
#print axioms SchedGlue.gen_plan_wiring
#print axioms SchedGlue.planDict_overlap
#print axioms SchedGlue.gen_ltf_plan_props
#print axioms SchedGlue.gen_lpsd_plan_props
#print axioms SchedGlue.gen_new_plan_props
#print axioms SchedGlue.gen_vec_plan_props
#print axioms SchedGlue.gen_plan_overlap_key
