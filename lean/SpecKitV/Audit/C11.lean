import SpecKitV.Props.NumpyKernelsGen
import SpecKitV.Props.AttrsB
import SpecKitV.Props.C01

#print axioms gen_np_win_only_auto_eq_ref
#print axioms gen_np_win_only_csd_eq_ref
#print axioms gen_np_detrend0_auto_eq_ref
#print axioms gen_np_detrend0_csd_eq_ref
#print axioms gen_np_poly_auto_eq_ref
#print axioms gen_np_poly_csd_eq_ref
#print axioms np_poly_csd_chunk_invariant
#print axioms np_poly_csd_M2_nonneg
#print axioms emp_var_formula
#print axioms emp_var_nonneg
#print axioms emp_var_zero_of_M2_zero
#print axioms emp_dev_is_sqrt
#print axioms Gxx_emp_dev_formula
#print axioms Gxy_emp_dev_formula
#print axioms emp_dev_is_scaled_emp
#print axioms raw_stats
#print axioms reduce_spec
#print axioms reduce_M2_all_K
#print axioms reduce_M2_nonneg
#print axioms reduce_M2_one
