import SpecKitV.Props.NumpyKernelsGen
import SpecKitV.Props.AttrsA
import SpecKitV.Lemmas.Detrend
import SpecKitV.Props.C01
import SpecKitV.Lemmas.Delay
import SpecKitV.Lemmas.DelayEff

#print axioms np_numba_agree_win_only_auto
#print axioms np_numba_agree_win_only_csd
#print axioms np_numba_agree_detrend0_auto
#print axioms np_numba_agree_detrend0_csd
#print axioms np_numba_agree_poly_auto
#print axioms np_numba_agree_poly_csd
#print axioms np_cross_is_X_conjY_win_only
#print axioms np_cross_is_X_conjY_detrend0
#print axioms np_cross_is_X_conjY_poly
#print axioms tf_static_gain
#print axioms tf_zero_input
#print axioms tf_is_Y_over_X
#print axioms coh_one_of_eq
#print axioms detr_linear
#print axioms segDFT_scale
#print axioms numba_cuda_agree_win_only_csd
#print axioms numba_cuda_agree_win_only_auto
#print axioms numba_cuda_agree_detrend0_csd
#print axioms numba_cuda_agree_detrend0_auto
#print axioms numba_cuda_agree_poly_csd
#print axioms numba_cuda_agree_poly_auto
#print axioms ref_cross_is_X_conjY
#print axioms detr_gain
#print axioms segDFT_gain
#print axioms delay_decomposition
#print axioms delay_bound
#print axioms tf_of_pure_delay
#print axioms tf_of_pure_delay_arg
#print axioms tf_delay_perturbed
#print axioms tf_delay_perturbed_abs
#print axioms segDFT_effWin
#print axioms delay_decomposition_eff
#print axioms delay_bound_eff
#print axioms delay_bound_any_order
#print axioms delay_coeffs_identity
#print axioms delayCoeffs_l1
#print axioms delay_bound_coeffs_l1
#print axioms delay_bound_coeffs_l2
#print axioms delay_bound_any_order_l1
#print axioms delay_bound_any_order_l2
