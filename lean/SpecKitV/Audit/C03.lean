import SpecKitV.Lemmas.SchedLtf
import SpecKitV.Lemmas.SchedNewVec
import SpecKitV.Props.C03
import SpecKitV.Props.SchedGen
import SpecKitV.Props.VecGen
import SpecKitV.Props.Utils
import SpecKitV.Props.SchedGlueGen

#print axioms ltfStep_rL
#print axioms ltfStep_bin
#print axioms ltfStep_bmin_slack
#print axioms walk_first
#print axioms walk_below
#print axioms walk_stepping
#print axioms ltf_walk_ge_fmin
#print axioms ltf_walk_nonempty
#print axioms SchedNV.newStep_rL
#print axioms SchedNV.newStep_bin
#print axioms SchedNV.newStep_next
#print axioms SchedNV.newStep_bmin
#print axioms SchedNV.newWalk_below
#print axioms SchedNV.newWalk_stepping
#print axioms SchedNV.vecWalk_below
#print axioms SchedNV.vecWalk_stepping
#print axioms SchedNV.vecGridPoint_props
#print axioms SchedNV.searchLeft_spec
#print axioms ltfPlan_grid
#print axioms lpsdPlan_grid
#print axioms lpsd_is_ltf
#print axioms newPlan_grid
#print axioms vecPlan_grid
#print axioms vecPlan_increasing
#print axioms gen_ltf_round_eq
#print axioms gen_ltf_walk_eq_model
#print axioms gen_new_walk_eq_model
#print axioms Arr.memo_eq
#print axioms Np.logspace_get
#print axioms Np.searchsortedLeft_eq
#print axioms gen_vec_walk_eq_model
#print axioms gen_vec_walk_eq_plan
#print axioms gen_round_half_up_eq_model
#print axioms gen_round_half_up_eq_floor
#print axioms SchedGlue.gen_require_args_eq
#print axioms SchedGlue.gen_ltf_post_eq
#print axioms SchedGlue.gen_vec_post_glue_eq
#print axioms SchedGlue.gen_new_post_glue_eq
#print axioms SchedGlue.gen_ltf_plan_eq_model
#print axioms SchedGlue.gen_vec_plan_eq_model
#print axioms SchedGlue.gen_new_plan_eq_model
#print axioms SchedGlue.gen_lpsd_forward
#print axioms SchedGlue.gen_lpsd_plan_eq_ltf
#print axioms SchedGlue.gen_lpsd_plan_eq_model
#print axioms SchedGlue.gen_plan_missing_key
#print axioms SchedGlue.gen_lpsd_missing_key
#print axioms SchedGlue.planDict_keys
#print axioms SchedGlue.gen_plan_wiring
#print axioms SchedGlue.planDict_overlap
#print axioms SchedGlue.gen_ltf_plan_props
#print axioms SchedGlue.gen_lpsd_plan_props
#print axioms SchedGlue.gen_new_plan_props
#print axioms SchedGlue.gen_vec_plan_props
#print axioms SchedGlue.gen_plan_overlap_key
