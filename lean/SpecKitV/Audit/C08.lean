import SpecKitV.Props.NumpyKernelsGen
import SpecKitV.Lemmas.Detrend
import SpecKitV.Lemmas.DetrendComplete
import SpecKitV.Props.C01

#print axioms gen_np_win_only_auto_eq_ref
#print axioms gen_np_win_only_csd_eq_ref
#print axioms gen_np_detrend0_auto_eq_ref
#print axioms gen_np_detrend0_csd_eq_ref
#print axioms gen_np_poly_auto_eq_ref
#print axioms gen_np_poly_csd_eq_ref
#print axioms detr_neg_one
#print axioms detr0_add_const
#print axioms detr0_sum_zero
#print axioms detr_poly_add_span
#print axioms detr_poly_kills_span
#print axioms detr_poly_orthogonal
#print axioms detr_poly_idempotent
#print axioms detr_linear
#print axioms segDFT_add_const_order0
#print axioms segDFT_add_span
#print axioms detr_poly_keeps_orthogonal
#print axioms ortho_rows_of_cols
#print axioms proj_complete
#print axioms detr_complete_basis_zero
#print axioms segDFT_complete_basis_zero
#print axioms stats_win_only_csd_eq_ref
#print axioms stats_win_only_auto_eq_ref
#print axioms stats_detrend0_csd_eq_ref
#print axioms stats_detrend0_auto_eq_ref
#print axioms stats_poly_csd_eq_ref
#print axioms stats_poly_auto_eq_ref
#print axioms stats_win_only_csd_cuda_eq_ref
#print axioms stats_win_only_auto_cuda_eq_ref
#print axioms stats_detrend0_csd_cuda_eq_ref
#print axioms stats_detrend0_auto_cuda_eq_ref
#print axioms stats_poly_csd_cuda_eq_ref
#print axioms stats_poly_auto_cuda_eq_ref
