/-
  SpecKitV.Lemmas.Bilinear — the first-order section designed by `Model.filterCoeffs` has, on the
  unit circle, the squared magnitude of the bilinear-warped first-order shelf
  `(Ω² + (2π fmax)²) / (Ω² + (2π fmin)²)` with `Ω = 2 fs tan(ω/2)`.
-/
import SpecKitV.RealInst
import SpecKitV.Model.Noise
import Mathlib.Analysis.SpecialFunctions.Trigonometric.Basic
import Mathlib.Analysis.SpecialFunctions.Trigonometric.Bounds
import Mathlib.Analysis.Complex.Trigonometric

namespace Bilinear

/-- the coefficients at `ℝ`, in Mathlib terms -/
theorem filterCoeffs_real (fs fmin fmax : ℝ) :
    Model.filterCoeffs fs fmin fmax
      = ((fs + fmax * Real.pi) / (fs + fmin * Real.pi),
         -1 * (fs - fmax * Real.pi) / (fs + fmin * Real.pi),
         (fs - fmin * Real.pi) / (fs + fmin * Real.pi)) := by
  simp [Model.filterCoeffs]

theorem exp_neg_mul_I (ω : ℝ) :
    Complex.exp (-(ω * Complex.I)) = ((Real.cos ω : ℝ) : ℂ) - ((Real.sin ω : ℝ) : ℂ) * Complex.I := by
  rw [← neg_mul, ← Complex.ofReal_neg, Complex.exp_mul_I, ← Complex.ofReal_cos,
    ← Complex.ofReal_sin, Real.cos_neg, Real.sin_neg]
  push_cast
  ring

/-- `|a + b e^{-iω}|² = a² + 2ab cos ω + b²` for real `a b` -/
theorem normSq_add_mul_exp (a b ω : ℝ) :
    Complex.normSq ((a : ℂ) + (b : ℂ) * Complex.exp (-(ω * Complex.I)))
      = a ^ 2 + 2 * a * b * Real.cos ω + b ^ 2 := by
  rw [exp_neg_mul_I, Complex.normSq_apply]
  simp only [Complex.add_re, Complex.add_im, Complex.mul_re, Complex.mul_im, Complex.sub_re,
    Complex.sub_im, Complex.ofReal_re, Complex.ofReal_im, Complex.I_re, Complex.I_im,
    mul_zero, mul_one, sub_zero, zero_mul, add_zero, zero_add, zero_sub]
  linear_combination b ^ 2 * Real.sin_sq_add_cos_sq ω

/-- `|1 - b e^{-iω}|² = 1 - 2b cos ω + b²` -/
theorem normSq_one_sub_mul_exp (b ω : ℝ) :
    Complex.normSq (1 - (b : ℂ) * Complex.exp (-(ω * Complex.I)))
      = 1 - 2 * b * Real.cos ω + b ^ 2 := by
  have h := normSq_add_mul_exp 1 (-b) ω
  have e : ((1 : ℝ) : ℂ) + ((-b : ℝ) : ℂ) * Complex.exp (-(ω * Complex.I))
      = 1 - (b : ℂ) * Complex.exp (-(ω * Complex.I)) := by
    push_cast; ring
  rw [e] at h
  rw [h]; ring

/-- the algebraic core, in terms of `c = cos(ω/2)` (so `cos ω = 2c² − 1`, `sin²(ω/2) = 1 − c²`) -/
theorem core (fs pm pM c : ℝ) (hden : fs + pm ≠ 0) (hc : c ≠ 0) :
    (((fs + pM) / (fs + pm)) ^ 2
        + 2 * ((fs + pM) / (fs + pm)) * (-1 * (fs - pM) / (fs + pm)) * (2 * c ^ 2 - 1)
        + (-1 * (fs - pM) / (fs + pm)) ^ 2)
      / (1 - 2 * ((fs - pm) / (fs + pm)) * (2 * c ^ 2 - 1) + ((fs - pm) / (fs + pm)) ^ 2)
      = (4 * fs ^ 2 * ((1 - c ^ 2) / c ^ 2) + (2 * pM) ^ 2)
          / (4 * fs ^ 2 * ((1 - c ^ 2) / c ^ 2) + (2 * pm) ^ 2) := by
  have hnum : ((fs + pM) / (fs + pm)) ^ 2
        + 2 * ((fs + pM) / (fs + pm)) * (-1 * (fs - pM) / (fs + pm)) * (2 * c ^ 2 - 1)
        + (-1 * (fs - pM) / (fs + pm)) ^ 2
      = (4 * fs ^ 2 * (1 - c ^ 2) + 4 * pM ^ 2 * c ^ 2) / (fs + pm) ^ 2 := by
    field_simp; ring
  have hdn : 1 - 2 * ((fs - pm) / (fs + pm)) * (2 * c ^ 2 - 1) + ((fs - pm) / (fs + pm)) ^ 2
      = (4 * fs ^ 2 * (1 - c ^ 2) + 4 * pm ^ 2 * c ^ 2) / (fs + pm) ^ 2 := by
    field_simp; ring
  have hr : 4 * fs ^ 2 * ((1 - c ^ 2) / c ^ 2) + (2 * pm) ^ 2
      = (4 * fs ^ 2 * (1 - c ^ 2) + 4 * pm ^ 2 * c ^ 2) / c ^ 2 := by
    field_simp; ring
  have hrM : 4 * fs ^ 2 * ((1 - c ^ 2) / c ^ 2) + (2 * pM) ^ 2
      = (4 * fs ^ 2 * (1 - c ^ 2) + 4 * pM ^ 2 * c ^ 2) / c ^ 2 := by
    field_simp; ring
  have hden2 : (fs + pm) ^ 2 ≠ 0 := pow_ne_zero 2 hden
  have hc2 : c ^ 2 ≠ 0 := pow_ne_zero 2 hc
  rw [hnum, hdn, hr, hrM, div_div_div_cancel_right₀ hden2, div_div_div_cancel_right₀ hc2]

end Bilinear

/- `hmax` is part of the requested statements but is not needed by the proofs: the identities
   hold for every real `fmax`. -/
set_option linter.unusedVariables false

open Real in
theorem bilinear_section (fs fmin fmax ω : ℝ) (hfs : 0 < fs) (hmin : 0 ≤ fmin) (hmax : 0 ≤ fmax)
    (h0 : 0 < ω) (hπ : ω < π) :
    let co := Model.filterCoeffs fs fmin fmax
    let a0 := co.1; let a1 := co.2.1; let b1 := co.2.2
    let Ω := 2 * fs * Real.tan (ω / 2)
    Complex.normSq ((a0 : ℂ) + (a1 : ℂ) * Complex.exp (-(ω * Complex.I)))
        / Complex.normSq (1 - (b1 : ℂ) * Complex.exp (-(ω * Complex.I)))
      = (Ω ^ 2 + (2 * π * fmax) ^ 2) / (Ω ^ 2 + (2 * π * fmin) ^ 2) := by
  intro co a0 a1 b1 Ω
  have hco : co = ((fs + fmax * π) / (fs + fmin * π),
         -1 * (fs - fmax * π) / (fs + fmin * π),
         (fs - fmin * π) / (fs + fmin * π)) := Bilinear.filterCoeffs_real fs fmin fmax
  have ha0 : a0 = (fs + fmax * π) / (fs + fmin * π) := by simp only [a0, hco]
  have ha1 : a1 = -1 * (fs - fmax * π) / (fs + fmin * π) := by simp only [a1, hco]
  have hb1 : b1 = (fs - fmin * π) / (fs + fmin * π) := by simp only [b1, hco]
  -- half-angle facts
  have hhalfπ : ω / 2 < π / 2 := by linarith
  have hc : 0 < Real.cos (ω / 2) := Real.cos_pos_of_mem_Ioo ⟨by linarith [Real.pi_pos], hhalfπ⟩
  have hcos : Real.cos ω = 2 * Real.cos (ω / 2) ^ 2 - 1 := by
    have := Real.cos_two_mul (ω / 2)
    rwa [show 2 * (ω / 2) = ω by ring] at this
  have hsin2 : Real.sin (ω / 2) ^ 2 = 1 - Real.cos (ω / 2) ^ 2 := by
    linarith [Real.sin_sq_add_cos_sq (ω / 2)]
  have hΩ : Ω ^ 2 = 4 * fs ^ 2 * ((1 - Real.cos (ω / 2) ^ 2) / Real.cos (ω / 2) ^ 2) := by
    simp only [Ω]
    rw [Real.tan_eq_sin_div_cos, ← hsin2]
    ring
  have hden : fs + fmin * π ≠ 0 := by
    have : 0 ≤ fmin * π := mul_nonneg hmin Real.pi_pos.le
    linarith
  rw [Bilinear.normSq_add_mul_exp, Bilinear.normSq_one_sub_mul_exp, ha0, ha1, hb1, hcos, hΩ,
    Bilinear.core fs (fmin * π) (fmax * π) (Real.cos (ω / 2)) hden hc.ne']
  ring

/-- DC gain (ω = 0) is fmax/fmin squared, Nyquist gain (ω = π) is 1 -/
theorem bilinear_dc (fs fmin fmax : ℝ) (hfs : 0 < fs) (hmin : 0 < fmin) (hmax : 0 ≤ fmax) :
    let co := Model.filterCoeffs fs fmin fmax
    ((co.1 + co.2.1) / (1 - co.2.2)) ^ 2 = (fmax / fmin) ^ 2 := by
  intro co
  have hco : co = ((fs + fmax * Real.pi) / (fs + fmin * Real.pi),
         -1 * (fs - fmax * Real.pi) / (fs + fmin * Real.pi),
         (fs - fmin * Real.pi) / (fs + fmin * Real.pi)) := Bilinear.filterCoeffs_real fs fmin fmax
  have hden : fs + fmin * Real.pi ≠ 0 := by
    have : 0 < fmin * Real.pi := mul_pos hmin Real.pi_pos
    linarith
  have hπ : Real.pi ≠ 0 := Real.pi_ne_zero
  have hm : fmin ≠ 0 := hmin.ne'
  rw [hco]
  simp only
  congr 1
  have h1 : (fs + fmax * Real.pi) / (fs + fmin * Real.pi)
      + -1 * (fs - fmax * Real.pi) / (fs + fmin * Real.pi)
      = 2 * fmax * Real.pi / (fs + fmin * Real.pi) := by
    field_simp; ring
  have h2 : 1 - (fs - fmin * Real.pi) / (fs + fmin * Real.pi)
      = 2 * fmin * Real.pi / (fs + fmin * Real.pi) := by
    field_simp; ring
  rw [h1, h2, div_div_div_cancel_right₀ hden]
  field_simp

theorem bilinear_nyquist (fs fmin fmax : ℝ) (hfs : 0 < fs) (hmin : 0 ≤ fmin) (hmax : 0 ≤ fmax) :
    let co := Model.filterCoeffs fs fmin fmax
    ((co.1 - co.2.1) / (1 + co.2.2)) ^ 2 = 1 := by
  intro co
  have hco : co = ((fs + fmax * Real.pi) / (fs + fmin * Real.pi),
         -1 * (fs - fmax * Real.pi) / (fs + fmin * Real.pi),
         (fs - fmin * Real.pi) / (fs + fmin * Real.pi)) := Bilinear.filterCoeffs_real fs fmin fmax
  have hden : fs + fmin * Real.pi ≠ 0 := by
    have : 0 ≤ fmin * Real.pi := mul_nonneg hmin Real.pi_pos.le
    linarith
  rw [hco]
  simp only
  have h1 : (fs + fmax * Real.pi) / (fs + fmin * Real.pi)
      - -1 * (fs - fmax * Real.pi) / (fs + fmin * Real.pi)
      = 2 * fs / (fs + fmin * Real.pi) := by
    field_simp; ring
  have h2 : 1 + (fs - fmin * Real.pi) / (fs + fmin * Real.pi)
      = 2 * fs / (fs + fmin * Real.pi) := by
    field_simp; ring
  rw [h1, h2, div_self, one_pow]
  exact div_ne_zero (by positivity) hden

#print axioms bilinear_section
#print axioms bilinear_dc
#print axioms bilinear_nyquist
