/-
  SpecKitV.Lemmas.StatModel — what the analytic (C10) and empirical (C11) error formulas of speckit
  MEAN under the standard statistical model, proved with Mathlib's probability theory (no axioms).

  Model.  (Ω, P) a probability space, K ≥ 1 segments.
  * Real part (C10):  `p : Fin K → Ω → ℝ` are the per-segment periodogram values |X_k|² at one bin.
    Hypotheses, all explicit:  square integrable (`MemLp (p k) 2 P`), PAIRWISE independent,
    common mean μ, common variance μ² (coefficient of variation 1: the χ²₂/exponential law of the
    periodogram of a circular complex Gaussian DFT coefficient; `expMeasure_mean`, `expMeasure_variance`
    below prove that the exponential law has exactly this property; `hypotheses_satisfiable` builds a
    model of ALL hypotheses: the coordinates of the K-fold product of that law).
  * Vector part (C11): `z : Fin K → Ω → E`, `E` any real inner product space (used at `E := ℂ`: the
    per-segment products X_k·conj Y_k), square integrable, UNCORRELATED about a centre `m`
    (`∫ ⟪z i − m, z j − m⟫ = 0` for i ≠ j; follows from pairwise independence + common mean m,
    `uncorrelated_of_indep`), common second moment σ² = 𝔼‖z_k − m‖².

  HONESTY NOTE on the independence hypothesis.  It holds for NON-overlapping segments of white
  Gaussian noise.  It does NOT hold for overlapping segments (the library's schedulers overlap
  segments by a window-dependent fraction): there the p_k are positively correlated and the true
  variance of the mean is LARGER than μ²/K — Welch (1967): μ²/K·(1 + 2 Σ_{j<K} (1 − j/K) ρ_j) with
  ρ_j ≥ 0 the squared normalised window overlap correlation; that formula is quoted, NOT proved
  here — and none of the theorems below applies.  Nothing here says the library's `navg` is an
  "effective" number of averages.

  Strength.  Independence is assumed PAIRWISE only (`Pairwise fun i j => p i ⟂ᵢ[P] p j`), which
  mutual independence `iIndepFun` implies; the vector part needs even less (uncorrelatedness).
  No distributional assumption (Gaussianity) is used beyond the first two moments.
-/
import Mathlib.Probability.Moments.Variance
import Mathlib.Probability.Independence.Integration
import Mathlib.Probability.Distributions.Exponential
import Mathlib.MeasureTheory.Function.L2Space
import Mathlib.Analysis.InnerProductSpace.Basic

open MeasureTheory ProbabilityTheory Finset
open scoped RealInnerProductSpace

namespace StatModel

variable {Ω : Type*} [MeasurableSpace Ω] {P : Measure Ω}

/-! ## 1–2. the mean of K periodogram values -/

section RealMean
variable {K : ℕ} {p : Fin K → Ω → ℝ} {μ v : ℝ}

/-- item 1: the averaged periodogram is unbiased (no independence needed) -/
theorem mean_estimator_unbiased (hK : 0 < K) (hint : ∀ k, Integrable (p k) P)
    (hmean : ∀ k, ∫ ω, p k ω ∂P = μ) :
    ∫ ω, (1 / (K : ℝ)) * ∑ k, p k ω ∂P = μ := by
  have hK' : (K : ℝ) ≠ 0 := Nat.cast_ne_zero.2 hK.ne'
  rw [integral_const_mul, integral_finsetSum _ (fun k _ => hint k)]
  simp only [hmean, sum_const, card_univ, Fintype.card_fin, nsmul_eq_mul]
  field_simp

/-- variance of the mean of K pairwise independent variables of common variance `v` -/
theorem mean_estimator_variance_gen (hK : 0 < K) (hL2 : ∀ k, MemLp (p k) 2 P)
    (hind : Pairwise fun i j => p i ⟂ᵢ[P] p j) (hvar : ∀ k, Var[p k; P] = v) :
    Var[fun ω => (1 / (K : ℝ)) * ∑ k, p k ω; P] = v / K := by
  have hK' : (K : ℝ) ≠ 0 := Nat.cast_ne_zero.2 hK.ne'
  have hsum : (fun ω => ∑ k, p k ω) = ∑ k, p k := by
    funext ω; rw [Finset.sum_apply]
  rw [variance_const_mul, hsum,
    IndepFun.variance_sum (fun k _ => hL2 k) (fun i _ j _ hij => hind hij)]
  simp only [hvar, sum_const, card_univ, Fintype.card_fin, nsmul_eq_mul]
  field_simp

/-- item 2: with coefficient of variation 1 (variance μ²) the mean of K pairwise independent
    periodogram values has variance μ²/K -/
theorem mean_estimator_variance (hK : 0 < K) (hL2 : ∀ k, MemLp (p k) 2 P)
    (hind : Pairwise fun i j => p i ⟂ᵢ[P] p j) (hvar : ∀ k, Var[p k; P] = μ ^ 2) :
    Var[fun ω => (1 / (K : ℝ)) * ∑ k, p k ω; P] = μ ^ 2 / K :=
  mean_estimator_variance_gen hK hL2 hind hvar

/-- … hence its standard deviation is μ/√K -/
theorem mean_estimator_sd (hK : 0 < K) (hμ : 0 ≤ μ) (hL2 : ∀ k, MemLp (p k) 2 P)
    (hind : Pairwise fun i j => p i ⟂ᵢ[P] p j) (hvar : ∀ k, Var[p k; P] = μ ^ 2) :
    Real.sqrt (Var[fun ω => (1 / (K : ℝ)) * ∑ k, p k ω; P]) = μ / Real.sqrt K := by
  rw [mean_estimator_variance hK hL2 hind hvar, Real.sqrt_div (sq_nonneg μ), Real.sqrt_sq hμ]

/-- the estimator in spectral units `c · mean p_k` (c = 2/(fs·S2) in the library): mean c·μ -/
theorem scaled_mean_estimator_unbiased (c : ℝ) (hK : 0 < K) (hint : ∀ k, Integrable (p k) P)
    (hmean : ∀ k, ∫ ω, p k ω ∂P = μ) :
    ∫ ω, c * ((1 / (K : ℝ)) * ∑ k, p k ω) ∂P = c * μ := by
  rw [integral_const_mul, mean_estimator_unbiased hK hint hmean]

/-- … variance c²μ²/K -/
theorem scaled_mean_estimator_variance (c : ℝ) (hK : 0 < K) (hL2 : ∀ k, MemLp (p k) 2 P)
    (hind : Pairwise fun i j => p i ⟂ᵢ[P] p j) (hvar : ∀ k, Var[p k; P] = μ ^ 2) :
    Var[fun ω => c * ((1 / (K : ℝ)) * ∑ k, p k ω); P] = c ^ 2 * (μ ^ 2 / K) := by
  rw [variance_const_mul, mean_estimator_variance hK hL2 hind hvar]

/-- … standard deviation c·μ/√K (c, μ ≥ 0) -/
theorem scaled_mean_estimator_sd (c : ℝ) (hc : 0 ≤ c) (hK : 0 < K) (hμ : 0 ≤ μ)
    (hL2 : ∀ k, MemLp (p k) 2 P) (hind : Pairwise fun i j => p i ⟂ᵢ[P] p j)
    (hvar : ∀ k, Var[p k; P] = μ ^ 2) :
    Real.sqrt (Var[fun ω => c * ((1 / (K : ℝ)) * ∑ k, p k ω); P]) = c * μ / Real.sqrt K := by
  rw [scaled_mean_estimator_variance c hK hL2 hind hvar, Real.sqrt_mul (sq_nonneg c),
    Real.sqrt_sq hc, Real.sqrt_div (sq_nonneg μ), Real.sqrt_sq hμ, mul_div_assoc]

end RealMean

/-! ## 4. empirical scatter of K vectors about their own mean -/

section Vector
variable {E : Type*} [NormedAddCommGroup E] [InnerProductSpace ℝ E] {K : ℕ}

/-- pointwise: scatter about the sample mean = scatter about any centre `m` minus K·‖z̄ − m‖² -/
theorem sum_norm_sub_mean_sq (hK : 0 < K) (w : Fin K → E) (m : E) :
    ∑ k, ‖w k - (K : ℝ)⁻¹ • ∑ j, w j‖ ^ 2
      = ∑ k, ‖w k - m‖ ^ 2 - K * ‖(K : ℝ)⁻¹ • ∑ j, w j - m‖ ^ 2 := by
  have hK' : (K : ℝ) ≠ 0 := Nat.cast_ne_zero.2 hK.ne'
  set b : E := (K : ℝ)⁻¹ • ∑ j, w j - m with hb
  have hsum : ∑ k, (w k - m) = (K : ℝ) • b := by
    rw [hb, smul_sub, smul_smul, mul_inv_cancel₀ hK', one_smul, sum_sub_distrib]
    simp [Nat.cast_smul_eq_nsmul]
  have hk : ∀ k, w k - (K : ℝ)⁻¹ • ∑ j, w j = (w k - m) - b := by
    intro k; rw [hb]; abel
  simp only [hk]
  have e : ∀ k, ‖(w k - m) - b‖ ^ 2 = ‖w k - m‖ ^ 2 - 2 * ⟪w k - m, b⟫ + ‖b‖ ^ 2 :=
    fun k => norm_sub_sq_real _ _
  simp only [e]
  rw [sum_add_distrib, sum_sub_distrib, ← mul_sum, ← sum_inner, hsum, inner_smul_left,
    real_inner_self_eq_norm_sq]
  simp only [sum_const, card_univ, Fintype.card_fin, nsmul_eq_mul, conj_trivial]
  ring

/-- pointwise: ‖Σ u_k‖² = Σ_i Σ_j ⟪u_i, u_j⟫ -/
theorem norm_sum_sq (u : Fin K → E) :
    ‖∑ k, u k‖ ^ 2 = ∑ i, ∑ j, ⟪u i, u j⟫ := by
  rw [← real_inner_self_eq_norm_sq, sum_inner]
  simp only [inner_sum]

variable [IsProbabilityMeasure P] {z : Fin K → Ω → E} {m : E} {σ2 : ℝ}

omit [IsProbabilityMeasure P] in
theorem integrable_inner_of_memLp {f g : Ω → E} (hf : MemLp f 2 P) (hg : MemLp g 2 P) :
    Integrable (fun ω => ⟪f ω, g ω⟫) P := by
  have hf2 : Integrable (fun ω => ‖f ω‖ ^ 2) P := (memLp_two_iff_integrable_sq_norm hf.1).1 hf
  have hg2 : Integrable (fun ω => ‖g ω‖ ^ 2) P := (memLp_two_iff_integrable_sq_norm hg.1).1 hg
  refine Integrable.mono' (hf2.add hg2) (hf.1.inner hg.1) (Filter.Eventually.of_forall fun ω => ?_)
  have h1 : ‖⟪f ω, g ω⟫‖ ≤ ‖f ω‖ * ‖g ω‖ := norm_inner_le_norm _ _
  have h2 : 0 ≤ (‖f ω‖ - ‖g ω‖) ^ 2 := sq_nonneg _
  simp only [Pi.add_apply]
  nlinarith

omit [InnerProductSpace ℝ E] in
theorem memLp_sub_const (hL2 : ∀ k, MemLp (z k) 2 P) (m : E) (k : Fin K) :
    MemLp (fun ω => z k ω - m) 2 P :=
  (hL2 k).sub (memLp_const m)

/-- `mean_z_variance`: the mean of K uncorrelated vectors with common second moment σ² about `m`
    has second moment σ²/K about `m` -/
theorem mean_z_variance (hK : 0 < K) (hL2 : ∀ k, MemLp (z k) 2 P)
    (hunc : ∀ i j, i ≠ j → ∫ ω, ⟪z i ω - m, z j ω - m⟫ ∂P = 0)
    (hvar : ∀ k, ∫ ω, ‖z k ω - m‖ ^ 2 ∂P = σ2) :
    ∫ ω, ‖(K : ℝ)⁻¹ • ∑ k, z k ω - m‖ ^ 2 ∂P = σ2 / K := by
  have hK' : (K : ℝ) ≠ 0 := Nat.cast_ne_zero.2 hK.ne'
  have hu := memLp_sub_const hL2 m
  have hpt : ∀ ω, ‖(K : ℝ)⁻¹ • ∑ k, z k ω - m‖ ^ 2
      = ((K : ℝ)⁻¹) ^ 2 * ∑ i, ∑ j, ⟪z i ω - m, z j ω - m⟫ := by
    intro ω
    have : (K : ℝ)⁻¹ • ∑ k, z k ω - m = (K : ℝ)⁻¹ • ∑ k, (z k ω - m) := by
      rw [sum_sub_distrib, smul_sub]
      simp only [sum_const, card_univ, Fintype.card_fin, ← Nat.cast_smul_eq_nsmul ℝ, smul_smul,
        inv_mul_cancel₀ hK', one_smul]
    rw [this, norm_smul, mul_pow, norm_sum_sq, Real.norm_eq_abs, sq_abs]
  simp only [hpt]
  rw [integral_const_mul, integral_finsetSum _ (fun i _ =>
    integrable_finsetSum _ (fun j _ => integrable_inner_of_memLp (hu i) (hu j)))]
  have hi : ∀ i, ∫ ω, ∑ j, ⟪z i ω - m, z j ω - m⟫ ∂P = σ2 := by
    intro i
    rw [integral_finsetSum _ (fun j _ => integrable_inner_of_memLp (hu i) (hu j)),
      Finset.sum_eq_single i (fun j _ hji => hunc i j (Ne.symm hji)) (fun h => absurd (mem_univ i) h)]
    simp only [real_inner_self_eq_norm_sq]
    exact hvar i
  simp only [hi, sum_const, card_univ, Fintype.card_fin, nsmul_eq_mul]
  field_simp

/-- `emp_var_expectation`: the population scatter about the SAMPLE mean has expectation (K−1)/K·σ² -/
theorem emp_var_expectation (hK : 0 < K) (hL2 : ∀ k, MemLp (z k) 2 P)
    (hunc : ∀ i j, i ≠ j → ∫ ω, ⟪z i ω - m, z j ω - m⟫ ∂P = 0)
    (hvar : ∀ k, ∫ ω, ‖z k ω - m‖ ^ 2 ∂P = σ2) :
    ∫ ω, (1 / (K : ℝ)) * ∑ k, ‖z k ω - (K : ℝ)⁻¹ • ∑ j, z j ω‖ ^ 2 ∂P
      = ((K : ℝ) - 1) / K * σ2 := by
  have hK' : (K : ℝ) ≠ 0 := Nat.cast_ne_zero.2 hK.ne'
  have hu := memLp_sub_const hL2 m
  have hsq : ∀ k, Integrable (fun ω => ‖z k ω - m‖ ^ 2) P := fun k =>
    (memLp_two_iff_integrable_sq_norm (hu k).1).1 (hu k)
  have hmeanL2 : MemLp (fun ω => (K : ℝ)⁻¹ • ∑ k, z k ω - m) 2 P :=
    ((memLp_finsetSum _ (fun k _ => hL2 k)).const_smul _).sub (memLp_const m)
  have hmsq : Integrable (fun ω => ‖(K : ℝ)⁻¹ • ∑ k, z k ω - m‖ ^ 2) P :=
    (memLp_two_iff_integrable_sq_norm hmeanL2.1).1 hmeanL2
  simp only [fun ω => sum_norm_sub_mean_sq hK (fun k => z k ω) m]
  rw [integral_const_mul, integral_sub (integrable_finsetSum _ (fun k _ => hsq k))
    (hmsq.const_mul _), integral_finsetSum _ (fun k _ => hsq k), integral_const_mul,
    mean_z_variance hK hL2 hunc hvar]
  simp only [hvar, sum_const, card_univ, Fintype.card_fin, nsmul_eq_mul]
  field_simp

/-- `emp_var_vs_true` (abstract form): 𝔼[(1/K)·(1/K) Σ‖z_k − z̄‖²] = (K−1)/K · 𝔼‖z̄ − m‖².
    The "population scatter / K" is the second moment of the mean up to the factor (K−1)/K:
    biased LOW by the fraction 1/K. -/
theorem emp_var_vs_true_abs (hK : 0 < K) (hL2 : ∀ k, MemLp (z k) 2 P)
    (hunc : ∀ i j, i ≠ j → ∫ ω, ⟪z i ω - m, z j ω - m⟫ ∂P = 0)
    (hvar : ∀ k, ∫ ω, ‖z k ω - m‖ ^ 2 ∂P = σ2) :
    ∫ ω, ((1 / (K : ℝ)) * ∑ k, ‖z k ω - (K : ℝ)⁻¹ • ∑ j, z j ω‖ ^ 2) / K ∂P
      = ((K : ℝ) - 1) / K * ∫ ω, ‖(K : ℝ)⁻¹ • ∑ k, z k ω - m‖ ^ 2 ∂P := by
  rw [integral_div, emp_var_expectation hK hL2 hunc hvar, mean_z_variance hK hL2 hunc hvar]
  ring

/-- pairwise independence and a common mean `m` give the uncorrelatedness used above -/
theorem uncorrelated_of_indep [CompleteSpace E] [MeasurableSpace E] [BorelSpace E]
    (hL2 : ∀ k, MemLp (z k) 2 P) (hind : Pairwise fun i j => z i ⟂ᵢ[P] z j)
    (hmean : ∀ k, ∫ ω, z k ω ∂P = m) :
    ∀ i j, i ≠ j → ∫ ω, ⟪z i ω - m, z j ω - m⟫ ∂P = 0 := by
  intro i j hij
  have hint : ∀ k, Integrable (fun ω => z k ω - m) P := fun k =>
    (memLp_sub_const hL2 m k).integrable (by norm_num)
  have hzero : ∀ k, ∫ ω, (z k ω - m) ∂P = 0 := by
    intro k
    rw [integral_sub ((hL2 k).integrable (by norm_num)) (integrable_const m), hmean]
    simp
  have hI : (fun ω => z i ω - m) ⟂ᵢ[P] (fun ω => z j ω - m) :=
    (hind hij).comp (φ := fun x => x - m) (ψ := fun x => x - m)
      (measurable_id.sub_const m) (measurable_id.sub_const m)
  have key : ∫ ω, ⟪z i ω - m, z j ω - m⟫ ∂P = ⟪∫ ω, (z i ω - m) ∂P, ∫ ω, (z j ω - m) ∂P⟫ :=
    hI.integral_bilin (hint i) (hint j) (innerSL ℝ)
  rw [key, hzero i, inner_zero_left]

end Vector

/-! ## 5. the exponential (χ²₂) law has coefficient of variation 1; the hypotheses are satisfiable -/

section Exponential
open Real Set

/-- integrals against the exponential law are integrals against its density on (0, ∞) -/
theorem integral_expMeasure {r : ℝ} (hr : 0 < r) (g : ℝ → ℝ) :
    ∫ x, g x ∂(expMeasure r) = ∫ x in Ioi 0, (r * exp (-(r * x))) * g x := by
  unfold expMeasure gammaMeasure
  have hm : Measurable (gammaPDF 1 r) := (measurable_gammaPDFReal 1 r).ennreal_ofReal
  rw [integral_withDensity_eq_integral_toReal_smul hm (ae_of_all _ fun x => ENNReal.ofReal_lt_top)]
  rw [← integral_Ici_eq_integral_Ioi, ← integral_indicator measurableSet_Ici]
  congr 1
  funext x
  by_cases hx : 0 ≤ x
  · rw [indicator_of_mem (Set.mem_Ici.2 hx), gammaPDF,
      ENNReal.toReal_ofReal (gammaPDFReal_nonneg zero_lt_one hr x)]
    simp [gammaPDFReal, hx]
  · rw [indicator_of_notMem (by simpa using hx), gammaPDF]
    simp [gammaPDFReal, hx]

theorem integrable_expMeasure_iff {r : ℝ} (hr : 0 < r) (g : ℝ → ℝ) :
    Integrable g (expMeasure r) ↔ IntegrableOn (fun x => (r * exp (-(r * x))) * g x) (Ioi 0) := by
  unfold expMeasure gammaMeasure
  have hm : Measurable (gammaPDF 1 r) := (measurable_gammaPDFReal 1 r).ennreal_ofReal
  rw [integrable_withDensity_iff_integrable_smul' hm (ae_of_all _ fun x => ENNReal.ofReal_lt_top)]
  rw [← integrableOn_Ici_iff_integrableOn_Ioi, ← integrable_indicator_iff measurableSet_Ici]
  apply iff_of_eq
  congr 1
  funext x
  by_cases hx : 0 ≤ x
  · rw [indicator_of_mem (Set.mem_Ici.2 hx), gammaPDF,
      ENNReal.toReal_ofReal (gammaPDFReal_nonneg zero_lt_one hr x)]
    simp [gammaPDFReal, hx]
  · rw [indicator_of_notMem (by simpa using hx), gammaPDF]
    simp [gammaPDFReal, hx]

/-- ∫₀^∞ r e^{-rx} x^n dx = n!/r^n -/
theorem integral_exp_density_pow {r : ℝ} (hr : 0 < r) (n : ℕ) :
    ∫ x in Ioi 0, (r * exp (-(r * x))) * x ^ n = (n.factorial : ℝ) / r ^ n := by
  have h := integral_rpow_mul_exp_neg_mul_Ioi (a := (n : ℝ) + 1) (by positivity) hr
  have e : ∀ x : ℝ, (r * exp (-(r * x))) * x ^ n = r * (x ^ ((n : ℝ) + 1 - 1) * exp (-(r * x))) := by
    intro x
    rw [add_sub_cancel_right, rpow_natCast]; ring
  simp only [e]
  rw [integral_const_mul, h, Real.Gamma_nat_eq_factorial,
    show (n : ℝ) + 1 = ((n + 1 : ℕ) : ℝ) by push_cast; ring, rpow_natCast]
  rw [one_div, inv_pow]
  field_simp
  ring

theorem expMeasure_integrable_pow {r : ℝ} (hr : 0 < r) (n : ℕ) :
    Integrable (fun x : ℝ => x ^ n) (expMeasure r) :=
  (integrable_expMeasure_iff hr _).2 <| Integrable.of_integral_ne_zero <| by
    rw [integral_exp_density_pow hr n]; positivity

/-- all moments of the exponential law: 𝔼 xⁿ = n!/rⁿ -/
theorem expMeasure_moment {r : ℝ} (hr : 0 < r) (n : ℕ) :
    ∫ x, x ^ n ∂(expMeasure r) = (n.factorial : ℝ) / r ^ n := by
  rw [integral_expMeasure hr, integral_exp_density_pow hr n]

theorem expMeasure_memLp_two {r : ℝ} (hr : 0 < r) : MemLp (id : ℝ → ℝ) 2 (expMeasure r) :=
  (memLp_two_iff_integrable_sq measurable_id.aestronglyMeasurable).2
    (expMeasure_integrable_pow hr 2)

/-- the exponential law of rate r has mean 1/r … -/
theorem expMeasure_mean {r : ℝ} (hr : 0 < r) : ∫ x, x ∂(expMeasure r) = 1 / r := by
  have := expMeasure_moment hr 1
  simpa using this

/-- … and variance 1/r² = mean²: coefficient of variation 1 -/
theorem expMeasure_variance {r : ℝ} (hr : 0 < r) : Var[id; expMeasure r] = (1 / r) ^ 2 := by
  have := isProbabilityMeasure_expMeasure hr
  rw [variance_eq_sub (expMeasure_memLp_two hr)]
  have h2 := expMeasure_moment hr 2
  have h1 := expMeasure_mean hr
  simp only [Pi.pow_apply, id_eq, h1, h2]
  norm_num [Nat.factorial]
  ring

/-- the χ²₂ case of the hypothesis of items 1–3: the exponential law with mean μ > 0
    (rate 1/μ) has mean μ and variance μ² -/
theorem exp_law_mean_var {μ : ℝ} (hμ : 0 < μ) :
    ∫ x, x ∂(expMeasure (1 / μ)) = μ ∧ Var[id; expMeasure (1 / μ)] = μ ^ 2 := by
  have hr : 0 < 1 / μ := by positivity
  rw [expMeasure_mean hr, expMeasure_variance hr]
  simp

/-- SATISFIABILITY of the hypotheses of `mean_estimator_unbiased/variance`: on the product space
    `Fin K → ℝ` with the K-fold product of the exponential law of mean μ, the coordinates are
    square integrable, (mutually, hence) pairwise independent, have mean μ and variance μ². -/
theorem hypotheses_satisfiable (K : ℕ) {μ : ℝ} (hμ : 0 < μ) :
    ∃ (P : Measure (Fin K → ℝ)) (_ : IsProbabilityMeasure P) (p : Fin K → (Fin K → ℝ) → ℝ),
      (∀ k, MemLp (p k) 2 P) ∧ (Pairwise fun i j => p i ⟂ᵢ[P] p j) ∧ iIndepFun p P ∧
      (∀ k, ∫ ω, p k ω ∂P = μ) ∧ (∀ k, Var[p k; P] = μ ^ 2) := by
  have hr : 0 < 1 / μ := by positivity
  have := isProbabilityMeasure_expMeasure hr
  let ν : Fin K → Measure ℝ := fun _ => expMeasure (1 / μ)
  have hind : iIndepFun (fun (i : Fin K) (ω : Fin K → ℝ) => (id : ℝ → ℝ) (ω i)) (Measure.pi ν) :=
    iIndepFun_pi (X := fun _ => (id : ℝ → ℝ)) (fun _ => measurable_id.aemeasurable)
  refine ⟨Measure.pi ν, inferInstance, fun k ω => ω k, ?_, ?_, hind, ?_, ?_⟩
  · exact fun k => (expMeasure_memLp_two hr).comp_measurePreserving (measurePreserving_eval ν k)
  · exact fun i j hij => hind.indepFun hij
  · intro k
    have := (measurePreserving_eval ν k).map_eq
    rw [← (exp_law_mean_var hμ).1]
    change ∫ ω, (id : ℝ → ℝ) (ω k) ∂(Measure.pi ν) = ∫ x, x ∂(ν k)
    rw [← this]
    exact (integral_map (μ := Measure.pi ν) (φ := Function.eval k) (f := fun x : ℝ => x)
      (measurable_pi_apply k).aemeasurable measurable_id.aestronglyMeasurable).symm
  · intro k
    have := (measurePreserving_eval ν k).map_eq
    rw [← (exp_law_mean_var hμ).2]
    change Var[(id : ℝ → ℝ) ∘ (fun ω : Fin K → ℝ => ω k); Measure.pi ν] = Var[id; ν k]
    rw [← variance_map measurable_id.aemeasurable (measurable_pi_apply k).aemeasurable, this]


/-- non-vacuity of items 1–2: a model of all hypotheses, and the conclusions in it -/
example (K : ℕ) (hK : 0 < K) {μ : ℝ} (hμ : 0 < μ) :
    ∃ (P : Measure (Fin K → ℝ)) (_ : IsProbabilityMeasure P) (p : Fin K → (Fin K → ℝ) → ℝ),
      ∫ ω, (1 / (K : ℝ)) * ∑ k, p k ω ∂P = μ ∧
      Var[fun ω => (1 / (K : ℝ)) * ∑ k, p k ω; P] = μ ^ 2 / K := by
  obtain ⟨P, hP, p, hL2, hind, _, hmean, hvar⟩ := hypotheses_satisfiable K hμ
  exact ⟨P, hP, p,
    mean_estimator_unbiased hK (fun k => (hL2 k).integrable (by norm_num)) hmean,
    mean_estimator_variance hK hL2 hind hvar⟩

/-- non-vacuity of item 4 (at `E := ℝ`, centre μ, σ² = μ²) -/
theorem vector_hypotheses_satisfiable (K : ℕ) {μ : ℝ} (hμ : 0 < μ) :
    ∃ (P : Measure (Fin K → ℝ)) (_ : IsProbabilityMeasure P) (z : Fin K → (Fin K → ℝ) → ℝ),
      (∀ k, MemLp (z k) 2 P) ∧
      (∀ i j, i ≠ j → ∫ ω, inner ℝ (z i ω - μ) (z j ω - μ) ∂P = 0) ∧
      (∀ k, ∫ ω, ‖z k ω - μ‖ ^ 2 ∂P = μ ^ 2) := by
  obtain ⟨P, hP, p, hL2, hind, _, hmean, hvar⟩ := hypotheses_satisfiable K hμ
  refine ⟨P, hP, p, hL2, uncorrelated_of_indep hL2 hind hmean, fun k => ?_⟩
  rw [← hvar k, variance_eq_integral (hL2 k).aemeasurable, hmean k]
  simp only [Real.norm_eq_abs, sq_abs]

end Exponential

end StatModel

#print axioms StatModel.mean_estimator_unbiased
#print axioms StatModel.mean_estimator_variance
#print axioms StatModel.mean_estimator_sd
#print axioms StatModel.scaled_mean_estimator_sd
#print axioms StatModel.mean_z_variance
#print axioms StatModel.emp_var_expectation
#print axioms StatModel.emp_var_vs_true_abs
#print axioms StatModel.uncorrelated_of_indep
#print axioms StatModel.expMeasure_moment
#print axioms StatModel.expMeasure_mean
#print axioms StatModel.expMeasure_variance
#print axioms StatModel.exp_law_mean_var
#print axioms StatModel.hypotheses_satisfiable
#print axioms StatModel.vector_hypotheses_satisfiable
