/-
  SpecKitV.Lemmas.CalibPoly — calibration of the reference estimator's windowed DFT for a pure
  sinusoid `x n = A cos(ω0 n + φ)` with polynomial detrending (orders p ≥ 1, `x − Q Qᵀ x`).

  `X_p = X_{−1} − Σ_{k<p+1} c_k · B_k(ω)`, `c_k = Σ_m Q m k · x (s+m)` the projection coefficient,
  `B_k(ω) = Σ_n w n · Q n k · e^{−iωn}` the window-weighted transform of basis column `k`;
  `|c_k| ≤ |A| · C_k(ω0)` with `C_k(θ) = ‖Σ_m Q m k e^{iθm}‖`; hence the on-peak power is within
  `(2r + r²)` of `(A/2)² S1²`, `r = ρ + 2 Σ_k ρ_k`, `ρ = |W(2ω0)|/S1`, `ρ_k = C_k(ω0)·|B_k(ω0)|/S1`.

  None of the bounds needs the columns of `Q` to be orthonormal (the identity is linearity and the
  bound is the triangle inequality); orthonormality gives in addition `C_k ≤ √L` and
  `|B_k| ≤ √(Σ w²)`.  The order-0 bound of `Calib0.lean` is the one-column instance
  `Q n 0 = 1/√L` of the same core lemma.
-/
import SpecKitV.Lemmas.Calib0
import SpecKitV.Lemmas.Detrend
import Mathlib.Algebra.Order.BigOperators.Ring.Finset
import Mathlib.Analysis.Real.Sqrt
import Mathlib.Tactic.IntervalCases
open Finset Complex

/-- window-weighted transform of basis column `k`: `B_k(ω) = Σ_{n<L} w n · Q n k · e^{−iωn}` -/
noncomputable def basisT (w : ℕ → ℝ) (Q : ℕ → ℕ → ℝ) (L k : ℕ) (ω : ℝ) : ℂ :=
  ∑ n ∈ range L, ((w n * Q n k : ℝ) : ℂ) * Complex.exp (-(ω * n * I))

/-- (unweighted, conjugate) transform of basis column `k`: `Σ_{m<L} Q m k · e^{iθm}`;
    `C_k(θ)` is its norm -/
noncomputable def basisC (Q : ℕ → ℕ → ℝ) (L k : ℕ) (θ : ℝ) : ℂ :=
  ∑ m ∈ range L, (Q m k : ℂ) * Complex.exp (((θ * m : ℝ) : ℂ) * I)

/-! ### 1. the windowed DFT with polynomial detrending (linearity only) -/

/-- order p ≥ 1 = order −1 minus Σ_k (projection coefficient k) × (transform of column k) -/
theorem segDFT_poly_eq (p : ℕ) (hp : 1 ≤ p) (Q : ℕ → ℕ → ℝ) (x : ℕ → ℝ) (s L : ℕ) (w : ℕ → ℝ)
    (ω : ℝ) :
    Cx.toC (Model.segDFT (p : ℤ) Q x s L w ω)
      = Cx.toC (Model.segDFT (-1) Q x s L w ω)
        - ∑ k ∈ range (p + 1),
            ((∑ m ∈ range L, Q m k * x (s + m) : ℝ) : ℂ) * basisT w Q L k ω := by
  rw [segDFT_toC_gen, segDFT_toC_gen]
  simp only [basisT, Finset.mul_sum]
  rw [Finset.sum_comm, ← Finset.sum_sub_distrib]
  refine Finset.sum_congr rfl (fun n _ => ?_)
  rw [detr_poly_eq p hp, detr_neg_one, mul_sub, Complex.ofReal_sub, sub_mul, Finset.mul_sum,
    Complex.ofReal_sum, Finset.sum_mul]
  congr 1
  refine Finset.sum_congr rfl (fun k _ => ?_)
  push_cast
  ring

/-! ### 2. the projection coefficients of a sinusoid -/

theorem proj_coeff_eq_re (Q : ℕ → ℕ → ℝ) (A ω0 φ : ℝ) (s L k : ℕ) :
    ∑ m ∈ range L, Q m k * (A * Real.cos (ω0 * ((s + m : ℕ) : ℝ) + φ))
      = A * (Complex.exp (((ω0 * s + φ : ℝ) : ℂ) * I) * basisC Q L k ω0).re := by
  unfold basisC
  rw [Finset.mul_sum, Complex.re_sum, Finset.mul_sum]
  refine Finset.sum_congr rfl (fun m _ => ?_)
  rw [mul_left_comm (Complex.exp _), ← Complex.exp_add, ← add_mul, ← Complex.ofReal_add,
    Complex.re_ofReal_mul, Complex.exp_ofReal_mul_I_re]
  have h : ω0 * ((s + m : ℕ) : ℝ) + φ = ω0 * s + φ + ω0 * m := by push_cast; ring
  rw [h]
  ring

/-- `|Σ_m Q m k · A cos(ω0 (s+m) + φ)| ≤ |A| · C_k(ω0)` -/
theorem proj_coeff_bound (Q : ℕ → ℕ → ℝ) (A ω0 φ : ℝ) (s L k : ℕ) :
    |∑ m ∈ range L, Q m k * (A * Real.cos (ω0 * ((s + m : ℕ) : ℝ) + φ))|
      ≤ |A| * ‖basisC Q L k ω0‖ := by
  rw [proj_coeff_eq_re, abs_mul]
  refine mul_le_mul_of_nonneg_left ?_ (abs_nonneg A)
  refine (Complex.abs_re_le_norm _).trans (le_of_eq ?_)
  rw [norm_mul, Complex.norm_exp_ofReal_mul_I, one_mul]

/-- Cauchy–Schwarz on the grid: `Σ_{n<L} |a n · q n| ≤ √(Σ a²)` for a unit vector `q` -/
theorem sum_abs_mul_le_sqrt (L : ℕ) (a q : ℕ → ℝ) (hq : ∑ n ∈ range L, q n * q n = 1) :
    ∑ n ∈ range L, |a n * q n| ≤ Real.sqrt (∑ n ∈ range L, a n ^ 2) := by
  apply Real.le_sqrt_of_sq_le
  have h := Finset.sum_mul_sq_le_sq_mul_sq (range L) (fun n => |a n|) (fun n => |q n|)
  have e1 : ∑ n ∈ range L, |q n| ^ 2 = 1 := by
    rw [← hq]; exact Finset.sum_congr rfl (fun n _ => by rw [sq_abs]; ring)
  have e2 : ∑ n ∈ range L, |a n| ^ 2 = ∑ n ∈ range L, a n ^ 2 :=
    Finset.sum_congr rfl (fun n _ => sq_abs _)
  rw [e1, e2, mul_one] at h
  simpa only [abs_mul] using h

/-- with orthonormal columns `C_k(θ) ≤ √L` -/
theorem basis_coeff_le_sqrt (Q : ℕ → ℕ → ℝ) (L p1 : ℕ) (hQ : OrthoCols Q L p1) (k : ℕ)
    (hk : k < p1) (θ : ℝ) :
    ‖basisC Q L k θ‖ ≤ Real.sqrt L := by
  have hq : ∑ n ∈ range L, Q n k * Q n k = 1 := by rw [hQ k hk k hk, if_pos rfl]
  have h := sum_abs_mul_le_sqrt L (fun _ => 1) (fun n => Q n k) hq
  simp only [one_pow, Finset.sum_const, Finset.card_range, nsmul_eq_mul, mul_one, one_mul] at h
  refine le_trans ?_ h
  unfold basisC
  refine (norm_sum_le _ _).trans (le_of_eq ?_)
  refine Finset.sum_congr rfl (fun n _ => ?_)
  rw [norm_mul, Complex.norm_exp_ofReal_mul_I, mul_one, Complex.norm_real, Real.norm_eq_abs]

/-- with orthonormal columns `|B_k(ω)| ≤ √(Σ w²)` -/
theorem basisT_le_sqrt (w : ℕ → ℝ) (Q : ℕ → ℕ → ℝ) (L p1 : ℕ) (hQ : OrthoCols Q L p1) (k : ℕ)
    (hk : k < p1) (ω : ℝ) :
    ‖basisT w Q L k ω‖ ≤ Real.sqrt (∑ n ∈ range L, w n ^ 2) := by
  have hq : ∑ n ∈ range L, Q n k * Q n k = 1 := by rw [hQ k hk k hk, if_pos rfl]
  refine le_trans ?_ (sum_abs_mul_le_sqrt L w (fun n => Q n k) hq)
  unfold basisT
  refine (norm_sum_le _ _).trans (le_of_eq ?_)
  refine Finset.sum_congr rfl (fun n _ => ?_)
  rw [norm_mul, norm_exp_neg_mul_nat_I, mul_one, Complex.norm_real, Real.norm_eq_abs]

/-! ### 3. calibration with a projected-out subspace -/

/-- core: the on-peak raw transform of the sinusoid minus any combination `Σ_{k<p1} c_k B_k(ω0)`
    with `|c_k| ≤ |A|·C k`.  (`Q'` is the unused basis argument of the order −1 transform.) -/
theorem calibration_core (p1 : ℕ) (Q Q' : ℕ → ℕ → ℝ) (A ω0 φ : ℝ) (s L : ℕ) (w : ℕ → ℝ)
    (hS1 : 0 < ∑ n ∈ range L, w n) (c C : ℕ → ℝ)
    (hc : ∀ k < p1, |c k| ≤ |A| * C k) :
    let S1 := ∑ n ∈ range L, w n
    let ρ := ‖winT w L (2 * ω0)‖ / S1
    let r := ρ + 2 * ∑ k ∈ range p1, C k * ‖basisT w Q L k ω0‖ / S1
    |‖Cx.toC (Model.segDFT (-1) Q' (fun n => A * Real.cos (ω0 * n + φ)) s L w ω0)
          - ∑ k ∈ range p1, (c k : ℂ) * basisT w Q L k ω0‖ ^ 2 - (A / 2) ^ 2 * S1 ^ 2|
      ≤ (A / 2) ^ 2 * S1 ^ 2 * (2 * r + r ^ 2) := by
  intro S1 ρ r
  have hS1p : (0 : ℝ) < S1 := hS1
  rw [sinusoid_onpeak]
  obtain ⟨ha, hb⟩ := norm_onpeak_core (φ + ω0 * s) S1 (winT w L (2 * ω0))
  have hA : ‖(A / 2 : ℂ)‖ = |A| / 2 := by
    rw [norm_div, Complex.norm_real, Real.norm_eq_abs]; simp
  set T : ℂ := ∑ k ∈ range p1, (c k : ℂ) * basisT w Q L k ω0 with hT
  set SR : ℝ := ∑ k ∈ range p1, C k * ‖basisT w Q L k ω0‖ with hSR
  have hTn : ‖T‖ ≤ |A| * SR := by
    rw [hT, hSR, Finset.mul_sum]
    refine (norm_sum_le _ _).trans (Finset.sum_le_sum (fun k hk => ?_))
    rw [norm_mul, Complex.norm_real, Real.norm_eq_abs, ← mul_assoc]
    exact mul_le_mul_of_nonneg_right (hc k (Finset.mem_range.1 hk)) (norm_nonneg _)
  set P : ℂ := (A / 2 : ℂ) * (Complex.exp (((φ + ω0 * s : ℝ) : ℂ) * I) * (S1 : ℂ)) with hPdef
  set cc : ℂ := (A / 2 : ℂ) * (Complex.exp (-(((φ + ω0 * s : ℝ) : ℂ) * I)) * winT w L (2 * ω0))
      - T with hcdef
  have hsplit : (A / 2 : ℂ) * (Complex.exp (((φ + ω0 * s : ℝ) : ℂ) * I) * (S1 : ℂ)
        + Complex.exp (-(((φ + ω0 * s : ℝ) : ℂ) * I)) * winT w L (2 * ω0))
        - T = P + cc := by
    rw [hPdef, hcdef]; ring
  have hP : ‖P‖ = |A| / 2 * S1 := by
    rw [hPdef, norm_mul, hA, ha, abs_of_pos hS1p]
  have hcc : ‖cc‖ ≤ |A| / 2 * S1 * r := by
    have h1 : ‖cc‖ ≤ |A| / 2 * ‖winT w L (2 * ω0)‖ + ‖T‖ := by
      rw [hcdef]
      refine (norm_sub_le _ _).trans ?_
      rw [norm_mul (A / 2 : ℂ), hA, hb]
    have h3 : |A| / 2 * S1 * r = |A| / 2 * ‖winT w L (2 * ω0)‖ + |A| * SR := by
      have hne : S1 ≠ 0 := ne_of_gt hS1p
      simp only [r, ρ]
      rw [← Finset.sum_div, ← hSR]
      field_simp
    rw [h3]
    linarith
  have hfin := abs_normSq_perturb P cc (|A| / 2 * S1) r hP hcc
  have hsq : (|A| / 2 * S1) ^ 2 = (A / 2) ^ 2 * S1 ^ 2 := by
    rw [mul_pow, div_pow, sq_abs, div_pow]
  rw [hsq, ← hsplit] at hfin
  exact hfin

/-- order p ≥ 1, at the sinusoid's own frequency: `|X_p|²` is within `(2r + r²)` of `(A/2)²·S1²`,
    `r = ρ + 2 Σ_{k<p+1} ρ_k`.  (No orthonormality of `Q` is needed.) -/
theorem calibration_bound_poly (p : ℕ) (hp : 1 ≤ p) (Q : ℕ → ℕ → ℝ) (A ω0 φ : ℝ) (s L : ℕ)
    (w : ℕ → ℝ) (hS1 : 0 < ∑ n ∈ range L, w n) :
    let S1 := ∑ n ∈ range L, w n
    let ρ := ‖winT w L (2 * ω0)‖ / S1
    let r := ρ + 2 * ∑ k ∈ range (p + 1), ‖basisC Q L k ω0‖ * ‖basisT w Q L k ω0‖ / S1
    |Cx.normSq (Model.segDFT (p : ℤ) Q (fun n => A * Real.cos (ω0 * n + φ)) s L w ω0)
        - (A / 2) ^ 2 * S1 ^ 2|
      ≤ (A / 2) ^ 2 * S1 ^ 2 * (2 * r + r ^ 2) := by
  intro S1 ρ r
  rw [Cx.normSq_eq, Complex.normSq_eq_norm_sq, segDFT_poly_eq p hp]
  exact calibration_core (p + 1) Q Q A ω0 φ s L w hS1
    (fun k => ∑ m ∈ range L, Q m k * (A * Real.cos (ω0 * ((s + m : ℕ) : ℝ) + φ)))
    (fun k => ‖basisC Q L k ω0‖)
    (fun k _ => proj_coeff_bound Q A ω0 φ s L k)

/-- with orthonormal columns the coefficient factor `C_k(ω0)` may be replaced by `√L`:
    `r = ρ + 2 √L Σ_{k<p+1} |B_k(ω0)| / S1` -/
theorem calibration_bound_poly_sqrt (p : ℕ) (hp : 1 ≤ p) (Q : ℕ → ℕ → ℝ) (A ω0 φ : ℝ) (s L : ℕ)
    (hQ : OrthoCols Q L (p + 1)) (w : ℕ → ℝ) (hS1 : 0 < ∑ n ∈ range L, w n) :
    let S1 := ∑ n ∈ range L, w n
    let ρ := ‖winT w L (2 * ω0)‖ / S1
    let r := ρ + 2 * ∑ k ∈ range (p + 1), Real.sqrt L * ‖basisT w Q L k ω0‖ / S1
    |Cx.normSq (Model.segDFT (p : ℤ) Q (fun n => A * Real.cos (ω0 * n + φ)) s L w ω0)
        - (A / 2) ^ 2 * S1 ^ 2|
      ≤ (A / 2) ^ 2 * S1 ^ 2 * (2 * r + r ^ 2) := by
  intro S1 ρ r
  rw [Cx.normSq_eq, Complex.normSq_eq_norm_sq, segDFT_poly_eq p hp]
  exact calibration_core (p + 1) Q Q A ω0 φ s L w hS1
    (fun k => ∑ m ∈ range L, Q m k * (A * Real.cos (ω0 * ((s + m : ℕ) : ℝ) + φ)))
    (fun _ => Real.sqrt L)
    (fun k hk => (proj_coeff_bound Q A ω0 φ s L k).trans
      (mul_le_mul_of_nonneg_left (basis_coeff_le_sqrt Q L (p + 1) hQ k hk ω0) (abs_nonneg A)))

/-! ### 4. the K-segment average -/

/-- the same for the calibrated power spectrum value `ps = 2·mean|X_p|²/S1²`
    (mean over any K ≥ 1 segments with any starts), order p ≥ 1 -/
theorem power_spectrum_calibrated_poly (p : ℕ) (hp : 1 ≤ p) (Q : ℕ → ℕ → ℝ) (A ω0 φ : ℝ)
    (K L : ℕ) (hK : 0 < K) (starts : ℕ → ℕ) (w : ℕ → ℝ) (hS1 : 0 < ∑ n ∈ range L, w n) :
    let S1 := ∑ n ∈ range L, w n
    let ρ := ‖winT w L (2 * ω0)‖ / S1
    let r := ρ + 2 * ∑ k ∈ range (p + 1), ‖basisC Q L k ω0‖ * ‖basisT w Q L k ω0‖ / S1
    let XX := (∑ j ∈ range K, Cx.normSq (Model.segDFT (p : ℤ) Q
        (fun n => A * Real.cos (ω0 * n + φ)) (starts j) L w ω0)) / K
    |2 * XX / S1 ^ 2 - A ^ 2 / 2| ≤ A ^ 2 / 2 * (2 * r + r ^ 2) := by
  intro S1 ρ r XX
  exact ps_of_segment_bound K hK
    (fun j => Cx.normSq (Model.segDFT (p : ℤ) Q (fun n => A * Real.cos (ω0 * n + φ))
      (starts j) L w ω0))
    A S1 (2 * r + r ^ 2) hS1
    (fun j _ => calibration_bound_poly p hp Q A ω0 φ (starts j) L w hS1)

/-! ### 5. sanity: the order-0 bound is the one-column instance `Q n 0 = 1/√L` -/

theorem basisT_const (w : ℕ → ℝ) (q : ℝ) (L k : ℕ) (ω : ℝ) :
    basisT w (fun _ _ => q) L k ω = (q : ℂ) * winT w L ω := by
  unfold basisT winT
  rw [Finset.mul_sum]
  refine Finset.sum_congr rfl (fun n _ => ?_)
  push_cast
  ring

theorem basisC_const (q : ℝ) (L k : ℕ) (θ : ℝ) :
    basisC (fun _ _ => q) L k θ = (q : ℂ) * dirichlet L θ := by
  unfold basisC dirichlet
  rw [Finset.mul_sum]

/-- the constant unit column reproduces the order-0 quantity `ρ0 = |W(ω0)|·|D(ω0)|/(L·S1)` -/
theorem rho_const_column (w : ℕ → ℝ) (L k : ℕ) (hL : 0 < L) (ω0 S1 : ℝ) :
    ‖basisC (fun _ _ => 1 / Real.sqrt L) L k ω0‖ * ‖basisT w (fun _ _ => 1 / Real.sqrt L) L k ω0‖ / S1
      = ‖winT w L ω0‖ * ‖dirichlet L ω0‖ / (L * S1) := by
  have hLr : (0 : ℝ) < L := by exact_mod_cast hL
  have hs : (0 : ℝ) < Real.sqrt L := Real.sqrt_pos.2 hLr
  have hq : ‖((1 / Real.sqrt L : ℝ) : ℂ)‖ = 1 / Real.sqrt L := by
    rw [Complex.norm_real, Real.norm_eq_abs, abs_of_pos (by positivity)]
  rw [basisC_const, basisT_const, norm_mul, norm_mul, hq]
  field_simp
  rw [Real.sq_sqrt hLr.le]
  ring

/-- the constant unit column is an orthonormal (one-column) basis -/
theorem orthoCols_const (L : ℕ) (hL : 0 < L) : OrthoCols (fun _ _ => 1 / Real.sqrt L) L 1 := by
  intro k hk k' hk'
  have hLr : (0 : ℝ) < L := by exact_mod_cast hL
  have hk0 : k = 0 := by omega
  have hk0' : k' = 0 := by omega
  subst hk0; subst hk0'
  rw [if_pos rfl, Finset.sum_const, Finset.card_range, nsmul_eq_mul, div_mul_div_comm, one_mul,
    Real.mul_self_sqrt hLr.le]
  field_simp

/-- `calibration_bound_order0` (verbatim) derived from the projection core with the one-column
    basis `Q n 0 = 1/√L`: the general formula specialises to the order-0 one -/
theorem calibration_bound_order0_of_poly (Q : ℕ → ℕ → ℝ) (A ω0 φ : ℝ) (s L : ℕ) (hL : 0 < L)
    (w : ℕ → ℝ) (hS1 : 0 < ∑ n ∈ Finset.range L, w n) :
    let S1 := ∑ n ∈ Finset.range L, w n
    let ρ := ‖winT w L (2 * ω0)‖ / S1
    let ρ0 := ‖winT w L ω0‖ * ‖dirichlet L ω0‖ / (L * S1)
    let r := ρ + 2 * ρ0
    |Cx.normSq (Model.segDFT 0 Q (fun n => A * Real.cos (ω0 * n + φ)) s L w ω0) - (A / 2) ^ 2 * S1 ^ 2|
      ≤ (A / 2) ^ 2 * S1 ^ 2 * (2 * r + r ^ 2) := by
  intro S1 ρ ρ0 r
  have hLr : (0 : ℝ) < L := by exact_mod_cast hL
  have hs : (0 : ℝ) < Real.sqrt L := Real.sqrt_pos.2 hLr
  have h := calibration_core 1 (fun _ _ => 1 / Real.sqrt L) Q A ω0 φ s L w hS1
    (fun k => ∑ m ∈ range L, (fun _ _ => 1 / Real.sqrt L) m k
      * (A * Real.cos (ω0 * ((s + m : ℕ) : ℝ) + φ)))
    (fun k => ‖basisC (fun _ _ => 1 / Real.sqrt L) L k ω0‖)
    (fun k _ => proj_coeff_bound (fun _ _ => 1 / Real.sqrt L) A ω0 φ s L k)
  dsimp only at h
  rw [Finset.sum_range_one, Finset.sum_range_one, rho_const_column w L 0 hL ω0, basisT_const] at h
  rw [Cx.normSq_eq, Complex.normSq_eq_norm_sq, segDFT_order0_eq]
  have e : (((∑ m ∈ range L, 1 / Real.sqrt L * (A * Real.cos (ω0 * ((s + m : ℕ) : ℝ) + φ)) : ℝ)) : ℂ)
        * (((1 / Real.sqrt L : ℝ) : ℂ) * winT w L ω0)
      = (((∑ m ∈ Finset.range L, A * Real.cos (ω0 * ((s + m : ℕ) : ℝ) + φ)) / L : ℝ) : ℂ)
        * winT w L ω0 := by
    rw [← mul_assoc, ← Complex.ofReal_mul, ← Finset.mul_sum]
    congr 2
    field_simp
    rw [Real.sq_sqrt hLr.le]
    ring
  rw [e] at h
  exact h

/-! ### 6. the hypotheses are satisfiable -/

/-- orthonormalised `1, n, n²` on the 4-point grid (what `np.linalg.qr` of the Vandermonde matrix
    returns up to signs): `1/2`, `(2n−3)/(2√5)`, `(n²−3n+1)/2` -/
noncomputable def Q4 (n k : ℕ) : ℝ :=
  if k = 0 then 1 / 2
  else if k = 1 then (2 * (n : ℝ) - 3) / (2 * Real.sqrt 5)
  else ((n : ℝ) ^ 2 - 3 * n + 1) / 2

theorem orthoCols_Q4 : OrthoCols Q4 4 3 := by
  have h5 : Real.sqrt 5 * Real.sqrt 5 = 5 := Real.mul_self_sqrt (by norm_num)
  have h5' : Real.sqrt 5 ≠ 0 := by
    intro h; rw [h] at h5; norm_num at h5
  intro k hk k' hk'
  interval_cases k <;> interval_cases k' <;>
    simp only [Q4, Finset.sum_range_succ, Finset.sum_range_zero] <;>
    norm_num <;> field_simp <;> (try rw [Real.sq_sqrt (by norm_num : (0:ℝ) ≤ 5)]) <;> norm_num

theorem orthoCols_mono (Q : ℕ → ℕ → ℝ) (L p1 p2 : ℕ) (h : p1 ≤ p2) (hQ : OrthoCols Q L p2) :
    OrthoCols Q L p1 :=
  fun k hk k' hk' => hQ k (lt_of_lt_of_le hk h) k' (lt_of_lt_of_le hk' h)

/-- order 1 (linear detrend), rectangular window of length 4, the orthonormal basis `Q4`:
    the bound holds for every amplitude, frequency, phase and segment start -/
example (A ω0 φ : ℝ) (s : ℕ) :
    let w : ℕ → ℝ := fun _ => 1
    let S1 := ∑ n ∈ range 4, w n
    let ρ := ‖winT w 4 (2 * ω0)‖ / S1
    let r := ρ + 2 * ∑ k ∈ range (1 + 1), ‖basisC Q4 4 k ω0‖ * ‖basisT w Q4 4 k ω0‖ / S1
    |Cx.normSq (Model.segDFT ((1 : ℕ) : ℤ) Q4 (fun n => A * Real.cos (ω0 * n + φ)) s 4 w ω0)
        - (A / 2) ^ 2 * S1 ^ 2|
      ≤ (A / 2) ^ 2 * S1 ^ 2 * (2 * r + r ^ 2) :=
  calibration_bound_poly 1 le_rfl Q4 A ω0 φ s 4 (fun _ => 1) (by norm_num)

/-- order 2 (quadratic detrend), same data, with the `√L` form that uses orthonormality -/
example (A ω0 φ : ℝ) (s : ℕ) :
    let w : ℕ → ℝ := fun _ => 1
    let S1 := ∑ n ∈ range 4, w n
    let ρ := ‖winT w 4 (2 * ω0)‖ / S1
    let r := ρ + 2 * ∑ k ∈ range (2 + 1), Real.sqrt (4 : ℕ) * ‖basisT w Q4 4 k ω0‖ / S1
    |Cx.normSq (Model.segDFT ((2 : ℕ) : ℤ) Q4 (fun n => A * Real.cos (ω0 * n + φ)) s 4 w ω0)
        - (A / 2) ^ 2 * S1 ^ 2|
      ≤ (A / 2) ^ 2 * S1 ^ 2 * (2 * r + r ^ 2) :=
  calibration_bound_poly_sqrt 2 (by norm_num) Q4 A ω0 φ s 4 orthoCols_Q4 (fun _ => 1) (by norm_num)

example (θ : ℝ) : ‖basisC Q4 4 1 θ‖ ≤ Real.sqrt (4 : ℕ) :=
  basis_coeff_le_sqrt Q4 4 2 (orthoCols_mono Q4 4 2 3 (by norm_num) orthoCols_Q4) 1 (by norm_num) θ

#print axioms segDFT_poly_eq
#print axioms proj_coeff_bound
#print axioms basis_coeff_le_sqrt
#print axioms basisT_le_sqrt
#print axioms calibration_core
#print axioms calibration_bound_poly
#print axioms calibration_bound_poly_sqrt
#print axioms power_spectrum_calibrated_poly
#print axioms calibration_bound_order0_of_poly
#print axioms orthoCols_Q4
