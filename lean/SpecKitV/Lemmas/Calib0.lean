/-
  SpecKitV.Lemmas.Calib0 — calibration of the reference estimator's windowed DFT for a pure
  sinusoid `x n = A cos(ω0 n + φ)` with detrending order 0 (mean removal, the library default).

  `X0 = X − m · W(ω0)`, `m` the segment mean, `W` the window transform; `|m| ≤ |A|·‖D‖/L` with the
  Dirichlet sum `D = Σ_{n<L} e^{i ω0 n}`; hence the order-0 on-peak power is within
  `(2r + r²)` of `(A/2)² S1²`, `r = ρ + 2ρ0`, `ρ = |W(2ω0)|/S1`, `ρ0 = |W(ω0)|·|D|/(L·S1)`.
-/
import SpecKitV.Lemmas.Sinusoid
import SpecKitV.Lemmas.Detrend
open Finset Complex

/-- Dirichlet sum -/
noncomputable def dirichlet (L : ℕ) (θ : ℝ) : ℂ :=
  ∑ n ∈ Finset.range L, Complex.exp (((θ * n : ℝ) : ℂ) * Complex.I)

/-! ### the windowed DFT for any detrending order -/

/-- the model's windowed DFT of the detrended segment as a complex sum (any order) -/
theorem segDFT_toC_gen (o : ℤ) (Q : ℕ → ℕ → ℝ) (x : ℕ → ℝ) (s L : ℕ) (w : ℕ → ℝ) (ω : ℝ) :
    Cx.toC (Model.segDFT o Q x s L w ω)
      = ∑ n ∈ range L, ((w n * Model.detr o Q x s L n : ℝ) : ℂ) * Complex.exp (-(ω * n * I)) := by
  apply Complex.ext
  · rw [Complex.re_sum]
    simp only [Cx.toC_re, Model.segDFT, sumRange_eq_sum, RL.cos_eq, RL.ofNat_eq,
      Complex.re_ofReal_mul, exp_neg_mul_I_re]
  · rw [Complex.im_sum]
    simp only [Cx.toC_im, Model.segDFT, sumRange_eq_sum, RL.sin_eq, RL.ofNat_eq,
      RL.zero_eq, Complex.im_ofReal_mul, exp_neg_mul_I_im]
    simp

/-- order 0 = order −1 minus (segment mean) × (window transform) -/
theorem segDFT_order0_eq (Q : ℕ → ℕ → ℝ) (x : ℕ → ℝ) (s L : ℕ) (w : ℕ → ℝ) (ω : ℝ) :
    Cx.toC (Model.segDFT 0 Q x s L w ω)
      = Cx.toC (Model.segDFT (-1) Q x s L w ω)
        - (((∑ m ∈ Finset.range L, x (s + m)) / L : ℝ) : ℂ) * winT w L ω := by
  rw [segDFT_toC_gen, segDFT_toC_gen, winT, Finset.mul_sum, ← Finset.sum_sub_distrib]
  refine Finset.sum_congr rfl (fun n _ => ?_)
  rw [detr0_eq, detr_neg_one]
  push_cast
  ring

/-! ### the segment mean of a sinusoid -/

theorem sinusoid_sum_eq_re (ω0 φ : ℝ) (s L : ℕ) :
    ∑ m ∈ range L, Real.cos (ω0 * ((s + m : ℕ) : ℝ) + φ)
      = (Complex.exp (((ω0 * s + φ : ℝ) : ℂ) * I) * dirichlet L ω0).re := by
  unfold dirichlet
  rw [Finset.mul_sum, Complex.re_sum]
  refine Finset.sum_congr rfl (fun m _ => ?_)
  rw [← Complex.exp_add, ← add_mul, ← Complex.ofReal_add, Complex.exp_ofReal_mul_I_re]
  congr 1
  push_cast
  ring

theorem sinusoid_mean_bound (A ω0 φ : ℝ) (s L : ℕ) (hL : 0 < L) :
    |(∑ m ∈ Finset.range L, A * Real.cos (ω0 * ((s + m : ℕ) : ℝ) + φ)) / L|
      ≤ |A| * ‖dirichlet L ω0‖ / L := by
  have hLr : (0 : ℝ) < L := by exact_mod_cast hL
  rw [← Finset.mul_sum, sinusoid_sum_eq_re, abs_div, abs_mul, abs_of_pos hLr]
  have h1 : |(Complex.exp (((ω0 * s + φ : ℝ) : ℂ) * I) * dirichlet L ω0).re|
      ≤ ‖dirichlet L ω0‖ := by
    refine (Complex.abs_re_le_norm _).trans (le_of_eq ?_)
    rw [norm_mul, Complex.norm_exp_ofReal_mul_I, one_mul]
  exact div_le_div_of_nonneg_right (mul_le_mul_of_nonneg_left h1 (abs_nonneg A)) hLr.le

/-! ### generic perturbation and averaging lemmas -/

/-- `‖P‖ = p`, `‖c‖ ≤ p r` ⇒ `|‖P + c‖² − p²| ≤ p² (2r + r²)` -/
theorem abs_normSq_perturb (P c : ℂ) (p r : ℝ) (hP : ‖P‖ = p) (hc : ‖c‖ ≤ p * r) :
    |‖P + c‖ ^ 2 - p ^ 2| ≤ p ^ 2 * (2 * r + r ^ 2) := by
  have h := abs_normSq_add_sub_le P c
  rw [hP] at h
  have hp : 0 ≤ p := hP ▸ norm_nonneg P
  have hc0 : 0 ≤ ‖c‖ := norm_nonneg c
  have h1 : 2 * p * ‖c‖ ≤ 2 * p * (p * r) := mul_le_mul_of_nonneg_left hc (by positivity)
  have h2 : ‖c‖ ^ 2 ≤ (p * r) ^ 2 := pow_le_pow_left₀ hc0 hc 2
  calc |‖P + c‖ ^ 2 - p ^ 2| ≤ 2 * p * ‖c‖ + ‖c‖ ^ 2 := h
    _ ≤ 2 * p * (p * r) + (p * r) ^ 2 := add_le_add h1 h2
    _ = p ^ 2 * (2 * r + r ^ 2) := by ring

/-- per-term bound ⇒ bound on the mean -/
theorem abs_mean_sub_le (K : ℕ) (hK : 0 < K) (f : ℕ → ℝ) (c e : ℝ)
    (h : ∀ k < K, |f k - c| ≤ e) :
    |(∑ k ∈ range K, f k) / K - c| ≤ e := by
  have hKr : (0 : ℝ) < K := by exact_mod_cast hK
  have h1 : (∑ k ∈ range K, f k) / K - c = (∑ k ∈ range K, (f k - c)) / K := by
    rw [Finset.sum_sub_distrib, Finset.sum_const, Finset.card_range, nsmul_eq_mul]
    field_simp
  rw [h1, abs_div, abs_of_pos hKr, div_le_iff₀ hKr]
  refine (Finset.abs_sum_le_sum_abs _ _).trans ?_
  calc ∑ k ∈ range K, |f k - c| ≤ ∑ _k ∈ range K, e :=
        Finset.sum_le_sum (fun k hk => h k (Finset.mem_range.1 hk))
    _ = e * K := by rw [Finset.sum_const, Finset.card_range, nsmul_eq_mul]; ring

/-- per-segment calibration bound ⇒ bound for the calibrated power spectrum value
    `ps = 2·mean|X|²/S1²` (generic in the per-segment power `f`) -/
theorem ps_of_segment_bound (K : ℕ) (hK : 0 < K) (f : ℕ → ℝ) (A S1 e : ℝ) (hS1 : 0 < S1)
    (h : ∀ k < K, |f k - (A / 2) ^ 2 * S1 ^ 2| ≤ (A / 2) ^ 2 * S1 ^ 2 * e) :
    |2 * ((∑ k ∈ range K, f k) / K) / S1 ^ 2 - A ^ 2 / 2| ≤ A ^ 2 / 2 * e := by
  have hXX := abs_mean_sub_le K hK f _ _ h
  have hne : S1 ≠ 0 := ne_of_gt hS1
  have h2 : 2 * ((∑ k ∈ range K, f k) / K) / S1 ^ 2 - A ^ 2 / 2
      = (2 / S1 ^ 2) * ((∑ k ∈ range K, f k) / K - (A / 2) ^ 2 * S1 ^ 2) := by
    field_simp
  have h3 : A ^ 2 / 2 * e = (2 / S1 ^ 2) * ((A / 2) ^ 2 * S1 ^ 2 * e) := by
    field_simp
  rw [h2, h3, abs_mul, abs_of_pos (by positivity : (0 : ℝ) < 2 / S1 ^ 2)]
  exact mul_le_mul_of_nonneg_left hXX (by positivity)

/-! ### calibration with mean removal -/

/-- order 0, at the sinusoid's own frequency: `|X0|²` is within `(2r + r²)` of `(A/2)²·S1²` -/
theorem calibration_bound_order0 (Q : ℕ → ℕ → ℝ) (A ω0 φ : ℝ) (s L : ℕ) (hL : 0 < L) (w : ℕ → ℝ)
    (hS1 : 0 < ∑ n ∈ Finset.range L, w n) :
    let S1 := ∑ n ∈ Finset.range L, w n
    let ρ := ‖winT w L (2 * ω0)‖ / S1
    let ρ0 := ‖winT w L ω0‖ * ‖dirichlet L ω0‖ / (L * S1)
    let r := ρ + 2 * ρ0
    |Cx.normSq (Model.segDFT 0 Q (fun n => A * Real.cos (ω0 * n + φ)) s L w ω0) - (A / 2) ^ 2 * S1 ^ 2|
      ≤ (A / 2) ^ 2 * S1 ^ 2 * (2 * r + r ^ 2) := by
  intro S1 ρ ρ0 r
  have hLr : (0 : ℝ) < L := by exact_mod_cast hL
  have hS1p : (0 : ℝ) < S1 := hS1
  rw [Cx.normSq_eq, Complex.normSq_eq_norm_sq, segDFT_order0_eq, sinusoid_onpeak]
  obtain ⟨ha, hb⟩ := norm_onpeak_core (φ + ω0 * s) S1 (winT w L (2 * ω0))
  have hm := sinusoid_mean_bound A ω0 φ s L hL
  set M : ℝ := (∑ m ∈ Finset.range L, A * Real.cos (ω0 * ((s + m : ℕ) : ℝ) + φ)) / L with hM
  have hA : ‖(A / 2 : ℂ)‖ = |A| / 2 := by
    rw [norm_div, Complex.norm_real, Real.norm_eq_abs]; simp
  -- split into the main image and the perturbation
  set P : ℂ := (A / 2 : ℂ) * (Complex.exp (((φ + ω0 * s : ℝ) : ℂ) * I) * (S1 : ℂ)) with hPdef
  set c : ℂ := (A / 2 : ℂ) * (Complex.exp (-(((φ + ω0 * s : ℝ) : ℂ) * I)) * winT w L (2 * ω0))
      - (M : ℂ) * winT w L ω0 with hcdef
  have hsplit : (A / 2 : ℂ) * (Complex.exp (((φ + ω0 * s : ℝ) : ℂ) * I) * (S1 : ℂ)
        + Complex.exp (-(((φ + ω0 * s : ℝ) : ℂ) * I)) * winT w L (2 * ω0))
        - (M : ℂ) * winT w L ω0 = P + c := by
    rw [hPdef, hcdef]; ring
  have hP : ‖P‖ = |A| / 2 * S1 := by
    rw [hPdef, norm_mul, hA, ha, abs_of_pos hS1p]
  have hc : ‖c‖ ≤ |A| / 2 * S1 * r := by
    have h1 : ‖c‖ ≤ |A| / 2 * ‖winT w L (2 * ω0)‖ + |M| * ‖winT w L ω0‖ := by
      rw [hcdef]
      refine (norm_sub_le _ _).trans ?_
      rw [norm_mul (A / 2 : ℂ), norm_mul (M : ℂ), hA, hb, Complex.norm_real, Real.norm_eq_abs]
    have h2 : |M| * ‖winT w L ω0‖ ≤ |A| * ‖dirichlet L ω0‖ / L * ‖winT w L ω0‖ :=
      mul_le_mul_of_nonneg_right hm (norm_nonneg _)
    have h3 : |A| / 2 * S1 * r
        = |A| / 2 * ‖winT w L (2 * ω0)‖ + |A| * ‖dirichlet L ω0‖ / L * ‖winT w L ω0‖ := by
      have hne : S1 ≠ 0 := ne_of_gt hS1p
      have hLne : (L : ℝ) ≠ 0 := ne_of_gt hLr
      simp only [r, ρ, ρ0]
      field_simp
    rw [h3]
    linarith
  have hfin := abs_normSq_perturb P c (|A| / 2 * S1) r hP hc
  have hsq : (|A| / 2 * S1) ^ 2 = (A / 2) ^ 2 * S1 ^ 2 := by
    rw [mul_pow, div_pow, sq_abs, div_pow]
  rw [hsq] at hfin
  rw [← hsplit] at hfin
  exact hfin

/-- the same for the calibrated power spectrum value `ps = 2·|X0|²/S1²`
    (mean over any K ≥ 1 segments with any starts), order 0 -/
theorem power_spectrum_calibrated_order0 (Q : ℕ → ℕ → ℝ) (A ω0 φ : ℝ) (K L : ℕ) (hK : 0 < K)
    (hL : 0 < L) (starts : ℕ → ℕ) (w : ℕ → ℝ) (hS1 : 0 < ∑ n ∈ Finset.range L, w n) :
    let S1 := ∑ n ∈ Finset.range L, w n
    let ρ := ‖winT w L (2 * ω0)‖ / S1
    let ρ0 := ‖winT w L ω0‖ * ‖dirichlet L ω0‖ / (L * S1)
    let r := ρ + 2 * ρ0
    let XX := (∑ k ∈ Finset.range K, Cx.normSq (Model.segDFT 0 Q
        (fun n => A * Real.cos (ω0 * n + φ)) (starts k) L w ω0)) / K
    |2 * XX / S1 ^ 2 - A ^ 2 / 2| ≤ A ^ 2 / 2 * (2 * r + r ^ 2) := by
  intro S1 ρ ρ0 r XX
  exact ps_of_segment_bound K hK
    (fun k => Cx.normSq (Model.segDFT 0 Q (fun n => A * Real.cos (ω0 * n + φ)) (starts k) L w ω0))
    A S1 (2 * r + r ^ 2) hS1
    (fun k _ => calibration_bound_order0 Q A ω0 φ (starts k) L hL w hS1)

/-- the order −1 statement of `Sinusoid.lean` is an instance of the same generic averaging lemma -/
example (Q : ℕ → ℕ → ℝ) (A ω0 φ : ℝ) (K L : ℕ) (hK : 0 < K)
    (starts : ℕ → ℕ) (w : ℕ → ℝ) (hS1 : 0 < ∑ n ∈ range L, w n) :
    let S1 := ∑ n ∈ range L, w n
    let ρ := ‖winT w L (2 * ω0)‖ / S1
    let XX := (∑ k ∈ range K, Cx.normSq (Model.segDFT (-1) Q
        (fun n => A * Real.cos (ω0 * n + φ)) (starts k) L w ω0)) / K
    |2 * XX / S1 ^ 2 - A ^ 2 / 2| ≤ A ^ 2 / 2 * (2 * ρ + ρ ^ 2) := by
  intro S1 ρ XX
  exact ps_of_segment_bound K hK
    (fun k => Cx.normSq (Model.segDFT (-1) Q (fun n => A * Real.cos (ω0 * n + φ)) (starts k) L w ω0))
    A S1 (2 * ρ + ρ ^ 2) hS1
    (fun k _ => calibration_bound Q A ω0 φ (starts k) L w hS1)

/-! ### the hypotheses are satisfiable -/

/-- rectangular window of length 4: the hypotheses hold for every amplitude, frequency, phase
    and segment start -/
example (Q : ℕ → ℕ → ℝ) (A ω0 φ : ℝ) (s : ℕ) :
    let w : ℕ → ℝ := fun _ => 1
    let S1 := ∑ n ∈ Finset.range 4, w n
    let ρ := ‖winT w 4 (2 * ω0)‖ / S1
    let ρ0 := ‖winT w 4 ω0‖ * ‖dirichlet 4 ω0‖ / ((4 : ℕ) * S1)
    let r := ρ + 2 * ρ0
    |Cx.normSq (Model.segDFT 0 Q (fun n => A * Real.cos (ω0 * n + φ)) s 4 w ω0)
        - (A / 2) ^ 2 * S1 ^ 2|
      ≤ (A / 2) ^ 2 * S1 ^ 2 * (2 * r + r ^ 2) :=
  calibration_bound_order0 Q A ω0 φ s 4 (by norm_num) (fun _ => 1) (by norm_num)

/-- rectangular window of length 4 at `ω0 = π/2`: `W(2ω0) = 1 − 1 + 1 − 1 = 0` … -/
theorem winT_rect4_pi : winT (fun _ => 1) 4 (2 * (Real.pi / 2)) = 0 := by
  have h : ∀ n : ℕ, Complex.exp (-(((2 * (Real.pi / 2) : ℝ) : ℂ) * (n : ℂ) * I)) = (-1) ^ n := by
    intro n
    rw [← Complex.exp_neg_pi_mul_I, ← Complex.exp_nat_mul]
    congr 1; push_cast; ring
  simp only [winT, h, Finset.sum_range_succ, Finset.sum_range_zero]
  norm_num

/-- … and `D = 1 + i − 1 − i = 0` -/
theorem dirichlet4_half_pi : dirichlet 4 (Real.pi / 2) = 0 := by
  have h : ∀ n : ℕ, Complex.exp ((((Real.pi / 2) * n : ℝ) : ℂ) * I) = I ^ n := by
    intro n
    have e : (I : ℂ) ^ n = Complex.exp ((n : ℂ) * ((Real.pi : ℂ) / 2 * I)) := by
      rw [Complex.exp_nat_mul, Complex.exp_pi_div_two_mul_I]
    rw [e]
    congr 1; push_cast; ring
  simp only [dirichlet, h, Finset.sum_range_succ, Finset.sum_range_zero]
  have h2 : (I : ℂ) ^ 2 = -1 := Complex.I_sq
  have h3 : (I : ℂ) ^ 3 = -I := by rw [pow_succ, h2]; ring
  rw [h2, h3]; ring

/-- so there `r = 0` and the bound gives exact calibration `|X0|² = (A/2)²·S1² = 4A²`
    (the bound is attained, in particular not vacuous) -/
example (Q : ℕ → ℕ → ℝ) (A φ : ℝ) (s : ℕ) :
    Cx.normSq (Model.segDFT 0 Q (fun n => A * Real.cos (Real.pi / 2 * n + φ)) s 4 (fun _ => 1)
      (Real.pi / 2)) = 4 * A ^ 2 := by
  have h := calibration_bound_order0 Q A (Real.pi / 2) φ s 4 (by norm_num) (fun _ => 1) (by norm_num)
  have hS : ∑ _n ∈ range 4, (1 : ℝ) = 4 := by simp
  simp only [winT_rect4_pi, dirichlet4_half_pi, norm_zero, zero_div, mul_zero, add_zero, hS] at h
  have h0 : (A / 2) ^ 2 * (4 : ℝ) ^ 2 * (0 + 0 ^ 2) = 0 := by ring
  rw [h0] at h
  have := abs_nonpos_iff.mp h
  linarith

#print axioms segDFT_order0_eq
#print axioms sinusoid_mean_bound
#print axioms calibration_bound_order0
#print axioms power_spectrum_calibrated_order0
#print axioms abs_normSq_perturb
#print axioms abs_mean_sub_le
#print axioms ps_of_segment_bound
