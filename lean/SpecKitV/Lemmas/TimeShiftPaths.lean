/-
  SpecKitV.Lemmas.TimeShiftPaths — the two code paths of the fractional time-shift routine
  (`Model.shiftConst`, `Model.shiftVar`): interior stencil form, agreement of the paths, exact polynomial
  interpolation, integer / zero shifts, constant records.
-/
import SpecKitV.RealInst
import SpecKitV.Model.TimeShift
import SpecKitV.Lemmas.Taps
open Finset

/-- the stencil of output sample n is interior: all 2h reads are inside the record -/
def Interior (size h : ℕ) (sInt : ℤ) (n : ℕ) : Prop :=
  0 ≤ (n : ℤ) + sInt - ((h : ℤ) - 1) ∧ (n : ℤ) + sInt + (h : ℤ) ≤ (size : ℤ) - 1

/-- clampIdx stays in range -/
theorem clampIdx_lt (i : ℤ) (size : ℕ) (hs : 0 < size) : Model.clampIdx i size < size := by
  unfold Model.clampIdx
  split_ifs <;> omega

namespace TimeShiftAux

theorem clampIdx_of_mem (i : ℤ) (size : ℕ) (h0 : 0 ≤ i) (h1 : i < (size : ℤ)) :
    Model.clampIdx i size = i.toNat := by
  unfold Model.clampIdx
  rw [if_neg (by omega), if_neg (by omega)]

theorem clampIdx_neg (i : ℤ) (size : ℕ) (h0 : i < 0) : Model.clampIdx i size = 0 := by
  unfold Model.clampIdx
  rw [if_pos h0]

theorem clampIdx_ge (i : ℤ) (size : ℕ) (h0 : 0 ≤ i) (h1 : (size : ℤ) ≤ i) :
    Model.clampIdx i size = size - 1 := by
  unfold Model.clampIdx
  rw [if_neg (by omega), if_pos (by omega)]

/-- the filter branch of the constant path, when neither early return fires -/
theorem shiftConst_filter (data : ℕ → ℝ) (size h : ℕ) (sInt : ℤ) (d : ℝ) (n : ℕ)
    (h1 : ¬ (sInt + (h : ℤ) + (size : ℤ) - 1 < 0)) (h2 : ¬ (sInt - ((h : ℤ) - 1) > (size : ℤ) - 1)) :
    Model.shiftConst data size h sInt d n
      = ∑ k ∈ range (2 * h),
          data (Model.clampIdx ((n : ℤ) + (sInt - ((h : ℤ) - 1)) + (k : ℤ)) size) * Model.tap h d k := by
  simp only [Model.shiftConst]
  rw [if_neg h1, if_neg h2, sumRange_eq_sum]

end TimeShiftAux

open TimeShiftAux

/-- constant path on an interior stencil: plain Lagrange stencil sum -/
theorem shiftConst_interior (data : ℕ → ℝ) (size h : ℕ) (hh : 1 ≤ h) (sInt : ℤ) (d : ℝ) (n : ℕ) (hn : n < size)
    (hint : Interior size h sInt n) :
    Model.shiftConst data size h sInt d n
      = ∑ k ∈ range (2 * h), data ((n : ℤ) + sInt - ((h : ℤ) - 1) + (k : ℤ)).toNat * Model.tap h d k := by
  obtain ⟨hi0, hi1⟩ := hint
  rw [shiftConst_filter data size h sInt d n (by omega) (by omega)]
  apply sum_congr rfl
  intro k hk
  have hk' := mem_range.mp hk
  have e : (n : ℤ) + (sInt - ((h : ℤ) - 1)) + (k : ℤ) = (n : ℤ) + sInt - ((h : ℤ) - 1) + (k : ℤ) := by ring
  rw [e, clampIdx_of_mem _ _ (by omega) (by omega)]

/-- both code paths agree wherever the stencil is interior -/
theorem paths_agree_interior (data : ℕ → ℝ) (size h : ℕ) (hh : 1 ≤ h) (sInt : ℤ) (d : ℝ) (n : ℕ) (hn : n < size)
    (hint : Interior size h sInt n) :
    Model.shiftVar data size h sInt d n = Model.shiftConst data size h sInt d n := by
  rw [shiftConst_interior data size h hh sInt d n hn hint]
  obtain ⟨hi0, hi1⟩ := hint
  simp only [Model.shiftVar]
  rw [if_neg (by omega), if_neg (by omega), sumRange_eq_sum]
  apply sum_congr rfl
  intro k hk
  have hk' := mem_range.mp hk
  rw [if_neg (by omega), mul_comm]

/-- for ANY record the interior output is the value at n + s of the unique degree-(2h−1) interpolant through the
    2h surrounding samples -/
theorem shiftConst_is_interpolant (data : ℕ → ℝ) (size h : ℕ) (hh : 1 ≤ h) (sInt : ℤ) (d : ℝ) (hd0 : 0 ≤ d) (hd1 : d < 1)
    (n : ℕ) (hn : n < size) (hint : Interior size h sInt n) (p : Polynomial ℝ) (hp : p.natDegree < 2 * h)
    (hfit : ∀ k < 2 * h, p.eval (((n : ℤ) + sInt - ((h : ℤ) - 1) + (k : ℤ) : ℤ) : ℝ) = data ((n : ℤ) + sInt - ((h : ℤ) - 1) + (k : ℤ)).toNat) :
    Model.shiftConst data size h sInt d n = p.eval ((n : ℝ) + (sInt : ℝ) + d) := by
  rw [shiftConst_interior data size h hh sInt d n hn hint]
  set q : Polynomial ℝ := p.comp (Polynomial.X + Polynomial.C ((n : ℝ) + (sInt : ℝ))) with hq
  have hqdeg : q.natDegree < 2 * h := by
    rw [hq, Polynomial.natDegree_comp, Polynomial.natDegree_X_add_C, mul_one]
    exact hp
  have hqe : ∀ x : ℝ, q.eval x = p.eval (x + ((n : ℝ) + (sInt : ℝ))) := by
    intro x
    rw [hq, Polynomial.eval_comp, Polynomial.eval_add, Polynomial.eval_X, Polynomial.eval_C]
  have key := taps_reproduce_poly h hh d hd0 hd1 q hqdeg
  rw [hqe] at key
  have e : d + ((n : ℝ) + (sInt : ℝ)) = (n : ℝ) + (sInt : ℝ) + d := by ring
  rw [e] at key
  rw [← key]
  apply sum_congr rfl
  intro k hk
  have hk' := mem_range.mp hk
  rw [← hfit k hk', hqe, mul_comm]
  congr 2
  simp only [tapNode]
  push_cast
  ring

/-- exact interpolation: if the record samples a polynomial of degree ≤ 2h−1 the interior output is that
    polynomial at n + s -/
theorem shiftConst_reproduces_poly (p : Polynomial ℝ) (size h : ℕ) (hh : 1 ≤ h) (hp : p.natDegree < 2 * h) (sInt : ℤ) (d : ℝ)
    (hd0 : 0 ≤ d) (hd1 : d < 1) (n : ℕ) (hn : n < size) (hint : Interior size h sInt n) :
    Model.shiftConst (fun i => p.eval (i : ℝ)) size h sInt d n = p.eval ((n : ℝ) + (sInt : ℝ) + d) := by
  apply shiftConst_is_interpolant (fun i => p.eval (i : ℝ)) size h hh sInt d hd0 hd1 n hn hint p hp
  intro k hk
  obtain ⟨hi0, hi1⟩ := hint
  have h0 : 0 ≤ (n : ℤ) + sInt - ((h : ℤ) - 1) + (k : ℤ) := by omega
  show _ = p.eval ((((n : ℤ) + sInt - ((h : ℤ) - 1) + (k : ℤ)).toNat : ℕ) : ℝ)
  congr 1
  rw [← Int.cast_natCast (R := ℝ), Int.toNat_of_nonneg h0]

/-- an integer shift (d = 0) is a pure displacement with the end values held -/
theorem shiftConst_integer (data : ℕ → ℝ) (size h : ℕ) (hh : 1 ≤ h) (hsz : 2 ≤ size) (sInt : ℤ) (n : ℕ) (hn : n < size) :
    Model.shiftConst data size h sInt 0 n = data (Model.clampIdx ((n : ℤ) + sInt) size) := by
  by_cases h1 : sInt + (h : ℤ) + (size : ℤ) - 1 < 0
  · simp only [Model.shiftConst]
    rw [if_pos h1, clampIdx_neg _ _ (by omega)]
  by_cases h2 : sInt - ((h : ℤ) - 1) > (size : ℤ) - 1
  · simp only [Model.shiftConst]
    rw [if_neg h1, if_pos h2, clampIdx_ge _ _ (by omega) (by omega)]
  rw [shiftConst_filter data size h sInt 0 n h1 h2]
  have hmem : h - 1 ∈ range (2 * h) := mem_range.mpr (by omega)
  rw [sum_eq_single_of_mem (h - 1) hmem]
  · rw [tap_at_zero h hh (h - 1) (by omega), if_pos (by omega), mul_one]
    congr 2
    omega
  · intro k hk hne
    rw [tap_at_zero h hh k (mem_range.mp hk), if_neg (by omega), mul_zero]

/-- a zero shift is the identity (the routine returns the input unchanged before reaching the filter; the
    filter agrees) -/
theorem shiftConst_zero (data : ℕ → ℝ) (size h : ℕ) (hh : 1 ≤ h) (hsz : 2 ≤ size) (n : ℕ) (hn : n < size) :
    Model.shiftConst data size h 0 0 n = data n := by
  rw [shiftConst_integer data size h hh hsz 0 n hn, clampIdx_of_mem _ _ (by omega) (by omega)]
  congr 1

/-- a constant record is left unchanged by any shift (taps sum to one) -/
theorem shiftConst_const (c : ℝ) (size h : ℕ) (hh : 1 ≤ h) (hsz : 2 ≤ size) (sInt : ℤ) (d : ℝ) (hd0 : 0 ≤ d) (hd1 : d < 1) (n : ℕ) :
    Model.shiftConst (fun _ => c) size h sInt d n = c := by
  simp only [Model.shiftConst]
  split_ifs
  · rfl
  · rfl
  · rw [sumRange_eq_sum, ← mul_sum, taps_sum_one h hh d hd0 hd1, mul_one]

#print axioms clampIdx_lt
#print axioms shiftConst_interior
#print axioms paths_agree_interior
#print axioms shiftConst_is_interpolant
#print axioms shiftConst_reproduces_poly
#print axioms shiftConst_integer
#print axioms shiftConst_zero
#print axioms shiftConst_const
