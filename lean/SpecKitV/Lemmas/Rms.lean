/-
  SpecKitV.Lemmas.Rms — band-limited RMS (`Model.integralRms`), trapezoid sums, order-0 detrend
  and `np.interp`, at `α := ℝ`.
-/
import SpecKitV.RealInst
import SpecKitV.Model.Dsp

namespace RmsAux

/-- trapezoid integral of the squared integrand -/
noncomputable def T (l : List (ℝ × ℝ)) : ℝ := Model.trapz (l.map (fun p => (p.1, p.2 * p.2)))

/-- strictly increasing frequencies -/
def Srt (l : List (ℝ × ℝ)) : Prop := (l.map Prod.fst).Pairwise (· < ·)

theorem trapz_nil : Model.trapz ([] : List (ℝ × ℝ)) = 0 := by
  simp [Model.trapz]

theorem trapz_single (p : ℝ × ℝ) : Model.trapz [p] = 0 := by
  simp [Model.trapz]

theorem trapz_cons_cons (p q : ℝ × ℝ) (r : List (ℝ × ℝ)) :
    Model.trapz (p :: q :: r) = (q.1 - p.1) * (p.2 + q.2) / 2 + Model.trapz (q :: r) := by
  obtain ⟨f0, y0⟩ := p
  obtain ⟨f1, y1⟩ := q
  simp [Model.trapz]

theorem T_nil : T [] = 0 := trapz_nil
theorem T_single (p : ℝ × ℝ) : T [p] = 0 := trapz_single _
theorem T_cons_cons (p q : ℝ × ℝ) (r : List (ℝ × ℝ)) :
    T (p :: q :: r) = (q.1 - p.1) * (p.2 * p.2 + q.2 * q.2) / 2 + T (q :: r) := by
  simp only [T, List.map_cons, trapz_cons_cons]


theorem Srt.cons_cons {p q : ℝ × ℝ} {r : List (ℝ × ℝ)} (h : Srt (p :: q :: r)) : p.1 < q.1 := by
  simp only [Srt, List.map_cons, List.pairwise_cons] at h
  exact h.1 _ (List.mem_cons_self)

theorem Srt.tail {p : ℝ × ℝ} {r : List (ℝ × ℝ)} (h : Srt (p :: r)) : Srt r := by
  simp only [Srt, List.map_cons, List.pairwise_cons] at h
  exact h.2

theorem Srt.sublist {l l' : List (ℝ × ℝ)} (h : Srt l) (hl : l'.Sublist l) : Srt l' :=
  List.Pairwise.sublist (hl.map _) h

theorem Srt.filter {l : List (ℝ × ℝ)} (h : Srt l) (P : ℝ × ℝ → Bool) : Srt (l.filter P) :=
  h.sublist List.filter_sublist

theorem Srt.lt_of_mem {p q : ℝ × ℝ} {r : List (ℝ × ℝ)} (h : Srt (p :: r)) (hq : q ∈ r) : p.1 < q.1 := by
  simp only [Srt, List.map_cons, List.pairwise_cons] at h
  exact h.1 _ (List.mem_map_of_mem hq)

theorem T_nonneg : ∀ (l : List (ℝ × ℝ)), Srt l → 0 ≤ T l
  | [], _ => by rw [T_nil]
  | [_], _ => by rw [T_single]
  | p :: q :: r, h => by
    rw [T_cons_cons]
    have h1 : p.1 < q.1 := h.cons_cons
    have h2 := T_nonneg (q :: r) h.tail
    have h3 : 0 ≤ (q.1 - p.1) * (p.2 * p.2 + q.2 * q.2) / 2 := by
      have := mul_self_nonneg p.2
      have := mul_self_nonneg q.2
      have : 0 ≤ q.1 - p.1 := by linarith
      positivity
    linarith

theorem trapz_append' : ∀ (l1 l2 : List (ℝ × ℝ)) (p : ℝ × ℝ),
    Model.trapz (l1 ++ p :: l2) = Model.trapz (l1 ++ [p]) + Model.trapz (p :: l2)
  | [], l2, p => by simp [trapz_single]
  | [q], l2, p => by
    simp only [List.cons_append, List.nil_append, trapz_cons_cons, trapz_single]; ring
  | q :: r :: l1, l2, p => by
    have ih := trapz_append' (r :: l1) l2 p
    simp only [List.cons_append] at ih ⊢
    rw [trapz_cons_cons, trapz_cons_cons, ih]; ring

theorem T_append (l1 l2 : List (ℝ × ℝ)) (p : ℝ × ℝ) :
    T (l1 ++ p :: l2) = T (l1 ++ [p]) + T (p :: l2) := by
  simp only [T, List.map_append, List.map_cons, List.map_nil]
  exact trapz_append' _ _ _

theorem T_snoc_ge : ∀ (l : List (ℝ × ℝ)) (p : ℝ × ℝ), Srt (l ++ [p]) → T l ≤ T (l ++ [p])
  | [], p, _ => by simp [T_nil, T_single]
  | [q], p, h => by
    have := T_nonneg _ h
    simpa [T_single] using this
  | q :: r :: l, p, h => by
    have ih := T_snoc_ge (r :: l) p h.tail
    simp only [List.cons_append] at ih ⊢
    rw [T_cons_cons, T_cons_cons]; linarith

theorem T_superadd (l1 l2 : List (ℝ × ℝ)) (h : Srt (l1 ++ l2)) : T l1 + T l2 ≤ T (l1 ++ l2) := by
  cases l2 with
  | nil => simp [T_nil]
  | cons p l2 =>
    rw [T_append]
    have h1 : Srt (l1 ++ [p]) := by
      refine h.sublist ?_
      exact List.Sublist.append (List.Sublist.refl _) (by simp)
    have := T_snoc_ge l1 p h1
    linarith

/-- a strictly sorted list whose frequencies are all equal has at most one point -/
theorem T_eq_zero_of_const (l : List (ℝ × ℝ)) (h : Srt l) (c : ℝ) (hc : ∀ p ∈ l, p.1 = c) : T l = 0 := by
  match l, h, hc with
  | [], _, _ => exact T_nil
  | [_], _, _ => exact T_single _
  | p :: q :: r, h, hc =>
    have h1 : p.1 < q.1 := h.cons_cons
    have h2 := hc p (by simp)
    have h3 := hc q (by simp)
    linarith


/-! ### `listMin` / `listMax` bound every element -/

theorem foldl_min_le (xs : List ℝ) (x : ℝ) :
    xs.foldl (fun m v => if RealLike.lt v m then v else m) x ≤ x ∧
    ∀ v ∈ xs, xs.foldl (fun m v => if RealLike.lt v m then v else m) x ≤ v := by
  induction xs generalizing x with
  | nil => simp
  | cons y ys ih =>
    simp only [List.foldl_cons, List.mem_cons, forall_eq_or_imp]
    by_cases hy : RealLike.lt y x = true
    · rw [if_pos hy]
      have hy' : y < x := by simpa using hy
      have := ih y
      exact ⟨by linarith [this.1], this.1, this.2⟩
    · rw [if_neg hy]
      have hy' : ¬ y < x := by simpa using hy
      have := ih x
      exact ⟨this.1, by linarith [this.1], this.2⟩

theorem foldl_max_ge (xs : List ℝ) (x : ℝ) :
    x ≤ xs.foldl (fun m v => if RealLike.lt m v then v else m) x ∧
    ∀ v ∈ xs, v ≤ xs.foldl (fun m v => if RealLike.lt m v then v else m) x := by
  induction xs generalizing x with
  | nil => simp
  | cons y ys ih =>
    simp only [List.foldl_cons, List.mem_cons, forall_eq_or_imp]
    by_cases hy : RealLike.lt x y = true
    · rw [if_pos hy]
      have hy' : x < y := by simpa using hy
      have := ih y
      exact ⟨by linarith [this.1], this.1, this.2⟩
    · rw [if_neg hy]
      have hy' : ¬ x < y := by simpa using hy
      have := ih x
      exact ⟨this.1, by linarith [this.1], this.2⟩

theorem listMin_le (d : ℝ) (l : List ℝ) (v : ℝ) (hv : v ∈ l) : Model.listMin d l ≤ v := by
  cases l with
  | nil => simp at hv
  | cons x xs =>
    simp only [Model.listMin]
    rcases List.mem_cons.mp hv with rfl | h
    · exact (foldl_min_le xs v).1
    · exact (foldl_min_le xs x).2 v h

theorem le_listMax (d : ℝ) (l : List ℝ) (v : ℝ) (hv : v ∈ l) : v ≤ Model.listMax d l := by
  cases l with
  | nil => simp at hv
  | cons x xs =>
    simp only [Model.listMax]
    rcases List.mem_cons.mp hv with rfl | h
    · exact (foldl_max_ge xs v).1
    · exact (foldl_max_ge xs x).2 v h

/-! ### `integralRms` as a plain function -/

/-- band membership test used by the model -/
noncomputable def band (lo hi : ℝ) (p : ℝ × ℝ) : Bool := decide (lo ≤ p.1) && decide (p.1 ≤ hi)

/-- the local `go` of `Model.integralRms` at ℝ -/
noncomputable def goR (pts : List (ℝ × ℝ)) (lo hi : ℝ) : ℝ :=
  if hi ≤ lo then 0
  else if (pts.filter (band lo hi)).isEmpty then 0
  else Real.sqrt (T (pts.filter (band lo hi)))

theorem goR_sq (pts : List (ℝ × ℝ)) (hs : Srt pts) (lo hi : ℝ) :
    (goR pts lo hi) ^ 2 = T (pts.filter (band lo hi)) := by
  unfold goR
  by_cases h : hi ≤ lo
  · rw [if_pos h]
    have : T (pts.filter (band lo hi)) = 0 := by
      refine T_eq_zero_of_const _ (hs.filter _) lo ?_
      intro p hp
      have := (List.mem_filter.mp hp).2
      simp only [band, Bool.and_eq_true, decide_eq_true_eq] at this
      linarith [this.1, this.2]
    rw [this]; norm_num
  · rw [if_neg h]
    by_cases he : (pts.filter (band lo hi)).isEmpty
    · rw [if_pos he]
      rw [List.isEmpty_iff.mp he, T_nil]; norm_num
    · rw [if_neg he]
      exact Real.sq_sqrt (T_nonneg _ (hs.filter _))

/-- `f.min()` / `f.max()` as computed by the model -/
noncomputable def fmn (pts : List (ℝ × ℝ)) : ℝ := Model.listMin RealLike.zero (pts.map (·.1))
noncomputable def fmx (pts : List (ℝ × ℝ)) : ℝ := Model.listMax RealLike.zero (pts.map (·.1))

theorem go_eq (pts : List (ℝ × ℝ)) (lo hi : ℝ) :
    (if RealLike.ge lo hi then RealLike.zero
      else
        if (pts.filter (fun p => RealLike.ge p.1 lo && RealLike.le p.1 hi)).isEmpty then RealLike.zero
        else RealLike.sqrt (Model.trapz ((pts.filter (fun p => RealLike.ge p.1 lo && RealLike.le p.1 hi)).map
          (fun p => (p.1, p.2 * p.2))))) = goR pts lo hi :=
  if_congr (by simp) RL.zero_eq (if_congr Iff.rfl RL.zero_eq rfl)

theorem integralRms_none_eq (pts : List (ℝ × ℝ)) :
    Model.integralRms pts none = some (goR pts (fmn pts) (fmx pts)) := by
  unfold Model.integralRms
  exact congrArg some (go_eq pts _ _)

theorem integralRms_some_eq (pts : List (ℝ × ℝ)) (a b : ℝ) (hab : a ≤ b) :
    Model.integralRms pts (some (a, b))
      = some (goR pts (if fmn pts < a then a else fmn pts) (if b < fmx pts then b else fmx pts)) := by
  unfold Model.integralRms
  have h : ¬ (RealLike.gt a b = true) := by simpa using hab
  simp only [if_neg h]
  refine congrArg some ?_
  refine (go_eq pts _ _).trans ?_
  congr 1
  · exact if_congr (by simp [fmn]) rfl rfl
  · exact if_congr (by simp [fmx]) rfl rfl


theorem fmn_le (pts : List (ℝ × ℝ)) (p : ℝ × ℝ) (hp : p ∈ pts) : fmn pts ≤ p.1 :=
  listMin_le _ _ _ (List.mem_map_of_mem (f := fun q : ℝ × ℝ => q.1) hp)

theorem le_fmx (pts : List (ℝ × ℝ)) (p : ℝ × ℝ) (hp : p ∈ pts) : p.1 ≤ fmx pts :=
  le_listMax _ _ _ (List.mem_map_of_mem (f := fun q : ℝ × ℝ => q.1) hp)

theorem band_iff (lo hi : ℝ) (p : ℝ × ℝ) : band lo hi p = true ↔ lo ≤ p.1 ∧ p.1 ≤ hi := by
  simp [band]

theorem filter_congr_iff {P Q : ℝ × ℝ → Bool} {l : List (ℝ × ℝ)}
    (h : ∀ x ∈ l, (P x = true ↔ Q x = true)) : l.filter P = l.filter Q :=
  List.filter_congr (fun x hx => Bool.eq_iff_iff.mpr (h x hx))

/-- clipping the band to `[min f, max f]` keeps the same points -/
theorem filter_clip (pts : List (ℝ × ℝ)) (a b : ℝ) :
    pts.filter (band (if fmn pts < a then a else fmn pts) (if b < fmx pts then b else fmx pts))
      = pts.filter (band a b) := by
  refine filter_congr_iff (fun p hp => ?_)
  have h1 := fmn_le pts p hp
  have h2 := le_fmx pts p hp
  rw [band_iff, band_iff]
  split_ifs with ha hb hb
  · exact Iff.rfl
  · exact ⟨fun h => ⟨h.1, by linarith⟩, fun h => ⟨h.1, h2⟩⟩
  · exact ⟨fun h => ⟨by linarith, h.2⟩, fun h => ⟨h1, h.2⟩⟩
  · exact ⟨fun _ => ⟨by linarith, by linarith⟩, fun _ => ⟨h1, h2⟩⟩

theorem filter_full (pts : List (ℝ × ℝ)) : pts.filter (band (fmn pts) (fmx pts)) = pts := by
  rw [List.filter_eq_self]
  intro p hp
  exact (band_iff _ _ _).mpr ⟨fmn_le pts p hp, le_fmx pts p hp⟩

/-! ### a band filter of a sorted list is a contiguous block -/

theorem Srt.append_cons {l1 l2 : List (ℝ × ℝ)} {p : ℝ × ℝ} (h : Srt (l1 ++ p :: l2)) :
    (∀ q ∈ l1, q.1 < p.1) ∧ (∀ q ∈ l2, p.1 < q.1) := by
  simp only [Srt, List.map_append, List.map_cons, List.pairwise_append, List.pairwise_cons,
    List.mem_map, List.mem_cons, forall_exists_index, and_imp, forall_apply_eq_imp_iff₂] at h
  exact ⟨fun q hq => h.2.2 q hq _ (Or.inl rfl), fun q hq => h.2.1.1 q hq⟩

theorem band_nil {l : List (ℝ × ℝ)} {a b : ℝ} (h : ∀ q ∈ l, q.1 < a ∨ b < q.1) :
    l.filter (band a b) = [] := by
  rw [List.filter_eq_nil_iff]
  intro q hq hb
  rw [band_iff] at hb
  rcases h q hq with h | h <;> linarith [hb.1, hb.2]

theorem band_left {l : List (ℝ × ℝ)} {a b : ℝ} (h : ∀ q ∈ l, q.1 ≤ b) :
    l.filter (band a b) = l.filter (fun q => decide (a ≤ q.1)) := by
  refine filter_congr_iff (fun q hq => ?_)
  rw [band_iff]; simp only [decide_eq_true_eq]
  exact ⟨fun h' => h'.1, fun h' => ⟨h', h q hq⟩⟩

theorem band_right {l : List (ℝ × ℝ)} {a b : ℝ} (h : ∀ q ∈ l, a ≤ q.1) :
    l.filter (band a b) = l.filter (fun q => decide (q.1 ≤ b)) := by
  refine filter_congr_iff (fun q hq => ?_)
  rw [band_iff]; simp only [decide_eq_true_eq]
  exact ⟨fun h' => h'.2, fun h' => ⟨h q hq, h'⟩⟩

/-- split a sorted list at an arbitrary threshold -/
theorem split_at (m : ℝ) : ∀ (l : List (ℝ × ℝ)), Srt l →
    ∃ l1 l2, l = l1 ++ l2 ∧ (∀ q ∈ l1, q.1 < m) ∧ (∀ q ∈ l2, m ≤ q.1)
  | [], _ => ⟨[], [], rfl, by simp, by simp⟩
  | x :: xs, h => by
    by_cases hx : x.1 < m
    · obtain ⟨l1, l2, e, h1, h2⟩ := split_at m xs h.tail
      refine ⟨x :: l1, l2, by rw [e]; rfl, ?_, h2⟩
      intro q hq
      rcases List.mem_cons.mp hq with rfl | hq
      · exact hx
      · exact h1 q hq
    · refine ⟨[], x :: xs, rfl, by simp, ?_⟩
      intro q hq
      rcases List.mem_cons.mp hq with rfl | hq
      · exact not_lt.mp hx
      · have := h.lt_of_mem hq
        linarith [not_lt.mp hx]

theorem T_additive_at_grid (pts : List (ℝ × ℝ)) (hs : Srt pts) (a m b : ℝ) (ham : a ≤ m) (hmb : m ≤ b)
    (hm : m ∈ pts.map Prod.fst) :
    T (pts.filter (band a b)) = T (pts.filter (band a m)) + T (pts.filter (band m b)) := by
  obtain ⟨p, hp, rfl⟩ := List.mem_map.mp hm
  obtain ⟨l1, l2, rfl⟩ := List.append_of_mem hp
  obtain ⟨h1, h2⟩ := hs.append_cons
  have hpa : band a p.1 p = true := (band_iff _ _ _).mpr ⟨ham, le_refl _⟩
  have hpb : band p.1 b p = true := (band_iff _ _ _).mpr ⟨le_refl _, hmb⟩
  have hpab : band a b p = true := (band_iff _ _ _).mpr ⟨ham, hmb⟩
  have e1 : (l1 ++ p :: l2).filter (band a p.1) = l1.filter (fun q => decide (a ≤ q.1)) ++ [p] := by
    rw [List.filter_append, List.filter_cons_of_pos hpa,
      band_left (fun q hq => (h1 q hq).le), band_nil (fun q hq => Or.inr (h2 q hq))]
  have e2 : (l1 ++ p :: l2).filter (band p.1 b) = p :: l2.filter (fun q => decide (q.1 ≤ b)) := by
    rw [List.filter_append, List.filter_cons_of_pos hpb,
      band_right (fun q hq => (h2 q hq).le), band_nil (fun q hq => Or.inl (h1 q hq)), List.nil_append]
  have e3 : (l1 ++ p :: l2).filter (band a b)
      = l1.filter (fun q => decide (a ≤ q.1)) ++ p :: l2.filter (fun q => decide (q.1 ≤ b)) := by
    rw [List.filter_append, List.filter_cons_of_pos hpab,
      band_left (fun q hq => by linarith [h1 q hq]), band_right (fun q hq => by linarith [h2 q hq])]
  rw [e1, e2, e3, T_append]

theorem T_superadditive (pts : List (ℝ × ℝ)) (hs : Srt pts) (a m b : ℝ) (ham : a ≤ m) (hmb : m ≤ b) :
    T (pts.filter (band a m)) + T (pts.filter (band m b)) ≤ T (pts.filter (band a b)) := by
  by_cases hm : m ∈ pts.map Prod.fst
  · exact (T_additive_at_grid pts hs a m b ham hmb hm).ge
  · have hsK := hs.filter (band a b)
    obtain ⟨l1, l2, rfl, h1, h2⟩ := split_at m pts hs
    have h2' : ∀ q ∈ l2, m < q.1 := by
      intro q hq
      refine lt_of_le_of_ne (h2 q hq) ?_
      rintro rfl
      exact hm (List.mem_map_of_mem (List.mem_append_right _ hq))
    have e1 : (l1 ++ l2).filter (band a m) = l1.filter (fun q => decide (a ≤ q.1)) := by
      rw [List.filter_append, band_left (fun q hq => (h1 q hq).le),
        band_nil (fun q hq => Or.inr (h2' q hq)), List.append_nil]
    have e2 : (l1 ++ l2).filter (band m b) = l2.filter (fun q => decide (q.1 ≤ b)) := by
      rw [List.filter_append, band_right (fun q hq => (h2 q hq)),
        band_nil (fun q hq => Or.inl (h1 q hq)), List.nil_append]
    have e3 : (l1 ++ l2).filter (band a b)
        = l1.filter (fun q => decide (a ≤ q.1)) ++ l2.filter (fun q => decide (q.1 ≤ b)) := by
      rw [List.filter_append, band_left (fun q hq => by linarith [h1 q hq]),
        band_right (fun q hq => by linarith [h2 q hq])]
    rw [e3] at hsK
    rw [e1, e2, e3]
    exact T_superadd _ _ hsK

end RmsAux

open RmsAux

-- the required statements carry a few hypotheses (`hne`, …) that the proofs do not need
set_option linter.unusedVariables false

/-- panels of a squared integrand are non-negative -/
theorem trapz_sq_nonneg (pts : List (ℝ × ℝ)) (hs : (pts.map Prod.fst).Pairwise (· < ·)) :
    0 ≤ Model.trapz (pts.map (fun p => (p.1, p.2 * p.2))) :=
  T_nonneg pts hs

/-- trapezoid sum splits at any interior grid point -/
theorem trapz_append (l1 l2 : List (ℝ × ℝ)) (p : ℝ × ℝ) :
    Model.trapz (l1 ++ p :: l2) = Model.trapz (l1 ++ [p]) + Model.trapz (p :: l2) :=
  trapz_append' l1 l2 p

/-- squared band RMS as a plain function (0 when the function returns `none`) -/
noncomputable def rms2 (pts : List (ℝ × ℝ)) (a b : ℝ) : ℝ := ((Model.integralRms pts (some (a, b))).getD 0) ^ 2

theorem rms2_eq (pts : List (ℝ × ℝ)) (hs : (pts.map Prod.fst).Pairwise (· < ·)) (a b : ℝ) (hab : a ≤ b) :
    rms2 pts a b = T (pts.filter (band a b)) := by
  unfold rms2
  rw [integralRms_some_eq pts a b hab, Option.getD_some, goR_sq pts hs, filter_clip]

theorem rms2_nonneg (pts : List (ℝ × ℝ)) (a b : ℝ) : 0 ≤ rms2 pts a b := sq_nonneg _

/-- the RMS is the square root of the trapezoidal integral over the grid points inside the band -/
theorem integralRms_spec (pts : List (ℝ × ℝ)) (hne : pts ≠ []) (hs : (pts.map Prod.fst).Pairwise (· < ·)) (a b : ℝ) (hab : a ≤ b) :
    rms2 pts a b = Model.trapz ((pts.filter (fun p => decide (a ≤ p.1) && decide (p.1 ≤ b))).map (fun p => (p.1, p.2 * p.2))) :=
  rms2_eq pts hs a b hab

/-- full band = `none` band -/
theorem integralRms_none (pts : List (ℝ × ℝ)) (hne : pts ≠ []) (hs : (pts.map Prod.fst).Pairwise (· < ·)) :
    ((Model.integralRms pts none).getD 0) ^ 2 = Model.trapz (pts.map (fun p => (p.1, p.2 * p.2))) := by
  rw [integralRms_none_eq, Option.getD_some, goR_sq pts hs, filter_full]
  rfl

/-- additive in power when the split point is a grid frequency -/
theorem rms_additive_at_grid (pts : List (ℝ × ℝ)) (hne : pts ≠ []) (hs : (pts.map Prod.fst).Pairwise (· < ·))
    (a m b : ℝ) (ham : a ≤ m) (hmb : m ≤ b) (hm : m ∈ pts.map Prod.fst) :
    rms2 pts a b = rms2 pts a m + rms2 pts m b := by
  rw [rms2_eq pts hs a b (ham.trans hmb), rms2_eq pts hs a m ham, rms2_eq pts hs m b hmb]
  exact T_additive_at_grid pts hs a m b ham hmb hm

/-- for any split point power is super-additive (the panel straddling the split is lost from both parts) -/
theorem rms_superadditive (pts : List (ℝ × ℝ)) (hne : pts ≠ []) (hs : (pts.map Prod.fst).Pairwise (· < ·))
    (a m b : ℝ) (ham : a ≤ m) (hmb : m ≤ b) : rms2 pts a m + rms2 pts m b ≤ rms2 pts a b := by
  rw [rms2_eq pts hs a b (ham.trans hmb), rms2_eq pts hs a m ham, rms2_eq pts hs m b hmb]
  exact T_superadditive pts hs a m b ham hmb

/-- monotone under band nesting -/
theorem rms_monotone (pts : List (ℝ × ℝ)) (hne : pts ≠ []) (hs : (pts.map Prod.fst).Pairwise (· < ·))
    (a b a' b' : ℝ) (hab : a ≤ b) (h1 : a' ≤ a) (h2 : b ≤ b') : rms2 pts a b ≤ rms2 pts a' b' := by
  have s1 := rms_superadditive pts hne hs a' a b' h1 (hab.trans h2)
  have s2 := rms_superadditive pts hne hs a b b' hab h2
  have n1 := rms2_nonneg pts a' a
  have n2 := rms2_nonneg pts b b'
  linarith

/-! ### order-0 detrend -/

namespace RmsAux

theorem foldl_add_eq (xs : List ℝ) (c : ℝ) : xs.foldl (· + ·) c = c + xs.sum := by
  induction xs generalizing c with
  | nil => simp
  | cons x xs ih => rw [List.foldl_cons, ih, List.sum_cons]; ring

theorem detrend0_eq (xs : List ℝ) : Model.detrend0 xs = xs.map (fun x => x - xs.sum / xs.length) := by
  simp only [Model.detrend0, foldl_add_eq, RL.zero_eq, RL.ofNat_eq, zero_add]

theorem sum_map_sub_const (xs : List ℝ) (m : ℝ) : (xs.map (fun x => x - m)).sum = xs.sum - xs.length * m := by
  induction xs with
  | nil => simp
  | cons x xs ih => simp only [List.map_cons, List.sum_cons, ih, List.length_cons]; push_cast; ring

end RmsAux

theorem detrend0_sum_zero (xs : List ℝ) (hne : xs ≠ []) : (Model.detrend0 xs).sum = 0 := by
  have hn : (xs.length : ℝ) ≠ 0 := by
    have : xs.length ≠ 0 := fun h => hne (List.length_eq_zero_iff.mp h)
    exact_mod_cast this
  rw [detrend0_eq, sum_map_sub_const]
  field_simp
  ring

theorem detrend0_const (c : ℝ) (n : ℕ) (hn : 0 < n) : Model.detrend0 (List.replicate n c) = List.replicate n 0 := by
  have hn' : (n : ℝ) ≠ 0 := by exact_mod_cast hn.ne'
  rw [detrend0_eq, List.map_replicate, List.sum_replicate, List.length_replicate]
  congr 1
  rw [nsmul_eq_mul]
  field_simp
  ring

theorem detrend0_idem (xs : List ℝ) (hne : xs ≠ []) : Model.detrend0 (Model.detrend0 xs) = Model.detrend0 xs := by
  have h0 := detrend0_sum_zero xs hne
  rw [detrend0_eq (Model.detrend0 xs), h0]
  simp

/-! ### `np.interp` -/

namespace RmsAux

theorem interp_cons (x0 y0 : ℝ) (xs ys : List ℝ) (x : ℝ) :
    Model.interp (x0 :: xs) (y0 :: ys) x = if x ≤ x0 then y0 else Model.interp.go x x0 y0 xs ys := by
  simp only [Model.interp]
  exact if_congr (by simp) rfl rfl

theorem go_cons (x xa ya xb yb : ℝ) (xs ys : List ℝ) :
    Model.interp.go x xa ya (xb :: xs) (yb :: ys)
      = if x ≤ xb then (if x = xb then yb else ya + (yb - ya) / (xb - xa) * (x - xa))
        else Model.interp.go x xb yb xs ys := by
  simp only [Model.interp.go]
  exact if_congr (by simp) (if_congr (by simp) rfl rfl) rfl

theorem go_nil (x xa ya : ℝ) : Model.interp.go x xa ya [] [] = ya := by
  simp only [Model.interp.go]

theorem pw_head_lt {xa : ℝ} {xs : List ℝ} (h : (xa :: xs).Pairwise (· < ·)) (j : ℕ) (hj : j < xs.length) :
    xa < xs.getD j 0 := by
  rw [List.pairwise_cons] at h
  refine h.1 _ ?_
  have e : xs.getD j 0 = xs[j] := by
    simp [List.getD_eq_getElem?_getD, List.getElem?_eq_getElem hj]
  rw [e]
  exact List.getElem_mem hj

theorem pw_head_lt_last {xa : ℝ} {xs : List ℝ} (h : (xa :: xs).Pairwise (· < ·)) (hne : xs ≠ []) :
    xa < xs.getLastD xa := by
  rw [List.getLastD_eq_getLast?, List.getLast?_eq_some_getLast hne, Option.getD_some]
  exact (List.pairwise_cons.mp h).1 _ (List.getLast_mem hne)

theorem go_at_grid (x : ℝ) : ∀ (xs ys : List ℝ) (xa ya : ℝ) (j : ℕ), xs.length = ys.length →
    (xa :: xs).Pairwise (· < ·) → j < xs.length → x = xs.getD j 0 →
    Model.interp.go x xa ya xs ys = ys.getD j 0
  | [], _, _, _, _, _, _, hj, _ => by simp at hj
  | _ :: _, [], _, _, _, hl, _, _, _ => by simp at hl
  | xb :: xs, yb :: ys, xa, ya, 0, _, _, _, hx => by
    simp only [List.getD_cons_zero] at hx ⊢
    rw [go_cons, if_pos hx.le, if_pos hx]
  | xb :: xs, yb :: ys, xa, ya, j + 1, hl, hs, hj, hx => by
    simp only [List.getD_cons_succ, List.length_cons, Nat.add_lt_add_iff_right, Nat.add_right_cancel_iff] at hx hl hj ⊢
    have hs' := (List.pairwise_cons.mp hs).2
    have hlt : xb < x := hx ▸ pw_head_lt hs' j hj
    rw [go_cons, if_neg (not_le.mpr hlt)]
    exact go_at_grid x xs ys xb yb j hl hs' hj hx

theorem go_clamp_right (x : ℝ) : ∀ (xs ys : List ℝ) (xa ya : ℝ), xs.length = ys.length →
    (xa :: xs).Pairwise (· < ·) → xs.getLastD xa ≤ x →
    Model.interp.go x xa ya xs ys = ys.getLastD ya
  | [], [], _, _, _, _, _ => by simp [go_nil]
  | [], _ :: _, _, _, hl, _, _ => by simp at hl
  | _ :: _, [], _, _, hl, _, _ => by simp at hl
  | xb :: xs, yb :: ys, xa, ya, hl, hs, hx => by
    simp only [List.getLastD_cons, List.length_cons, Nat.add_right_cancel_iff] at hx hl ⊢
    have hs' := (List.pairwise_cons.mp hs).2
    rw [go_cons]
    by_cases hle : x ≤ xb
    · -- then `xb` is the last node and `x = xb`
      cases xs with
      | nil =>
        cases ys with
        | nil =>
          simp only [List.getLastD_nil] at hx ⊢
          rw [if_pos hle, if_pos (le_antisymm hle hx)]
        | cons _ _ => simp at hl
      | cons xc xs =>
        exfalso
        have h1 : xb < (xc :: xs).getLastD xb := pw_head_lt_last hs' (by simp)
        linarith
    · rw [if_neg hle]
      exact go_clamp_right x xs ys xb yb hl hs' hx

theorem go_between (x : ℝ) : ∀ (xs ys : List ℝ) (xa ya : ℝ) (j : ℕ), xs.length = ys.length →
    (xa :: xs).Pairwise (· < ·) → j < xs.length → (xa :: xs).getD j 0 < x → x < xs.getD j 0 →
    Model.interp.go x xa ya xs ys
      = (ya :: ys).getD j 0 + (ys.getD j 0 - (ya :: ys).getD j 0) / (xs.getD j 0 - (xa :: xs).getD j 0)
          * (x - (xa :: xs).getD j 0)
  | [], _, _, _, _, _, _, hj, _, _ => by simp at hj
  | _ :: _, [], _, _, _, hl, _, _, _, _ => by simp at hl
  | xb :: xs, yb :: ys, xa, ya, 0, _, _, _, h1, h2 => by
    simp only [List.getD_cons_zero] at h1 h2 ⊢
    rw [go_cons, if_pos h2.le, if_neg h2.ne]
  | xb :: xs, yb :: ys, xa, ya, j + 1, hl, hs, hj, h1, h2 => by
    simp only [List.getD_cons_succ, List.length_cons, Nat.add_lt_add_iff_right, Nat.add_right_cancel_iff] at h1 h2 hl hj ⊢
    have hs' := (List.pairwise_cons.mp hs).2
    have hlt : xb < x := by
      cases j with
      | zero => simpa using h1
      | succ k =>
        simp only [List.getD_cons_succ] at h1
        have := pw_head_lt hs' k (by omega)
        linarith
    rw [go_cons, if_neg (not_le.mpr hlt)]
    exact go_between x xs ys xb yb j hl hs' hj h1 h2

end RmsAux

/-- `np.interp`: tabulated value at a grid point, clamped outside, affine between neighbours -/
theorem interp_at_grid (xp fp : List ℝ) (hlen : xp.length = fp.length) (hs : xp.Pairwise (· < ·)) (i : ℕ) (hi : i < xp.length) :
    Model.interp xp fp (xp.getD i 0) = fp.getD i 0 := by
  match xp, fp, hlen, hs, i, hi with
  | [], _, _, _, _, hi => simp at hi
  | _ :: _, [], hlen, _, _, _ => simp at hlen
  | x0 :: xs, y0 :: ys, _, _, 0, _ =>
    simp only [List.getD_cons_zero]
    rw [interp_cons, if_pos (le_refl _)]
  | x0 :: xs, y0 :: ys, hlen, hs, j + 1, hi =>
    simp only [List.getD_cons_succ, List.length_cons, Nat.add_lt_add_iff_right, Nat.add_right_cancel_iff] at hlen hi ⊢
    rw [interp_cons, if_neg (not_le.mpr (pw_head_lt hs j hi))]
    exact go_at_grid _ xs ys x0 y0 j hlen hs hi rfl

theorem interp_clamp_left (xp fp : List ℝ) (hlen : xp.length = fp.length) (hne : xp ≠ []) (x : ℝ) (hx : x ≤ xp.headD 0) :
    Model.interp xp fp x = fp.headD 0 := by
  match xp, fp, hlen, hne, hx with
  | [], _, _, hne, _ => exact absurd rfl hne
  | _ :: _, [], hlen, _, _ => simp at hlen
  | x0 :: xs, y0 :: ys, _, _, hx =>
    simp only [List.headD_cons] at hx ⊢
    rw [interp_cons, if_pos hx]

theorem interp_clamp_right (xp fp : List ℝ) (hlen : xp.length = fp.length) (hne : xp ≠ []) (hs : xp.Pairwise (· < ·)) (x : ℝ)
    (hx : xp.getLastD 0 ≤ x) : Model.interp xp fp x = fp.getLastD 0 := by
  match xp, fp, hlen, hne, hs, hx with
  | [], _, _, hne, _, _ => exact absurd rfl hne
  | _ :: _, [], hlen, _, _, _ => simp at hlen
  | x0 :: xs, y0 :: ys, hlen, _, hs, hx =>
    simp only [List.getLastD_cons, List.length_cons, Nat.add_right_cancel_iff] at hx hlen ⊢
    rw [interp_cons]
    by_cases hle : x ≤ x0
    · rw [if_pos hle]
      cases xs with
      | nil =>
        cases ys with
        | nil => simp
        | cons _ _ => simp at hlen
      | cons xc xs =>
        exfalso
        have h1 : x0 < (xc :: xs).getLastD x0 := pw_head_lt_last hs (by simp)
        linarith
    · rw [if_neg hle]
      exact go_clamp_right x xs ys x0 y0 hlen hs hx

theorem interp_between (xp fp : List ℝ) (hlen : xp.length = fp.length) (hs : xp.Pairwise (· < ·)) (i : ℕ) (hi : i + 1 < xp.length)
    (x : ℝ) (h1 : xp.getD i 0 < x) (h2 : x < xp.getD (i+1) 0) :
    Model.interp xp fp x = fp.getD i 0 + (fp.getD (i+1) 0 - fp.getD i 0) / (xp.getD (i+1) 0 - xp.getD i 0) * (x - xp.getD i 0) := by
  match xp, fp, hlen, hs, hi, h1, h2 with
  | [], _, _, _, hi, _, _ => simp at hi
  | _ :: _, [], hlen, _, _, _, _ => simp at hlen
  | x0 :: xs, y0 :: ys, hlen, hs, hi, h1, h2 =>
    simp only [List.getD_cons_succ, List.length_cons, Nat.add_lt_add_iff_right, Nat.add_right_cancel_iff] at hlen hi h2 ⊢
    have hlt : x0 < x := by
      cases i with
      | zero => simpa using h1
      | succ k =>
        simp only [List.getD_cons_succ] at h1
        have := pw_head_lt hs k (by omega)
        linarith
    rw [interp_cons, if_neg (not_le.mpr hlt)]
    exact go_between x xs ys x0 y0 i hlen hs hi h1 h2

#print axioms trapz_sq_nonneg
#print axioms trapz_append
#print axioms integralRms_spec
#print axioms integralRms_none
#print axioms rms_monotone
#print axioms rms_additive_at_grid
#print axioms rms_superadditive
#print axioms detrend0_sum_zero
#print axioms detrend0_const
#print axioms detrend0_idem
#print axioms interp_at_grid
#print axioms interp_clamp_left
#print axioms interp_clamp_right
#print axioms interp_between
