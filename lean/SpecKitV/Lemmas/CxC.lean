/-
  SpecKitV.Lemmas.CxC — the model's complex pairs `Cx ℝ` are Mathlib's `ℂ`.
-/
import SpecKitV.RealInst
import Mathlib.Analysis.Complex.Basic

namespace Cx

/-- view a model complex pair as a Mathlib complex number -/
def toC (z : Cx ℝ) : ℂ := ⟨z.re, z.im⟩

@[simp] theorem toC_re (z : Cx ℝ) : (toC z).re = z.re := rfl
@[simp] theorem toC_im (z : Cx ℝ) : (toC z).im = z.im := rfl
@[simp] theorem toC_mk (a b : ℝ) : toC ⟨a, b⟩ = ⟨a, b⟩ := rfl

theorem toC_injective : Function.Injective toC := by
  intro a b h
  cases a; cases b
  simp only [toC, Complex.mk.injEq] at h
  simp [h.1, h.2]

@[simp] theorem toC_add (a b : Cx ℝ) : toC (a + b) = toC a + toC b := by
  apply Complex.ext <;> simp [HAdd.hAdd, Add.add, Cx.add]

@[simp] theorem toC_sub (a b : Cx ℝ) : toC (a - b) = toC a - toC b := by
  apply Complex.ext <;> simp [HSub.hSub, Sub.sub, Cx.sub]

@[simp] theorem toC_mul (a b : Cx ℝ) : toC (a * b) = toC a * toC b := by
  apply Complex.ext <;> simp [HMul.hMul, Mul.mul, Cx.mul] <;> rfl

@[simp] theorem toC_conj (a : Cx ℝ) : toC (Cx.conj a) = (starRingEnd ℂ) (toC a) := by
  apply Complex.ext <;> simp [Cx.conj]

@[simp] theorem toC_ofReal (a : ℝ) : toC (Cx.ofReal a) = (a : ℂ) := by
  apply Complex.ext <;> simp [Cx.ofReal]

theorem normSq_eq (a : Cx ℝ) : Cx.normSq a = Complex.normSq (toC a) := by
  simp [Cx.normSq, Complex.normSq_apply]

theorem abs_eq (a : Cx ℝ) : Cx.abs a = ‖toC a‖ := by
  rw [Cx.abs, normSq_eq, RL.sqrt_eq, Complex.norm_def]

@[simp] theorem toC_smul (c : ℝ) (a : Cx ℝ) : toC (Cx.smul c a) = (c : ℂ) * toC a := by
  apply Complex.ext <;> simp [Cx.smul]

@[simp] theorem toC_divReal (a : Cx ℝ) (c : ℝ) : toC (Cx.divReal a c) = toC a / (c : ℂ) := by
  apply Complex.ext
  · simp [Cx.divReal, Complex.div_re, Complex.normSq_apply]
    by_cases hc : c = 0
    · simp [hc]
    · field_simp
  · simp [Cx.divReal, Complex.div_im, Complex.normSq_apply]
    by_cases hc : c = 0
    · simp [hc]
    · field_simp

end Cx
