/-
  SpecKitV.Lemmas.Taps — the closed-form fractional-delay taps `Model.tap h d k` are exactly the
  Lagrange basis weights on the `2h` nodes `-(h-1), …, h`, evaluated at `d`, for every `h ≥ 1`.
-/
import SpecKitV.RealInst
import SpecKitV.Model.TimeShift
import Mathlib.LinearAlgebra.Lagrange

open Finset

/-- position of tap `k` relative to the interpolation origin: `k - (h-1)` -/
noncomputable def tapNode (h k : ℕ) : ℝ := (k : ℝ) - ((h : ℝ) - 1)

namespace TapsAux

/-- the Lagrange weight of node `k` among the `2h` nodes, evaluated at `d` -/
noncomputable def lag (h : ℕ) (d : ℝ) (k : ℕ) : ℝ :=
  ∏ m ∈ (range (2 * h)).erase k, (d - tapNode h m) / (tapNode h k - tapNode h m)

/-! ### generic product bookkeeping -/

theorem prod_erase_range (n k : ℕ) (hk : k < n) (f : ℕ → ℝ) :
    ∏ m ∈ (range n).erase k, f m
      = (∏ m ∈ range k, f m) * ∏ i ∈ range (n - 1 - k), f (k + 1 + i) := by
  have h1 : ∏ m ∈ (range n).erase k, f m
      = ∏ m ∈ (range n).erase k, (if m = k then 1 else f m) := by
    apply prod_congr rfl
    intro m hm
    rw [if_neg (ne_of_mem_erase hm)]
  rw [h1, prod_erase _ (by simp)]
  have hn : n = (k + 1) + (n - 1 - k) := by omega
  conv_lhs => rw [hn]
  rw [prod_range_add, prod_range_succ]
  simp only [if_true, mul_one]
  congr 1
  · apply prod_congr rfl
    intro m hm
    rw [if_neg (by have := mem_range.mp hm; omega)]
  · apply prod_congr rfl
    intro i _
    rw [if_neg (by omega)]

/-- `k · (k-1) ⋯ 1` -/
noncomputable def fa (k : ℕ) : ℝ := ∏ m ∈ range k, ((k : ℝ) - m)
/-- `(-1)(-2) ⋯ (-n)` -/
noncomputable def fb (n : ℕ) : ℝ := ∏ i ∈ range n, (-(1 + (i : ℝ)))

theorem fa_succ (k : ℕ) : fa (k + 1) = ((k : ℝ) + 1) * fa k := by
  unfold fa
  rw [prod_range_succ', mul_comm]
  congr 1
  · push_cast; ring
  · apply prod_congr rfl
    intro m _
    push_cast; ring

theorem fb_succ (n : ℕ) : fb (n + 1) = fb n * (-((n : ℝ) + 1)) := by
  unfold fb
  rw [prod_range_succ]
  congr 1
  ring

theorem fa_ne (k : ℕ) : fa k ≠ 0 := by
  unfold fa
  rw [prod_ne_zero_iff]
  intro m hm
  have : (m : ℝ) < k := by exact_mod_cast mem_range.mp hm
  linarith

theorem fb_ne (n : ℕ) : fb n ≠ 0 := by
  unfold fb
  rw [prod_ne_zero_iff]
  intro i _
  have : (0 : ℝ) ≤ i := Nat.cast_nonneg i
  linarith

/-- the Lagrange denominator of node `k` -/
noncomputable def den (h k : ℕ) : ℝ :=
  ∏ m ∈ (range (2 * h)).erase k, (tapNode h k - tapNode h m)

/-- the full nodal product `∏ (d - node m)` -/
noncomputable def nod (h : ℕ) (d : ℝ) : ℝ := ∏ m ∈ range (2 * h), (d - tapNode h m)

theorem den_eq (h k : ℕ) (hk : k < 2 * h) : den h k = fa k * fb (2 * h - 1 - k) := by
  unfold den
  rw [prod_erase_range _ _ hk]
  unfold fa fb
  congr 1
  · apply prod_congr rfl
    intro m _
    simp only [tapNode]; ring
  · apply prod_congr rfl
    intro i _
    simp only [tapNode]; push_cast; ring

theorem den_ne (h k : ℕ) (hk : k < 2 * h) : den h k ≠ 0 := by
  rw [den_eq h k hk]
  exact mul_ne_zero (fa_ne _) (fb_ne _)

theorem lag_mul (h : ℕ) (d : ℝ) (k : ℕ) (hk : k < 2 * h) :
    lag h d k * (d - tapNode h k) = nod h d / den h k := by
  unfold lag nod den
  rw [prod_div_distrib, ← mul_prod_erase (range (2 * h)) _ (mem_range.mpr hk)]
  ring

/-- ratio recurrence between neighbouring Lagrange weights (division-free) -/
theorem lag_rec (h : ℕ) (d : ℝ) (k n : ℕ) (hn : 2 * h = k + 2 + n) :
    lag h d (k + 1) * (d - tapNode h (k + 1)) * ((k : ℝ) + 1)
      = -(lag h d k * (d - tapNode h k) * ((n : ℝ) + 1)) := by
  have hk : k < 2 * h := by omega
  have hk1 : k + 1 < 2 * h := by omega
  rw [lag_mul h d (k + 1) hk1, lag_mul h d k hk]
  have e1 : den h (k + 1) = ((k : ℝ) + 1) * fa k * fb n := by
    rw [den_eq h (k + 1) hk1, fa_succ]
    have : 2 * h - 1 - (k + 1) = n := by omega
    rw [this]
  have e2 : den h k = fa k * (fb n * (-((n : ℝ) + 1))) := by
    rw [den_eq h k hk]
    have : 2 * h - 1 - k = n + 1 := by omega
    rw [this, fb_succ]
  rw [e1, e2]
  have h1 := fa_ne k
  have h2 := fb_ne n
  have h3 : ((k : ℝ) + 1) ≠ 0 := by positivity
  have h4 : ((n : ℝ) + 1) ≠ 0 := by positivity
  field_simp

/-! ### the code side -/

/-- the common factor applied to every tap for `h ≥ 2` -/
noncomputable def cc (h : ℕ) (d : ℝ) : ℝ :=
  (∏ i ∈ range (h - 2), (1 - (d / ((i : ℝ) + 2)) * (d / ((i : ℝ) + 2))))
    * ((1 + d) * (1 - d / (h : ℝ)))

theorem forRange_mul_prod (n : ℕ) (t : ℝ) (g : ℕ → ℝ) :
    forRange n t (fun i acc => acc * g i) = t * ∏ i ∈ range n, g i := by
  induction n with
  | zero => simp [forRange_zero]
  | succ m ih => rw [forRange_succ, ih, prod_range_succ, mul_assoc]

theorem tap_eq_raw_mul (h : ℕ) (hh : h ≠ 1) (d : ℝ) (k : ℕ) :
    Model.tap h d k = Model.tapRaw h d k * cc h d := by
  unfold Model.tap
  rw [if_neg hh]
  simp only [RL.ofNat_eq, RL.one_eq]
  rw [forRange_mul_prod]
  unfold cc
  rw [mul_assoc]
  congr 2
  apply prod_congr rfl
  intro i _
  push_cast
  rfl

theorem tapsFactor_zero (h : ℕ) (d : ℝ) : Model.tapsFactor h d 0 = d * (1 - d) := by
  simp [Model.tapsFactor]

theorem tapsFactor_succ (h : ℕ) (d : ℝ) (j : ℕ) :
    Model.tapsFactor h d (j + 1)
      = Model.tapsFactor h d j
        * (-1 * (1 - ((j : ℝ) + 1) / (h : ℝ)) / (1 + ((j : ℝ) + 1) / (h : ℝ))) := by
  simp [Model.tapsFactor]

/-- raw lower tap at distance `j` below the centre -/
noncomputable def gLow (h : ℕ) (d : ℝ) (j : ℕ) : ℝ :=
  if j = 0 then 1 - d else Model.tapsFactor h d j / ((j : ℝ) + d)

/-- raw upper tap at distance `j` above the node `1` -/
noncomputable def gUp (h : ℕ) (d : ℝ) (j : ℕ) : ℝ :=
  if j = 0 then d else Model.tapsFactor h d j / ((j : ℝ) + 1 - d)

theorem gLow_mul (h : ℕ) (d : ℝ) (hd0 : 0 ≤ d) (j : ℕ) :
    gLow h d j * ((j : ℝ) + d) = Model.tapsFactor h d j := by
  unfold gLow
  split_ifs with hj
  · subst hj; rw [tapsFactor_zero]; push_cast; ring
  · have : (1 : ℝ) ≤ j := by exact_mod_cast Nat.one_le_iff_ne_zero.mpr hj
    have : ((j : ℝ) + d) ≠ 0 := by linarith
    field_simp

theorem gUp_mul (h : ℕ) (d : ℝ) (hd1 : d < 1) (j : ℕ) :
    gUp h d j * ((j : ℝ) + 1 - d) = Model.tapsFactor h d j := by
  unfold gUp
  split_ifs with hj
  · subst hj; rw [tapsFactor_zero]; push_cast; ring
  · have : (0 : ℝ) ≤ j := Nat.cast_nonneg j
    have : ((j : ℝ) + 1 - d) ≠ 0 := by linarith
    field_simp

theorem tapRaw_low (h : ℕ) (d : ℝ) (k j : ℕ) (hkj : h = k + j + 1) :
    Model.tapRaw h d k = gLow h d j := by
  unfold Model.tapRaw gLow
  simp only [RL.ofNat_eq, RL.one_eq]
  by_cases hj : j = 0
  · rw [if_pos (by omega), if_pos hj]
  · rw [if_neg (by omega), if_neg (by omega), if_pos (by omega), if_neg hj]
    have : h - 1 - k = j := by omega
    simp only [this]

theorem tapRaw_up (h : ℕ) (d : ℝ) (k j : ℕ) (hkj : k = h + j) (_hh : 2 ≤ h) :
    Model.tapRaw h d k = gUp h d j := by
  unfold Model.tapRaw gUp
  simp only [RL.ofNat_eq, RL.one_eq]
  by_cases hj : j = 0
  · rw [if_neg (by omega), if_pos (by omega), if_pos hj]
  · rw [if_neg (by omega), if_neg (by omega), if_neg (by omega), if_neg hj]
    have : k - h = j := by omega
    simp only [this]
    push_cast
    rfl

/-! ### anchoring at the central tap -/

theorem prod_low_anchor (d : ℝ) (n : ℕ) :
    ∏ m ∈ range n, ((d + (n : ℝ) - m) / ((n : ℝ) - m))
      = ∏ m ∈ range n, (1 + d / ((m : ℝ) + 1)) := by
  induction n with
  | zero => simp
  | succ n ih =>
    rw [prod_range_succ', prod_range_succ, ← ih]
    congr 1
    · apply prod_congr rfl
      intro m _
      push_cast
      congr 1 <;> ring
    · have : ((n : ℝ) + 1) ≠ 0 := by positivity
      push_cast
      field_simp
      ring

theorem lag_center (n : ℕ) (d : ℝ) :
    lag (n + 2) d (n + 1) = (1 - d) * cc (n + 2) d := by
  unfold lag
  rw [prod_erase_range _ _ (by omega)]
  have e : 2 * (n + 2) - 1 - (n + 1) = n + 2 := by omega
  rw [e]
  have e1 : ∏ m ∈ range (n + 1), (d - tapNode (n + 2) m) / (tapNode (n + 2) (n + 1) - tapNode (n + 2) m)
      = ∏ m ∈ range (n + 1), (1 + d / ((m : ℝ) + 1)) := by
    rw [← prod_low_anchor]
    apply prod_congr rfl
    intro m _
    simp only [tapNode]
    push_cast
    congr 1 <;> ring
  have e2 : ∏ i ∈ range (n + 2), (d - tapNode (n + 2) (n + 1 + 1 + i))
        / (tapNode (n + 2) (n + 1) - tapNode (n + 2) (n + 1 + 1 + i))
      = ∏ i ∈ range (n + 2), (1 - d / ((i : ℝ) + 1)) := by
    apply prod_congr rfl
    intro i _
    simp only [tapNode]
    push_cast
    have : ((i : ℝ) + 1) ≠ 0 := by positivity
    have e3 : ((n : ℝ) + 1 - ((n : ℝ) + 2 - 1) - ((n : ℝ) + 1 + 1 + i - ((n : ℝ) + 2 - 1)))
        = -((i : ℝ) + 1) := by ring
    rw [e3]
    field_simp
    ring
  rw [e1, e2]
  unfold cc
  have e4 : n + 2 - 2 = n := by omega
  rw [e4, prod_range_succ (fun i : ℕ => (1 - d / ((i : ℝ) + 1))) (n + 1), ← mul_assoc,
    ← prod_mul_distrib, prod_range_succ']
  have e5 : ∏ k ∈ range n, (1 + d / (((k + 1 : ℕ) : ℝ) + 1)) * (1 - d / (((k + 1 : ℕ) : ℝ) + 1))
      = ∏ i ∈ range n, (1 - d / ((i : ℝ) + 2) * (d / ((i : ℝ) + 2))) := by
    apply prod_congr rfl
    intro i _
    push_cast
    have : ((i : ℝ) + 1 + 1) = (i : ℝ) + 2 := by ring
    rw [this]
    ring
  rw [e5]
  push_cast
  ring

/-! ### the two outward inductions -/

theorem lag_low (h : ℕ) (d : ℝ) (hd0 : 0 ≤ d) :
    ∀ j k : ℕ, h = k + j + 1 → 2 ≤ h → lag h d k = gLow h d j * cc h d := by
  intro j
  induction j with
  | zero =>
    intro k hk hh
    obtain ⟨n, rfl⟩ : ∃ n, k = n + 1 := ⟨k - 1, by omega⟩
    have : h = n + 2 := by omega
    subst this
    rw [lag_center]
    simp [gLow]
  | succ j ih =>
    intro k hk hh
    have ih' := ih (k + 1) (by omega) hh
    have hrec := lag_rec h d k (k + 2 * j + 2) (by omega)
    rw [ih'] at hrec
    have hg := gLow_mul h d hd0 j
    have hg1 := gLow_mul h d hd0 (j + 1)
    rw [tapsFactor_succ, ← hg] at hg1
    have hhr : (h : ℝ) = (k : ℝ) + j + 2 := by rw [hk]; push_cast; ring
    have t1 : tapNode h (k + 1) = -(j : ℝ) := by simp only [tapNode]; rw [hhr]; push_cast; ring
    have t2 : tapNode h k = -((j : ℝ) + 1) := by simp only [tapNode]; rw [hhr]; ring
    rw [t1, t2] at hrec
    rw [hhr] at hg1
    push_cast at hrec hg1
    have hk0 : (0 : ℝ) ≤ k := Nat.cast_nonneg k
    have hj0 : (0 : ℝ) ≤ j := Nat.cast_nonneg j
    have p1 : ((k : ℝ) + j + 2) ≠ 0 := by positivity
    have p2 : ((k : ℝ) + 2 * j + 2 + 1) ≠ 0 := by positivity
    have p3 : (d - -((j : ℝ) + 1)) ≠ 0 := by
      have : 0 < d - -((j : ℝ) + 1) := by linarith
      exact ne_of_gt this
    have p4 : (1 + ((j : ℝ) + 1) / ((k : ℝ) + j + 2)) ≠ 0 := by
      have : 0 ≤ ((j : ℝ) + 1) / ((k : ℝ) + j + 2) := by positivity
      linarith
    -- solve both relations for the unknowns
    have hA : lag h d k * ((d - -((j : ℝ) + 1)) * ((k : ℝ) + 2 * j + 2 + 1))
        = -(gLow h d j * cc h d * (d - -(j : ℝ)) * ((k : ℝ) + 1)) := by linarith
    have hB : gLow h d (j + 1) * cc h d * ((d - -((j : ℝ) + 1)) * ((k : ℝ) + 2 * j + 2 + 1))
        = -(gLow h d j * cc h d * (d - -(j : ℝ)) * ((k : ℝ) + 1)) := by
      have hg2 : gLow h d (j + 1) * ((j : ℝ) + 1 + d) * ((k : ℝ) + 2 * j + 2 + 1)
          = -(gLow h d j * ((j : ℝ) + d) * ((k : ℝ) + 1)) := by
        rw [hg1]
        field_simp
        ring
      linear_combination (cc h d) * hg2
    have hne : ((d - -((j : ℝ) + 1)) * ((k : ℝ) + 2 * j + 2 + 1)) ≠ 0 := mul_ne_zero p3 p2
    exact mul_right_cancel₀ hne (hA.trans hB.symm)

theorem lag_up (h : ℕ) (d : ℝ) (_hd0 : 0 ≤ d) (hd1 : d < 1) :
    ∀ j n : ℕ, h = j + n + 1 → 2 ≤ h → lag h d (h + j) = gUp h d j * cc h d := by
  intro j
  induction j with
  | zero =>
    intro n hn hh
    obtain ⟨m, rfl⟩ : ∃ m, n = m + 1 := ⟨n - 1, by omega⟩
    have hm : h = m + 2 := by omega
    subst hm
    have hrec := lag_rec (m + 2) d (m + 1) (m + 1) (by omega)
    rw [lag_center] at hrec
    have t1 : tapNode (m + 2) (m + 1 + 1) = 1 := by simp only [tapNode]; push_cast; ring
    have t2 : tapNode (m + 2) (m + 1) = 0 := by simp only [tapNode]; push_cast; ring
    rw [t1, t2] at hrec
    push_cast at hrec
    have p1 : ((m : ℝ) + 1 + 1) ≠ 0 := by positivity
    have p2 : (d - 1) ≠ 0 := by linarith
    have hne : ((d - 1) * ((m : ℝ) + 1 + 1)) ≠ 0 := mul_ne_zero p2 p1
    simp only [gUp, if_true, Nat.add_zero]
    apply mul_right_cancel₀ hne
    linear_combination hrec
  | succ j ih =>
    intro n hn hh
    have ih' := ih (n + 1) (by omega) hh
    have hrec := lag_rec h d (h + j) n (by omega)
    rw [ih'] at hrec
    have hg := gUp_mul h d hd1 j
    have hg1 := gUp_mul h d hd1 (j + 1)
    rw [tapsFactor_succ, ← hg] at hg1
    have hhr : (h : ℝ) = (j : ℝ) + n + 2 := by rw [hn]; push_cast; ring
    have t1 : tapNode h (h + j + 1) = (j : ℝ) + 2 := by simp only [tapNode]; push_cast; ring
    have t2 : tapNode h (h + j) = (j : ℝ) + 1 := by simp only [tapNode]; push_cast; ring
    rw [t1, t2] at hrec
    push_cast at hrec hg1
    rw [hhr] at hrec hg1
    have hn0 : (0 : ℝ) ≤ n := Nat.cast_nonneg n
    have hj0 : (0 : ℝ) ≤ j := Nat.cast_nonneg j
    have p1 : ((j : ℝ) + n + 2) ≠ 0 := by positivity
    have p2 : ((j : ℝ) + n + 2 + j + 1) ≠ 0 := by positivity
    have p3 : (d - ((j : ℝ) + 2)) ≠ 0 := by
      have : d - ((j : ℝ) + 2) < 0 := by linarith
      exact ne_of_lt this
    have p4 : (1 + ((j : ℝ) + 1) / ((j : ℝ) + n + 2)) ≠ 0 := by
      have : 0 ≤ ((j : ℝ) + 1) / ((j : ℝ) + n + 2) := by positivity
      linarith
    have hA : lag h d (h + (j + 1)) * ((d - ((j : ℝ) + 2)) * ((j : ℝ) + n + 2 + j + 1))
        = -(gUp h d j * cc h d * (d - ((j : ℝ) + 1)) * ((n : ℝ) + 1)) := by
      rw [← add_assoc]; linarith
    have hB : gUp h d (j + 1) * cc h d * ((d - ((j : ℝ) + 2)) * ((j : ℝ) + n + 2 + j + 1))
        = -(gUp h d j * cc h d * (d - ((j : ℝ) + 1)) * ((n : ℝ) + 1)) := by
      have hg2 : gUp h d (j + 1) * ((j : ℝ) + 1 + 1 - d) * ((j : ℝ) + n + 2 + j + 1)
          = -(gUp h d j * ((j : ℝ) + 1 - d) * ((n : ℝ) + 1)) := by
        rw [hg1]
        field_simp
        ring
      linear_combination (-(cc h d)) * hg2
    have hne : ((d - ((j : ℝ) + 2)) * ((j : ℝ) + n + 2 + j + 1)) ≠ 0 := mul_ne_zero p3 p2
    exact mul_right_cancel₀ hne (hA.trans hB.symm)

theorem tapNode_injOn (h : ℕ) (s : Set ℕ) : Set.InjOn (tapNode h) s := by
  intro a _ b _ hab
  simp only [tapNode, sub_left_inj] at hab
  exact_mod_cast hab

theorem lag_eq_eval_basis (h : ℕ) (d : ℝ) (k : ℕ) :
    lag h d k = Polynomial.eval d (Lagrange.basis (range (2 * h)) (tapNode h) k) := by
  unfold lag Lagrange.basis
  rw [Polynomial.eval_prod]
  apply prod_congr rfl
  intro m _
  simp [Lagrange.basisDivisor, div_eq_inv_mul]

end TapsAux

open TapsAux

theorem tap_eq_lagrange (h : ℕ) (hh : 1 ≤ h) (d : ℝ) (hd0 : 0 ≤ d) (hd1 : d < 1) (k : ℕ) (hk : k < 2 * h) :
    Model.tap h d k
      = ∏ m ∈ (Finset.range (2 * h)).erase k, (d - tapNode h m) / (tapNode h k - tapNode h m) := by
  change Model.tap h d k = lag h d k
  rcases Nat.eq_or_lt_of_le hh with h1 | h2
  · subst h1
    have hk' : k = 0 ∨ k = 1 := by omega
    rcases hk' with rfl | rfl
    · have : (range (2 * 1)).erase 0 = {1} := by decide
      simp [Model.tap, lag, this, tapNode]
      ring
    · have : (range (2 * 1)).erase 1 = {0} := by decide
      simp [Model.tap, lag, this, tapNode]
  · have h2' : 2 ≤ h := h2
    rw [tap_eq_raw_mul h (by omega)]
    by_cases hlow : k + 1 ≤ h
    · rw [tapRaw_low h d k (h - 1 - k) (by omega)]
      exact (lag_low h d hd0 (h - 1 - k) k (by omega) h2').symm
    · have hkk : k = h + (k - h) := by omega
      rw [tapRaw_up h d k (k - h) hkk h2']
      have := lag_up h d hd0 hd1 (k - h) (2 * h - 1 - k) (by omega) h2'
      rw [← hkk] at this
      exact this.symm

theorem taps_sum_one (h : ℕ) (hh : 1 ≤ h) (d : ℝ) (hd0 : 0 ≤ d) (hd1 : d < 1) :
    ∑ k ∈ Finset.range (2 * h), Model.tap h d k = 1 := by
  have e : ∑ k ∈ Finset.range (2 * h), Model.tap h d k
      = ∑ k ∈ Finset.range (2 * h),
          Polynomial.eval d (Lagrange.basis (range (2 * h)) (tapNode h) k) := by
    apply sum_congr rfl
    intro k hk
    rw [tap_eq_lagrange h hh d hd0 hd1 k (mem_range.mp hk)]
    exact lag_eq_eval_basis h d k
  rw [e, ← Polynomial.eval_finsetSum,
    Lagrange.sum_basis (tapNode_injOn h _) ⟨0, mem_range.mpr (by omega)⟩, Polynomial.eval_one]

/-- the taps reproduce every polynomial of degree ≤ 2h-1 exactly -/
theorem taps_reproduce_poly (h : ℕ) (hh : 1 ≤ h) (d : ℝ) (hd0 : 0 ≤ d) (hd1 : d < 1)
    (p : Polynomial ℝ) (hp : p.natDegree < 2 * h) :
    ∑ k ∈ Finset.range (2 * h), Model.tap h d k * p.eval (tapNode h k) = p.eval d := by
  have hdeg : p.degree < ((range (2 * h)).card : WithBot ℕ) := by
    rw [card_range]
    exact lt_of_le_of_lt Polynomial.degree_le_natDegree (by exact_mod_cast hp)
  have hint := Lagrange.eq_interpolate (s := range (2 * h)) (v := tapNode h) (f := p)
    (tapNode_injOn h _) hdeg
  conv_rhs => rw [hint]
  rw [Lagrange.interpolate_apply, Polynomial.eval_finsetSum]
  apply sum_congr rfl
  intro k hk
  rw [Polynomial.eval_mul, Polynomial.eval_C, tap_eq_lagrange h hh d hd0 hd1 k (mem_range.mp hk)]
  change lag h d k * _ = _
  rw [lag_eq_eval_basis, mul_comm]

theorem tap_at_zero (h : ℕ) (hh : 1 ≤ h) (k : ℕ) (hk : k < 2 * h) :
    Model.tap h (0 : ℝ) k = if k + 1 = h then 1 else 0 := by
  rw [tap_eq_lagrange h hh 0 le_rfl one_pos k hk]
  change lag h 0 k = _
  rw [lag_eq_eval_basis]
  have hz : tapNode h (h - 1) = (0 : ℝ) := by
    simp only [tapNode]
    rw [Nat.cast_sub hh]
    push_cast; ring
  have hmem : h - 1 ∈ range (2 * h) := mem_range.mpr (by omega)
  split_ifs with hkh
  · have hk1 : k = h - 1 := by omega
    have := Lagrange.eval_basis_self (v := tapNode h) (tapNode_injOn h _) hmem
    rw [hz] at this
    rw [hk1]
    exact this
  · have hne : k ≠ h - 1 := by omega
    have := Lagrange.eval_basis_of_ne (v := tapNode h) hne hmem
    rw [hz] at this
    exact this

#print axioms tap_eq_lagrange
#print axioms taps_sum_one
#print axioms taps_reproduce_poly
#print axioms tap_at_zero
