/-
  SpecKitV.Lemmas.FftNoise — the FFT noise synthesiser's spectrum (`Model.fftnoiseSpectrum`):
  Hermitian symmetry, real DC/Nyquist, prescribed magnitudes, zero bins, realness of the inverse DFT;
  symmetry of the band mask on the two-sided FFT frequency grid; log-equispaced corner frequencies
  of the 1/f^alpha filter cascade.
-/
import SpecKitV.RealInst
import SpecKitV.Lemmas.CxC
import SpecKitV.Model.Noise
import Mathlib.Analysis.SpecialFunctions.Trigonometric.Basic
import Mathlib.Algebra.BigOperators.Intervals
open Finset

/-! ### case analysis of `fftnoiseSpectrum` -/

theorem fftnoiseSpectrum_dc (f rot : ℕ → Cx ℝ) (N : ℕ) :
    Model.fftnoiseSpectrum f rot N 0 = Cx.ofReal (f 0).re := by
  simp only [Model.fftnoiseSpectrum, if_true]

theorem fftnoiseSpectrum_nyquist (f rot : ℕ → Cx ℝ) (N : ℕ) (hN : 2 ≤ N) (hev : N % 2 = 0) :
    Model.fftnoiseSpectrum f rot N (N / 2) = Cx.ofReal (f (N / 2)).re := by
  have h1 : N / 2 ≠ 0 := by omega
  simp only [Model.fftnoiseSpectrum, if_neg h1, hev, and_self, if_true]

theorem fftnoiseSpectrum_pos (f rot : ℕ → Cx ℝ) (N k : ℕ) (hk0 : 0 < k) (hk : k ≤ (N - 1) / 2) :
    Model.fftnoiseSpectrum f rot N k = f k * rot (k - 1) := by
  have h1 : k ≠ 0 := by omega
  have h2 : ¬ (N % 2 = 0 ∧ k = N / 2) := by omega
  simp only [Model.fftnoiseSpectrum, if_neg h1, if_neg h2, if_pos hk]

theorem fftnoiseSpectrum_neg (f rot : ℕ → Cx ℝ) (N k : ℕ) (hk0 : 0 < k) (hk : k ≤ (N - 1) / 2) :
    Model.fftnoiseSpectrum f rot N (N - k) = Cx.conj (f k * rot (k - 1)) := by
  have h1 : N - k ≠ 0 := by omega
  have h2 : ¬ (N % 2 = 0 ∧ N - k = N / 2) := by omega
  have h3 : ¬ (N - k ≤ (N - 1) / 2) := by omega
  have h4 : N - (N - k) = k := by omega
  simp only [Model.fftnoiseSpectrum, if_neg h1, if_neg h2, if_neg h3, h4]

/-- for `0 < k < N` exactly one of the three regimes applies -/
theorem fftnoise_cases (N k : ℕ) (hk0 : 0 < k) (hk : k < N) :
    k ≤ (N - 1) / 2 ∨ (N % 2 = 0 ∧ k = N / 2) ∨ (0 < N - k ∧ N - k ≤ (N - 1) / 2) := by
  omega

/-! ### Hermitian symmetry, realness, magnitudes -/

/-- Hermitian symmetry: F(N−k) = conj F(k) for 0 < k < N -/
theorem fftnoise_hermitian (f rot : ℕ → Cx ℝ) (N k : ℕ) (hN : 2 ≤ N) (hk0 : 0 < k) (hk : k < N) :
    Cx.toC (Model.fftnoiseSpectrum f rot N (N - k)) =
      (starRingEnd ℂ) (Cx.toC (Model.fftnoiseSpectrum f rot N k)) := by
  rcases fftnoise_cases N k hk0 hk with h | ⟨hev, h⟩ | ⟨h0, h⟩
  · rw [fftnoiseSpectrum_neg f rot N k hk0 h, fftnoiseSpectrum_pos f rot N k hk0 h, Cx.toC_conj]
  · have h' : N - k = k := by omega
    rw [h', h, fftnoiseSpectrum_nyquist f rot N hN hev, Cx.toC_ofReal, Complex.conj_ofReal]
  · have h' : N - (N - k) = k := by omega
    have := fftnoiseSpectrum_neg f rot N (N - k) h0 h
    rw [h'] at this
    rw [this, fftnoiseSpectrum_pos f rot N (N - k) h0 h, Cx.toC_conj, Complex.conj_conj]

/-- DC and Nyquist are real -/
theorem fftnoise_dc_real (f rot : ℕ → Cx ℝ) (N : ℕ) :
    (Model.fftnoiseSpectrum f rot N 0).im = 0 := by
  rw [fftnoiseSpectrum_dc]; simp [Cx.ofReal]

theorem fftnoise_nyquist_real (f rot : ℕ → Cx ℝ) (N : ℕ) (hN : 2 ≤ N) (hev : N % 2 = 0) :
    (Model.fftnoiseSpectrum f rot N (N / 2)).im = 0 := by
  rw [fftnoiseSpectrum_nyquist f rot N hN hev]; simp [Cx.ofReal]

theorem fftnoise_normSq_mul (a b : Cx ℝ) : Cx.normSq (a * b) = Cx.normSq a * Cx.normSq b := by
  rw [Cx.normSq_eq, Cx.normSq_eq, Cx.normSq_eq, Cx.toC_mul, Complex.normSq_mul]

theorem fftnoise_normSq_conj (a : Cx ℝ) : Cx.normSq (Cx.conj a) = Cx.normSq a := by
  rw [Cx.normSq_eq, Cx.normSq_eq, Cx.toC_conj, Complex.normSq_conj]

/-- magnitudes are exactly the prescribed ones on the positive side, mirrored on the negative side -/
theorem fftnoise_magnitude_pos (f rot : ℕ → Cx ℝ) (N k : ℕ) (hk0 : 0 < k) (hk : k ≤ (N - 1) / 2)
    (hrot : ∀ j, Cx.normSq (rot j) = 1) :
    Cx.normSq (Model.fftnoiseSpectrum f rot N k) = Cx.normSq (f k) := by
  rw [fftnoiseSpectrum_pos f rot N k hk0 hk, fftnoise_normSq_mul, hrot, mul_one]

theorem fftnoise_magnitude_neg (f rot : ℕ → Cx ℝ) (N k : ℕ) (hN : 2 ≤ N) (hk0 : 0 < k)
    (hk : k ≤ (N - 1) / 2) (hrot : ∀ j, Cx.normSq (rot j) = 1) :
    Cx.normSq (Model.fftnoiseSpectrum f rot N (N - k)) = Cx.normSq (f k) := by
  rw [fftnoiseSpectrum_neg f rot N k hk0 hk, fftnoise_normSq_conj, fftnoise_normSq_mul, hrot,
    mul_one]

theorem fftnoise_dc_magnitude (f rot : ℕ → Cx ℝ) (N : ℕ) :
    Cx.normSq (Model.fftnoiseSpectrum f rot N 0) = (f 0).re ^ 2 := by
  rw [fftnoiseSpectrum_dc]
  simp only [Cx.normSq, Cx.ofReal, RL.ofNat_eq, Nat.cast_zero, mul_zero, add_zero]
  ring

/-- the Nyquist bin (even N) carries the squared real part of the prescribed entry -/
theorem fftnoise_nyquist_magnitude (f rot : ℕ → Cx ℝ) (N : ℕ) (hN : 2 ≤ N) (hev : N % 2 = 0) :
    Cx.normSq (Model.fftnoiseSpectrum f rot N (N / 2)) = (f (N / 2)).re ^ 2 := by
  rw [fftnoiseSpectrum_nyquist f rot N hN hev]
  simp only [Cx.normSq, Cx.ofReal, RL.ofNat_eq, Nat.cast_zero, mul_zero, add_zero]
  ring

theorem fftnoise_zero_mul (b : Cx ℝ) : (⟨0, 0⟩ : Cx ℝ) * b = ⟨0, 0⟩ := by
  apply Cx.toC_injective
  rw [Cx.toC_mul]
  have : Cx.toC (⟨0, 0⟩ : Cx ℝ) = 0 := by apply Complex.ext <;> simp
  rw [this, zero_mul]

theorem fftnoise_conj_zero : Cx.conj (⟨0, 0⟩ : Cx ℝ) = ⟨0, 0⟩ := by
  simp [Cx.conj]

/-- zero stays zero: a bin whose prescribed magnitude (and its mirror partner's) is zero is exactly
    zero after synthesis -/
theorem fftnoise_zero_bins (f rot : ℕ → Cx ℝ) (N k : ℕ) (hN : 2 ≤ N) (hk : k < N)
    (hz : f k = ⟨0, 0⟩) (hzm : f (N - k) = ⟨0, 0⟩) : Model.fftnoiseSpectrum f rot N k = ⟨0, 0⟩ := by
  rcases Nat.eq_zero_or_pos k with rfl | hk0
  · rw [fftnoiseSpectrum_dc, hz]; simp [Cx.ofReal]
  rcases fftnoise_cases N k hk0 hk with h | ⟨hev, h⟩ | ⟨h0, h⟩
  · rw [fftnoiseSpectrum_pos f rot N k hk0 h, hz, fftnoise_zero_mul]
  · have hz' := hz
    rw [h] at hz' ⊢
    rw [fftnoiseSpectrum_nyquist f rot N hN hev, hz']; simp [Cx.ofReal]
  · have h' : N - (N - k) = k := by omega
    have := fftnoiseSpectrum_neg f rot N (N - k) h0 h
    rw [h'] at this
    rw [this, hzm, fftnoise_zero_mul, fftnoise_conj_zero]

/-! ### inverse DFT of a Hermitian spectrum is real -/

/-- the inverse DFT of a Hermitian spectrum is real -/
theorem hermitian_idft_real (N : ℕ) (hN : 0 < N) (F : ℕ → ℂ) (h0 : (F 0).im = 0)
    (hH : ∀ k, 0 < k → k < N → F (N - k) = (starRingEnd ℂ) (F k)) (n : ℕ) :
    (∑ k ∈ range N,
      F k * Complex.exp (2 * Real.pi * Complex.I * (k : ℂ) * (n : ℂ) / (N : ℂ))).im = 0 := by
  have hN' : (N : ℂ) ≠ 0 := by exact_mod_cast hN.ne'
  have hconj : ∀ k, 0 < k → k < N →
      (starRingEnd ℂ) (F k * Complex.exp (2 * Real.pi * Complex.I * (k : ℂ) * (n : ℂ) / (N : ℂ)))
        = F (N - k) *
          Complex.exp (2 * Real.pi * Complex.I * ((N - k : ℕ) : ℂ) * (n : ℂ) / (N : ℂ)) := by
    intro k hk0 hk
    rw [map_mul, hH k hk0 hk, ← Complex.exp_conj]
    congr 1
    have harg : 2 * (Real.pi : ℂ) * Complex.I * ((N - k : ℕ) : ℂ) * (n : ℂ) / (N : ℂ)
        = (starRingEnd ℂ) (2 * (Real.pi : ℂ) * Complex.I * (k : ℂ) * (n : ℂ) / (N : ℂ))
          + (n : ℂ) * (2 * (Real.pi : ℂ) * Complex.I) := by
      rw [Nat.cast_sub hk.le]
      simp only [map_div₀, map_mul, Complex.conj_ofReal, Complex.conj_I, Complex.conj_natCast,
        map_ofNat]
      field_simp
      ring
    rw [harg, Complex.exp_add, Complex.exp_nat_mul_two_pi_mul_I, mul_one]
  obtain ⟨M, rfl⟩ : ∃ M, N = M + 1 := ⟨N - 1, by omega⟩
  rw [← Complex.conj_eq_iff_im, map_sum]
  simp only [Finset.sum_range_succ']
  congr 1
  · rw [← Finset.sum_range_reflect
      (fun j => F (j + 1) *
        Complex.exp (2 * Real.pi * Complex.I * ((j + 1 : ℕ) : ℂ) * (n : ℂ) / ((M + 1 : ℕ) : ℂ))) M]
    apply Finset.sum_congr rfl
    intro j hj
    have hj' : j < M := Finset.mem_range.mp hj
    rw [hconj (j + 1) (by omega) (by omega)]
    have hidx : M + 1 - (j + 1) = M - 1 - j + 1 := by omega
    rw [hidx]
  · have hF0 : (starRingEnd ℂ) (F 0) = F 0 := Complex.conj_eq_iff_im.mpr h0
    simp [hF0]

/-- hence the synthesised series is real -/
theorem fftnoise_series_real (f rot : ℕ → Cx ℝ) (N : ℕ) (hN : 2 ≤ N) (n : ℕ) :
    (∑ k ∈ range N, Cx.toC (Model.fftnoiseSpectrum f rot N k) *
      Complex.exp (2 * Real.pi * Complex.I * (k : ℂ) * (n : ℂ) / (N : ℂ))).im = 0 :=
  hermitian_idft_real N (by omega) (fun k => Cx.toC (Model.fftnoiseSpectrum f rot N k))
    (by simpa using fftnoise_dc_real f rot N)
    (fun k hk0 hk => fftnoise_hermitian f rot N k hN hk0 hk) n

/-! ### FFT frequency grid and band mask -/

theorem fftfreqAbs_formula (N : ℕ) (fs : ℝ) (k : ℕ) :
    Model.fftfreqAbs N fs k
      = |((if 2 * k < N then (k : ℤ) else (k : ℤ) - (N : ℤ) : ℤ) : ℝ)
          * (1 / ((N : ℝ) * (1 / fs)))| := by
  simp only [Model.fftfreqAbs, RL.abs_eq, RL.ofInt_eq, RL.one_eq, RL.ofNat_eq]

theorem fftfreqAbs_symm (N : ℕ) (fs : ℝ) (hfs : 0 < fs) (k : ℕ) (hk0 : 0 < k) (hk : k < N) :
    Model.fftfreqAbs N fs (N - k) = Model.fftfreqAbs N fs k := by
  rw [fftfreqAbs_formula, fftfreqAbs_formula, abs_mul, abs_mul]
  congr 1
  have hcast : ((N - k : ℕ) : ℤ) = (N : ℤ) - (k : ℤ) := by omega
  have : |(if 2 * (N - k) < N then ((N - k : ℕ) : ℤ) else ((N - k : ℕ) : ℤ) - (N : ℤ))|
      = |(if 2 * k < N then (k : ℤ) else (k : ℤ) - (N : ℤ))| := by
    rw [hcast]
    split_ifs with h1 h2 h2
    · omega
    · rw [← abs_neg]; congr 1; ring
    · rw [← abs_neg]; congr 1; ring
    · have : N = 2 * k := by omega
      congr 1; omega
  rw [← Int.cast_abs, ← Int.cast_abs, this]

/-- band mask is symmetric under k ↦ N−k, so band-limited spectra are Hermitian-compatible -/
theorem bandMask_symm (N : ℕ) (fs lo hi : ℝ) (hfs : 0 < fs) (k : ℕ) (hk0 : 0 < k) (hk : k < N) :
    Model.bandMask N fs lo hi (N - k) = Model.bandMask N fs lo hi k := by
  simp only [Model.bandMask, fftfreqAbs_symm N fs hfs k hk0 hk]

/-- the mask selects exactly the bins whose |frequency| = min(k, N−k)·fs/N lies in the band -/
theorem fftfreqAbs_eq (N : ℕ) (hN : 0 < N) (fs : ℝ) (hfs : 0 < fs) (k : ℕ) (hk : k < N) :
    Model.fftfreqAbs N fs k = (min k (N - k) : ℕ) * fs / N := by
  have hNr : (0 : ℝ) < N := by exact_mod_cast hN
  have hscale : (1 / ((N : ℝ) * (1 / fs))) = fs / N := by field_simp
  have hpos : 0 ≤ fs / (N : ℝ) := by positivity
  rw [fftfreqAbs_formula, hscale, abs_mul, abs_of_nonneg hpos, ← Int.cast_abs]
  have : |(if 2 * k < N then (k : ℤ) else (k : ℤ) - (N : ℤ))| = ((min k (N - k) : ℕ) : ℤ) := by
    split_ifs with h
    · rw [min_eq_left (by omega), abs_of_nonneg (by omega)]
    · rw [min_eq_right (by omega), abs_of_nonpos (by omega)]
      omega
  rw [this, Int.cast_natCast]
  ring

theorem bandMask_iff (N : ℕ) (hN : 0 < N) (fs lo hi : ℝ) (hfs : 0 < fs) (k : ℕ) (hk : k < N) :
    Model.bandMask N fs lo hi k = true ↔
      lo ≤ (min k (N - k) : ℕ) * fs / N ∧ (min k (N - k) : ℕ) * fs / N ≤ hi := by
  simp only [Model.bandMask, fftfreqAbs_eq N hN fs hfs k hk, RL.ge_eq, RL.le_eq, Bool.and_eq_true,
    decide_eq_true_eq]

/-! ### filter design: corner frequencies -/

theorem sectionCorners_fst (fmin fmax alpha : ℝ) (num i : ℕ) :
    (Model.sectionCorners fmin fmax alpha num i).1
      = (10 : ℝ) ^ (Real.logb 10 (2 * Real.pi * fmin)
          + (Real.logb 10 (2 * Real.pi * fmax) - Real.logb 10 (2 * Real.pi * fmin)) / num
            * ((5 : ℝ) / 10 ^ 1) * ((2 * (i : ℝ) + 1) - alpha / 2)) / (2 * Real.pi) := by
  simp [Model.sectionCorners]

theorem sectionCorners_snd (fmin fmax alpha : ℝ) (num i : ℕ) :
    (Model.sectionCorners fmin fmax alpha num i).2
      = (10 : ℝ) ^ (Real.logb 10 (2 * Real.pi * fmin)
          + (Real.logb 10 (2 * Real.pi * fmax) - Real.logb 10 (2 * Real.pi * fmin)) / num
            * ((5 : ℝ) / 10 ^ 1) * ((2 * (i : ℝ) + 1) - alpha / 2)
          + (Real.logb 10 (2 * Real.pi * fmax) - Real.logb 10 (2 * Real.pi * fmin)) / num
            * alpha / 2) / (2 * Real.pi) := by
  simp [Model.sectionCorners]

/-- corner frequencies of the 1/f^alpha cascade are log-equispaced with ratio 10^(dp·alpha/2)
    inside each section -/
theorem sectionCorners_ratio (fmin fmax alpha : ℝ) (num i : ℕ) (hf : 0 < fmin) (hnum : 0 < num) :
    let c := Model.sectionCorners fmin fmax alpha num i
    let dp := (Real.logb 10 (2 * Real.pi * fmax) - Real.logb 10 (2 * Real.pi * fmin)) / num
    c.2 = c.1 * (10 : ℝ) ^ (dp * alpha / 2) := by
  intro c dp
  show (Model.sectionCorners fmin fmax alpha num i).2
    = (Model.sectionCorners fmin fmax alpha num i).1 * (10 : ℝ) ^ (dp * alpha / 2)
  rw [sectionCorners_fst, sectionCorners_snd, Real.rpow_add (by norm_num : (0 : ℝ) < 10)]
  ring

theorem sectionCorners_step (fmin fmax alpha : ℝ) (num i : ℕ) (hf : 0 < fmin) (hnum : 0 < num) :
    let dp := (Real.logb 10 (2 * Real.pi * fmax) - Real.logb 10 (2 * Real.pi * fmin)) / num
    (Model.sectionCorners fmin fmax alpha num (i + 1)).1
      = (Model.sectionCorners fmin fmax alpha num i).1 * (10 : ℝ) ^ dp := by
  intro dp
  rw [sectionCorners_fst, sectionCorners_fst, div_mul_eq_mul_div (c := (10 : ℝ) ^ dp),
    ← Real.rpow_add (by norm_num : (0 : ℝ) < 10)]
  congr 2
  push_cast
  ring

#print axioms fftnoise_hermitian
#print axioms fftnoise_dc_real
#print axioms fftnoise_nyquist_real
#print axioms fftnoise_magnitude_pos
#print axioms fftnoise_magnitude_neg
#print axioms fftnoise_dc_magnitude
#print axioms fftnoise_nyquist_magnitude
#print axioms fftnoise_zero_bins
#print axioms hermitian_idft_real
#print axioms fftnoise_series_real
#print axioms bandMask_symm
#print axioms fftfreqAbs_symm
#print axioms fftfreqAbs_eq
#print axioms bandMask_iff
#print axioms sectionCorners_ratio
#print axioms sectionCorners_step
