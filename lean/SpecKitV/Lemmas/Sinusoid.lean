/-
  SpecKitV.Lemmas.Sinusoid — exact response of the reference estimator's windowed DFT
  (`Model.segDFT`, no detrending) to a pure sinusoid `x n = A cos(ω0 n + φ)`:
  two images of the window transform, the calibration statement (power spectrum `A²/2` up to an
  explicit leakage term), and the reduction of side-lobe leakage to the window transform.
-/
import SpecKitV.RealInst
import SpecKitV.Lemmas.CxC
import SpecKitV.Model.Ref
import Mathlib.Analysis.SpecialFunctions.Trigonometric.Basic
import Mathlib.Analysis.Complex.Trigonometric
open Finset Complex

/-- window transform W(θ) = Σ_{n<L} w n e^{-iθn} -/
noncomputable def winT (w : ℕ → ℝ) (L : ℕ) (θ : ℝ) : ℂ :=
  ∑ n ∈ range L, (w n : ℂ) * Complex.exp (-(θ * n * I))

/-! ### helpers -/

theorem exp_neg_mul_I_re (θ : ℝ) (n : ℕ) :
    (Complex.exp (-((θ : ℂ) * (n : ℂ) * I))).re = Real.cos (θ * n) := by
  have h : -((θ : ℂ) * (n : ℂ) * I) = ((-(θ * n) : ℝ) : ℂ) * I := by push_cast; ring
  rw [h, Complex.exp_ofReal_mul_I_re, Real.cos_neg]

theorem exp_neg_mul_I_im (θ : ℝ) (n : ℕ) :
    (Complex.exp (-((θ : ℂ) * (n : ℂ) * I))).im = -Real.sin (θ * n) := by
  have h : -((θ : ℂ) * (n : ℂ) * I) = ((-(θ * n) : ℝ) : ℂ) * I := by push_cast; ring
  rw [h, Complex.exp_ofReal_mul_I_im, Real.sin_neg]

theorem norm_exp_neg_mul_I (t : ℝ) : ‖Complex.exp (-((t : ℂ) * I))‖ = 1 := by
  have h : -((t : ℂ) * I) = ((-t : ℝ) : ℂ) * I := by push_cast; ring
  rw [h, Complex.norm_exp_ofReal_mul_I]

theorem norm_exp_neg_mul_nat_I (θ : ℝ) (n : ℕ) :
    ‖Complex.exp (-((θ : ℂ) * (n : ℂ) * I))‖ = 1 := by
  have h : -((θ : ℂ) * (n : ℂ) * I) = ((-(θ * n) : ℝ) : ℂ) * I := by push_cast; ring
  rw [h, Complex.norm_exp_ofReal_mul_I]

/-- the model's raw windowed DFT as a complex sum -/
theorem segDFT_raw_toC (Q : ℕ → ℕ → ℝ) (x : ℕ → ℝ) (s L : ℕ) (w : ℕ → ℝ) (ω : ℝ) :
    Cx.toC (Model.segDFT (-1) Q x s L w ω)
      = ∑ n ∈ range L, ((w n * x (s + n) : ℝ) : ℂ) * Complex.exp (-(ω * n * I)) := by
  apply Complex.ext
  · rw [Complex.re_sum]
    simp only [Cx.toC_re, Model.segDFT, Model.detr, sumRange_eq_sum, RL.cos_eq, RL.ofNat_eq,
      Complex.re_ofReal_mul, exp_neg_mul_I_re]
    simp
  · rw [Complex.im_sum]
    simp only [Cx.toC_im, Model.segDFT, Model.detr, sumRange_eq_sum, RL.sin_eq, RL.ofNat_eq,
      RL.zero_eq, Complex.im_ofReal_mul, exp_neg_mul_I_im]
    simp

/-- exact response to x n = A cos(ω0 n + φ): two images of the window transform -/
theorem sinusoid_identity (Q : ℕ → ℕ → ℝ) (A ω0 φ : ℝ) (s L : ℕ) (w : ℕ → ℝ) (ω : ℝ) :
    Cx.toC (Model.segDFT (-1) Q (fun n => A * Real.cos (ω0 * n + φ)) s L w ω)
      = (A / 2 : ℂ) * (Complex.exp ((φ + ω0 * s) * I) * winT w L (ω - ω0)
                       + Complex.exp (-((φ + ω0 * s) * I)) * winT w L (ω + ω0)) := by
  rw [segDFT_raw_toC]
  simp only [winT, Finset.mul_sum, ← Finset.sum_add_distrib]
  apply Finset.sum_congr rfl
  intro n _
  have h1 : Complex.exp (((φ : ℂ) + ω0 * s) * I) * Complex.exp (-(((ω - ω0 : ℝ) : ℂ) * n * I))
      = Complex.exp (((ω0 : ℂ) * ((s : ℂ) + n) + φ) * I) * Complex.exp (-((ω : ℂ) * n * I)) := by
    rw [← Complex.exp_add, ← Complex.exp_add]; congr 1; push_cast; ring
  have h2 : Complex.exp (-(((φ : ℂ) + ω0 * s) * I)) * Complex.exp (-(((ω + ω0 : ℝ) : ℂ) * n * I))
      = Complex.exp (-(((ω0 : ℂ) * ((s : ℂ) + n) + φ) * I)) * Complex.exp (-((ω : ℂ) * n * I)) := by
    rw [← Complex.exp_add, ← Complex.exp_add]; congr 1; push_cast; ring
  have hc : (((w n * (A * Real.cos (ω0 * ((s + n : ℕ) : ℝ) + φ)) : ℝ)) : ℂ)
      = (w n : ℂ) * ((A : ℂ) * ((Complex.exp (((ω0 : ℂ) * ((s : ℂ) + n) + φ) * I)
          + Complex.exp (-(((ω0 : ℂ) * ((s : ℂ) + n) + φ) * I))) / 2)) := by
    push_cast
    rw [Complex.cos]
    ring_nf
  rw [hc]
  linear_combination (-(A / 2 : ℂ) * (w n : ℂ)) * h1 + (-(A / 2 : ℂ) * (w n : ℂ)) * h2

theorem winT_zero (w : ℕ → ℝ) (L : ℕ) : winT w L 0 = ((∑ n ∈ range L, w n : ℝ) : ℂ) := by
  simp [winT]

/-- a non-negative window's transform is largest at θ = 0 -/
theorem winT_le_sum (w : ℕ → ℝ) (L : ℕ) (hw : ∀ n < L, 0 ≤ w n) (θ : ℝ) :
    ‖winT w L θ‖ ≤ ∑ n ∈ range L, w n := by
  unfold winT
  refine (norm_sum_le _ _).trans (le_of_eq ?_)
  apply Finset.sum_congr rfl
  intro n hn
  rw [norm_mul, norm_exp_neg_mul_nat_I, mul_one, Complex.norm_real, Real.norm_eq_abs,
    abs_of_nonneg (hw n (Finset.mem_range.mp hn))]

/-- on-peak form: `X(ω0) = (A/2)(e^{iψ} S1 + e^{-iψ} W(2ω0))` -/
theorem sinusoid_onpeak (Q : ℕ → ℕ → ℝ) (A ω0 φ : ℝ) (s L : ℕ) (w : ℕ → ℝ) :
    Cx.toC (Model.segDFT (-1) Q (fun n => A * Real.cos (ω0 * n + φ)) s L w ω0)
      = (A / 2 : ℂ) * (Complex.exp (((φ + ω0 * s : ℝ) : ℂ) * I) * ((∑ n ∈ range L, w n : ℝ) : ℂ)
          + Complex.exp (-(((φ + ω0 * s : ℝ) : ℂ) * I)) * winT w L (2 * ω0)) := by
  rw [sinusoid_identity, sub_self, winT_zero, ← two_mul]
  push_cast
  rfl

/-- `| |a+b|² − |a|² | ≤ 2|a||b| + |b|²` -/
theorem abs_normSq_add_sub_le (a b : ℂ) :
    |‖a + b‖ ^ 2 - ‖a‖ ^ 2| ≤ 2 * ‖a‖ * ‖b‖ + ‖b‖ ^ 2 := by
  have h1 : ‖a + b‖ ≤ ‖a‖ + ‖b‖ := norm_add_le a b
  have h2 : ‖a‖ - ‖b‖ ≤ ‖a + b‖ := by
    have := norm_sub_le (a + b) b
    rw [add_sub_cancel_right] at this
    linarith
  have hx := norm_nonneg (a + b)
  have hp := norm_nonneg a
  have hq := norm_nonneg b
  rw [abs_le]
  constructor
  · by_cases h : ‖b‖ ≤ ‖a‖
    · nlinarith
    · have h' : ‖a‖ < ‖b‖ := lt_of_not_ge h
      nlinarith
  · nlinarith

theorem norm_onpeak_core (ψ S1 : ℝ) (W : ℂ) :
    ‖Complex.exp ((ψ : ℂ) * I) * (S1 : ℂ)‖ = |S1|
    ∧ ‖Complex.exp (-((ψ : ℂ) * I)) * W‖ = ‖W‖ := by
  constructor
  · rw [norm_mul, Complex.norm_exp_ofReal_mul_I, one_mul, Complex.norm_real, Real.norm_eq_abs]
  · rw [norm_mul, norm_exp_neg_mul_I, one_mul]

/-- at the sinusoid's own frequency: |X|² is within (2ρ+ρ²) of (A/2)²·S1², ρ = |W(2ω0)|/S1 -/
theorem calibration_bound (Q : ℕ → ℕ → ℝ) (A ω0 φ : ℝ) (s L : ℕ) (w : ℕ → ℝ)
    (hS1 : 0 < ∑ n ∈ range L, w n) :
    let S1 := ∑ n ∈ range L, w n
    let ρ := ‖winT w L (2 * ω0)‖ / S1
    |Cx.normSq (Model.segDFT (-1) Q (fun n => A * Real.cos (ω0 * n + φ)) s L w ω0)
        - (A / 2) ^ 2 * S1 ^ 2|
      ≤ (A / 2) ^ 2 * S1 ^ 2 * (2 * ρ + ρ ^ 2) := by
  intro S1 ρ
  rw [Cx.normSq_eq, Complex.normSq_eq_norm_sq, sinusoid_onpeak]
  obtain ⟨ha, hb⟩ := norm_onpeak_core (φ + ω0 * s) S1 (winT w L (2 * ω0))
  have hmain := abs_normSq_add_sub_le
    (Complex.exp (((φ + ω0 * s : ℝ) : ℂ) * I) * (S1 : ℂ))
    (Complex.exp (-(((φ + ω0 * s : ℝ) : ℂ) * I)) * winT w L (2 * ω0))
  rw [ha, hb, abs_of_pos hS1] at hmain
  have hA : ‖(A / 2 : ℂ)‖ = |A| / 2 := by
    rw [norm_div, Complex.norm_real, Real.norm_eq_abs]; simp
  rw [norm_mul, hA, mul_pow, div_pow, sq_abs, ← div_pow, ← mul_sub, abs_mul,
    abs_of_nonneg (sq_nonneg (A / 2))]
  have hρ : S1 ^ 2 * (2 * ρ + ρ ^ 2)
      = 2 * S1 * ‖winT w L (2 * ω0)‖ + ‖winT w L (2 * ω0)‖ ^ 2 := by
    have hne : S1 ≠ 0 := ne_of_gt hS1
    simp only [ρ]
    field_simp
  rw [mul_assoc, hρ]
  exact mul_le_mul_of_nonneg_left hmain (sq_nonneg _)

/-- the same for the calibrated power spectrum value ps = 2·|X|²/S1²
    (mean over any K ≥ 1 segments with any starts) -/
theorem power_spectrum_calibrated (Q : ℕ → ℕ → ℝ) (A ω0 φ : ℝ) (K L : ℕ) (hK : 0 < K)
    (starts : ℕ → ℕ) (w : ℕ → ℝ) (hS1 : 0 < ∑ n ∈ range L, w n) :
    let S1 := ∑ n ∈ range L, w n
    let ρ := ‖winT w L (2 * ω0)‖ / S1
    let XX := (∑ k ∈ range K, Cx.normSq (Model.segDFT (-1) Q
        (fun n => A * Real.cos (ω0 * n + φ)) (starts k) L w ω0)) / K
    |2 * XX / S1 ^ 2 - A ^ 2 / 2| ≤ A ^ 2 / 2 * (2 * ρ + ρ ^ 2) := by
  intro S1 ρ XX
  set c : ℝ := (A / 2) ^ 2 * S1 ^ 2 with hc
  set e : ℝ := 2 * ρ + ρ ^ 2 with he
  have hKr : (0 : ℝ) < K := by exact_mod_cast hK
  have hterm : ∀ k, |Cx.normSq (Model.segDFT (-1) Q
      (fun n => A * Real.cos (ω0 * n + φ)) (starts k) L w ω0) - c| ≤ c * e :=
    fun k => calibration_bound Q A ω0 φ (starts k) L w hS1
  have hXX : |XX - c| ≤ c * e := by
    have h1 : XX - c = (∑ k ∈ range K, (Cx.normSq (Model.segDFT (-1) Q
        (fun n => A * Real.cos (ω0 * n + φ)) (starts k) L w ω0) - c)) / K := by
      rw [Finset.sum_sub_distrib, Finset.sum_const, Finset.card_range, nsmul_eq_mul]
      simp only [XX]
      field_simp
    rw [h1, abs_div, abs_of_pos hKr, div_le_iff₀ hKr]
    refine (Finset.abs_sum_le_sum_abs _ _).trans ?_
    calc ∑ k ∈ range K, |Cx.normSq (Model.segDFT (-1) Q
            (fun n => A * Real.cos (ω0 * n + φ)) (starts k) L w ω0) - c|
        ≤ ∑ _k ∈ range K, c * e := Finset.sum_le_sum (fun k _ => hterm k)
      _ = c * e * K := by
        rw [Finset.sum_const, Finset.card_range, nsmul_eq_mul]; ring
  have hS1p : (0 : ℝ) < S1 := hS1
  have hne : S1 ≠ 0 := ne_of_gt hS1
  have hS1sq : (0 : ℝ) < S1 ^ 2 := by positivity
  have h2 : 2 * XX / S1 ^ 2 - A ^ 2 / 2 = (2 / S1 ^ 2) * (XX - c) := by
    rw [hc]; field_simp
  have h3 : A ^ 2 / 2 * e = (2 / S1 ^ 2) * (c * e) := by
    rw [hc]; field_simp
  rw [h2, h3, abs_mul, abs_of_pos (by positivity : (0 : ℝ) < 2 / S1 ^ 2)]
  exact mul_le_mul_of_nonneg_left hXX (by positivity)

/-- leakage: away from ω0 the response is bounded by the two window-transform images -/
theorem leakage_bound (Q : ℕ → ℕ → ℝ) (A ω0 φ : ℝ) (s L : ℕ) (w : ℕ → ℝ) (ω : ℝ) :
    Cx.abs (Model.segDFT (-1) Q (fun n => A * Real.cos (ω0 * n + φ)) s L w ω)
      ≤ |A| / 2 * (‖winT w L (ω - ω0)‖ + ‖winT w L (ω + ω0)‖) := by
  rw [Cx.abs_eq, sinusoid_identity]
  have hA : ‖(A / 2 : ℂ)‖ = |A| / 2 := by
    rw [norm_div, Complex.norm_real, Real.norm_eq_abs]; simp
  have hu : ‖Complex.exp (((φ : ℂ) + ω0 * s) * I)‖ = 1 := by
    have := Complex.norm_exp_ofReal_mul_I (φ + ω0 * s)
    push_cast at this; exact this
  have hv : ‖Complex.exp (-(((φ : ℂ) + ω0 * s) * I))‖ = 1 := by
    have := norm_exp_neg_mul_I (φ + ω0 * s)
    push_cast at this; exact this
  rw [norm_mul, hA]
  refine mul_le_mul_of_nonneg_left ?_ (by positivity)
  refine (norm_add_le _ _).trans ?_
  rw [norm_mul, norm_mul, hu, hv, one_mul, one_mul]

/-- and at ω0 it is at least (|A|/2)(S1 − |W(2ω0)|) -/
theorem onpeak_lower (Q : ℕ → ℕ → ℝ) (A ω0 φ : ℝ) (s L : ℕ) (w : ℕ → ℝ)
    (hS1 : 0 ≤ ∑ n ∈ range L, w n) :
    |A| / 2 * ((∑ n ∈ range L, w n) - ‖winT w L (2 * ω0)‖)
      ≤ Cx.abs (Model.segDFT (-1) Q (fun n => A * Real.cos (ω0 * n + φ)) s L w ω0) := by
  rw [Cx.abs_eq, sinusoid_onpeak]
  obtain ⟨ha, hb⟩ := norm_onpeak_core (φ + ω0 * s) (∑ n ∈ range L, w n) (winT w L (2 * ω0))
  have hA : ‖(A / 2 : ℂ)‖ = |A| / 2 := by
    rw [norm_div, Complex.norm_real, Real.norm_eq_abs]; simp
  rw [norm_mul, hA]
  refine mul_le_mul_of_nonneg_left ?_ (by positivity)
  have h := norm_sub_le
    (Complex.exp (((φ + ω0 * s : ℝ) : ℂ) * I) * ((∑ n ∈ range L, w n : ℝ) : ℂ)
      + Complex.exp (-(((φ + ω0 * s : ℝ) : ℂ) * I)) * winT w L (2 * ω0))
    (Complex.exp (-(((φ + ω0 * s : ℝ) : ℂ) * I)) * winT w L (2 * ω0))
  rw [add_sub_cancel_right, ha, hb, abs_of_nonneg hS1] at h
  linarith

#print axioms segDFT_raw_toC
#print axioms sinusoid_identity
#print axioms calibration_bound
#print axioms power_spectrum_calibrated
#print axioms leakage_bound
#print axioms onpeak_lower
#print axioms winT_le_sum
#print axioms winT_zero
