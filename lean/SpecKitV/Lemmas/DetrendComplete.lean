/-
  SpecKitV.Lemmas.DetrendComplete — the SHORT-segment case of polynomial detrending.
  When the segment length `L` equals the number of basis columns `p+1`, the reduced QR factor `Q`
  is a complete `L × L` orthonormal matrix, `Q Qᵀ = I`, and the detrended segment is identically 0
  (so is its windowed DFT).
-/
import SpecKitV.Lemmas.Detrend
import Mathlib.LinearAlgebra.Matrix.SemiringInverse
open Finset

/-- `Q` restricted to the `L × L` grid, as a Mathlib matrix -/
def sqMat (Q : ℕ → ℕ → ℝ) (L : ℕ) : Matrix (Fin L) (Fin L) ℝ :=
  Matrix.of (fun i j => Q i.val j.val)

/-- `OrthoCols Q L L` is `Mᵀ * M = 1` -/
theorem sqMat_transpose_mul (Q : ℕ → ℕ → ℝ) (L : ℕ) (hQ : OrthoCols Q L L) :
    (sqMat Q L).transpose * sqMat Q L = 1 := by
  ext i j
  rw [Matrix.mul_apply, Matrix.one_apply]
  have h := hQ i.val i.isLt j.val j.isLt
  rw [← Fin.sum_univ_eq_sum_range (fun n => Q n i.val * Q n j.val) L] at h
  simp only [sqMat, Matrix.transpose_apply, Matrix.of_apply]
  rw [h]
  simp only [Fin.val_inj]

/-- a square matrix with orthonormal columns has orthonormal rows -/
theorem ortho_rows_of_cols (Q : ℕ → ℕ → ℝ) (L : ℕ) (hQ : OrthoCols Q L L) :
    ∀ n < L, ∀ m < L, ∑ k ∈ Finset.range L, Q n k * Q m k = if n = m then 1 else 0 := by
  intro n hn m hm
  have h1 : sqMat Q L * (sqMat Q L).transpose = 1 :=
    mul_eq_one_comm.1 (sqMat_transpose_mul Q L hQ)
  have h2 := congrFun (congrFun h1 ⟨n, hn⟩) ⟨m, hm⟩
  rw [Matrix.mul_apply, Matrix.one_apply] at h2
  simp only [sqMat, Matrix.transpose_apply, Matrix.of_apply, Fin.mk.injEq] at h2
  rw [← Fin.sum_univ_eq_sum_range (fun k => Q n k * Q m k) L]
  exact h2

/-- the projection onto a complete orthonormal basis is the identity -/
theorem proj_complete (Q : ℕ → ℕ → ℝ) (L : ℕ) (hQ : OrthoCols Q L L) (v : ℕ → ℝ) (n : ℕ)
    (hn : n < L) :
    ∑ k ∈ Finset.range L, Q n k * ∑ m ∈ Finset.range L, Q m k * v m = v n := by
  have h1 : ∑ k ∈ range L, Q n k * ∑ m ∈ range L, Q m k * v m
      = ∑ k ∈ range L, ∑ m ∈ range L, v m * (Q n k * Q m k) := by
    refine sum_congr rfl (fun k _ => ?_)
    rw [mul_sum]
    exact sum_congr rfl (fun m _ => by ring)
  rw [h1, sum_comm]
  have h2 : ∀ m ∈ range L, ∑ k ∈ range L, v m * (Q n k * Q m k)
      = v m * (if n = m then 1 else 0) := by
    intro m hm
    rw [← mul_sum, ortho_rows_of_cols Q L hQ n hn m (mem_range.1 hm)]
  rw [sum_congr rfl h2]
  simp only [mul_ite, mul_one, mul_zero]
  rw [sum_ite_eq (range L) n v, if_pos (mem_range.2 hn)]

/-- short segment (L = p+1 columns): polynomial detrending annihilates every record -/
theorem detr_complete_basis_zero (p : ℕ) (hp : 1 ≤ p) (Q : ℕ → ℕ → ℝ) (L : ℕ) (hL : L = p + 1)
    (hQ : OrthoCols Q L (p + 1)) (x : ℕ → ℝ) (s n : ℕ) (hn : n < L) :
    Model.detr (p : ℤ) Q x s L n = 0 := by
  rw [detr_poly_eq p hp, ← hL]
  rw [← hL] at hQ
  rw [proj_complete Q L hQ (fun m => x (s + m)) n hn, sub_self]

theorem segDFT_complete_basis_zero (p : ℕ) (hp : 1 ≤ p) (Q : ℕ → ℕ → ℝ) (L : ℕ) (hL : L = p + 1)
    (hQ : OrthoCols Q L (p + 1)) (x : ℕ → ℝ) (s : ℕ) (w : ℕ → ℝ) (ω : ℝ) :
    Model.segDFT (p : ℤ) Q x s L w ω = ⟨0, 0⟩ := by
  simp only [Model.segDFT, sumRange_eq_sum, RL.zero_eq]
  have h : ∀ n ∈ range L, Model.detr (p : ℤ) Q x s L n = 0 :=
    fun n hn => detr_complete_basis_zero p hp Q L hL hQ x s n (mem_range.1 hn)
  congr 1
  · exact sum_eq_zero (fun n hn => by rw [h n hn, mul_zero, zero_mul])
  · rw [sum_eq_zero (fun n hn => by rw [h n hn, mul_zero, zero_mul]), sub_zero]

/-! ### the hypotheses are satisfiable -/

/-- `OrthoCols Q 2 2` spelled out -/
theorem orthoCols_two (Q : ℕ → ℕ → ℝ)
    (h00 : Q 0 0 * Q 0 0 + Q 1 0 * Q 1 0 = 1) (h01 : Q 0 0 * Q 0 1 + Q 1 0 * Q 1 1 = 0)
    (h11 : Q 0 1 * Q 0 1 + Q 1 1 * Q 1 1 = 1) : OrthoCols Q 2 2 := by
  intro k hk k' hk'
  have hk2 : k = 0 ∨ k = 1 := by omega
  have hk2' : k' = 0 ∨ k' = 1 := by omega
  rcases hk2 with rfl | rfl <;> rcases hk2' with rfl | rfl <;>
    simp only [sum_range_succ, sum_range_zero, zero_add, if_true, zero_ne_one, one_ne_zero,
      if_false]
  · exact h00
  · exact h01
  · rw [← h01]; ring
  · exact h11

/-- the identity matrix -/
example : OrthoCols (fun n k => if n = k then 1 else 0) 2 2 := by
  apply orthoCols_two <;> norm_num

/-- the 2×2 Hadamard matrix `[[a, a], [a, −a]]`, `a = 1/√2` (what QR of a 2-point linear
    Vandermonde matrix yields up to signs) -/
example :
    OrthoCols (fun n k => if n = 1 ∧ k = 1 then -(1 / Real.sqrt 2) else 1 / Real.sqrt 2) 2 2 := by
  have h2 : Real.sqrt 2 * Real.sqrt 2 = 2 := Real.mul_self_sqrt (by norm_num)
  have ha : (Real.sqrt 2)⁻¹ * (Real.sqrt 2)⁻¹ = 1 / 2 := by
    rw [← mul_inv, h2, one_div]
  apply orthoCols_two <;> norm_num <;> linarith [ha]

/-- … and the theorem applies non-vacuously: order 1, L = 2 -/
example (x : ℕ → ℝ) (s n : ℕ) (hn : n < 2) :
    Model.detr ((1 : ℕ) : ℤ) (fun n k => if n = k then 1 else 0) x s 2 n = 0 :=
  detr_complete_basis_zero 1 le_rfl _ 2 rfl
    (by apply orthoCols_two <;> norm_num) x s n hn

#print axioms ortho_rows_of_cols
#print axioms proj_complete
#print axioms detr_complete_basis_zero
#print axioms segDFT_complete_basis_zero
