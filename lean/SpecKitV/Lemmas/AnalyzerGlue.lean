/-
  SpecKitV.Lemmas.AnalyzerGlue — the glue code of the analyzer object (`Model/Analyzer.lean`):
  cached per-bin loop = plain map (C05), band restriction, call-history independence (C14b),
  lazy attribute cache (C14c), layout / sanitising / buffer aliasing (C13),
  single-bin segmentation and the Kaiser window (at ℝ).
-/
import SpecKitV.RealInst
import SpecKitV.Model.Analyzer
import SpecKitV.Lemmas.Starts

namespace Model

/-! ## C05: the cached loop equals the plain map -/

theorem lookup_cons_ok {κ ν : Type} [DecidableEq κ] (f : κ → ν) (l : List (κ × ν))
    (h : ∀ k v, lookup k l = some v → v = f k) (k0 : κ) :
    ∀ k v, lookup k ((k0, f k0) :: l) = some v → v = f k := by
  intro k v hk
  simp only [lookup] at hk
  split_ifs at hk with hkk
  · subst hkk
    simp only [Option.some.injEq] at hk
    exact hk.symm
  · exact h _ _ hk

theorem coreStep_spec {W Qt Out B : Type} (mkWin : ℕ → W) (mkQ : ℕ → ℤ → Qt) (order : ℤ) (lenOf : B → ℕ)
    (kern : B → W → Option Qt → Out) (c : Caches W Qt) (hc : CachesOk mkWin mkQ c) (b : B) :
    (coreStep mkWin mkQ order lenOf kern c b).1
        = kern b (mkWin (lenOf b)) (if order = 1 ∨ order = 2 then some (mkQ (lenOf b) order) else none) ∧
    CachesOk mkWin mkQ (coreStep mkWin mkQ order lenOf kern c b).2 := by
  obtain ⟨hw, hq⟩ := hc
  have hw' := lookup_cons_ok mkWin c.win hw (lenOf b)
  have hq' := lookup_cons_ok (fun k : ℕ × ℤ => mkQ k.1 k.2) c.q hq (lenOf b, order)
  unfold coreStep
  dsimp only
  by_cases ho : order = 1 ∨ order = 2
  · simp only [if_pos ho]
    cases hl : lookup (lenOf b) c.win with
    | some w =>
      have hwe := hw _ _ hl
      subst hwe
      dsimp only
      cases hl2 : lookup (lenOf b, order) c.q with
      | some q =>
        have hqe := hq _ _ hl2
        dsimp only at hqe
        subst hqe
        exact ⟨rfl, hw, hq⟩
      | none => exact ⟨rfl, hw, hq'⟩
    | none =>
      dsimp only
      cases hl2 : lookup (lenOf b, order) c.q with
      | some q =>
        have hqe := hq _ _ hl2
        dsimp only at hqe
        subst hqe
        exact ⟨rfl, hw', hq⟩
      | none => exact ⟨rfl, hw', hq'⟩
  · simp only [if_neg ho]
    cases hl : lookup (lenOf b) c.win with
    | some w =>
      have hwe := hw _ _ hl
      subst hwe
      exact ⟨rfl, hw, hq⟩
    | none => exact ⟨rfl, hw', hq⟩

theorem coreLoop_eq_map {W Qt Out B : Type} (mkWin : ℕ → W) (mkQ : ℕ → ℤ → Qt) (order : ℤ) (lenOf : B → ℕ)
    (kern : B → W → Option Qt → Out) (c : Caches W Qt) (hc : CachesOk mkWin mkQ c) (bins : List B) :
    coreLoop mkWin mkQ order lenOf kern c bins
      = bins.map (fun b => kern b (mkWin (lenOf b)) (if order = 1 ∨ order = 2 then some (mkQ (lenOf b) order) else none)) := by
  induction bins generalizing c with
  | nil => rfl
  | cons b bs ih =>
    obtain ⟨h1, h2⟩ := coreStep_spec mkWin mkQ order lenOf kern c hc b
    simp only [coreLoop, List.map_cons]
    rw [h1, ih _ h2]

theorem cachesOk_empty {W Qt : Type} (mkWin : ℕ → W) (mkQ : ℕ → ℤ → Qt) : CachesOk mkWin mkQ ⟨[], []⟩ := by
  constructor
  · intro L w h; simp [lookup] at h
  · intro k q h; simp [lookup] at h

/-- restricting to a band commutes with the per-bin computation -/
theorem band_commutes {α : Type} [RealLike α] {W Qt Out B : Type} (mkWin : ℕ → W) (mkQ : ℕ → ℤ → Qt) (order : ℤ) (lenOf : B → ℕ)
    (kern : B → W → Option Qt → Out) (fOf : B → α) (lo hi : α) (bins : List B) :
    coreLoop mkWin mkQ order lenOf kern ⟨[], []⟩ (bandFilter fOf lo hi bins)
      = ((bins.filter (fun b => RealLike.ge (fOf b) lo && RealLike.le (fOf b) hi)).map
          (fun b => kern b (mkWin (lenOf b)) (if order = 1 ∨ order = 2 then some (mkQ (lenOf b) order) else none))) := by
  rw [coreLoop_eq_map mkWin mkQ order lenOf kern _ (cachesOk_empty mkWin mkQ)]
  rfl

theorem filter_map_eq_zip {B Out : Type} (g : B → Out) (p : B → Bool) (bs : List B) :
    (bs.filter p).map g = ((bs.zip (bs.map g)).filter (fun bo => p bo.1)).map Prod.snd := by
  induction bs with
  | nil => rfl
  | cons b bs ih =>
    simp only [List.filter_cons, List.map_cons, List.zip_cons_cons]
    cases hp : p b with
    | true => simp only [if_true, List.map_cons, ih]
    | false => simpa using ih

/-- the same, in the form "compute everything, then mask": the outputs on the filtered plan are
    the outputs of the full plan at the positions kept by the mask -/
theorem band_commutes_zip {α : Type} [RealLike α] {W Qt Out B : Type} (mkWin : ℕ → W) (mkQ : ℕ → ℤ → Qt) (order : ℤ) (lenOf : B → ℕ)
    (kern : B → W → Option Qt → Out) (fOf : B → α) (lo hi : α) (bins : List B) :
    coreLoop mkWin mkQ order lenOf kern ⟨[], []⟩ (bandFilter fOf lo hi bins)
      = ((bins.zip (coreLoop mkWin mkQ order lenOf kern ⟨[], []⟩ bins)).filter
          (fun bo => RealLike.ge (fOf bo.1) lo && RealLike.le (fOf bo.1) hi)).map Prod.snd := by
  rw [band_commutes, coreLoop_eq_map mkWin mkQ order lenOf kern _ (cachesOk_empty mkWin mkQ)]
  exact filter_map_eq_zip _ (fun b => RealLike.ge (fOf b) lo && RealLike.le (fOf b) hi) bins

theorem bandFilter_sublist {α : Type} [RealLike α] {B : Type} (fOf : B → α) (lo hi : α) (bins : List B) :
    (bandFilter fOf lo hi bins).Sublist bins := by
  unfold bandFilter
  exact List.filter_sublist

/-! ## C14b: results do not depend on call history (as long as no call failed) -/

/-- the state invariant: the cache, if filled, holds the plan a fresh analyzer would build -/
def AInv {P : Type} (force : Bool) (search : ℕ → Option ℕ) (build : ℕ → Option P) (j0 : ℕ) (s : AState P) : Prop :=
  (s.cache = none ∧ s.jdes = j0) ∨
  (∃ p, s.cache = some p ∧ (planStep force search build ⟨none, j0⟩).1 = some p)

/-- a cached plan is returned unchanged -/
theorem plan_cached_unchanged {P : Type} (force : Bool) (search : ℕ → Option ℕ) (build : ℕ → Option P) (s : AState P) (p : P)
    (h : s.cache = some p) : planStep force search build s = (some p, s) := by
  unfold planStep
  rw [h]

theorem AInv_fresh {P : Type} (force : Bool) (search : ℕ → Option ℕ) (build : ℕ → Option P) (j0 : ℕ) :
    AInv force search build j0 (⟨none, j0⟩ : AState P) := Or.inl ⟨rfl, rfl⟩

/-- a successful `plan()` on a fresh analyzer leaves the plan in the cache -/
theorem planStep_fresh_cache {P : Type} (force : Bool) (search : ℕ → Option ℕ) (build : ℕ → Option P) (j0 : ℕ) (p : P)
    (h : (planStep force search build ⟨none, j0⟩).1 = some p) :
    (planStep force search build ⟨none, j0⟩).2.cache = some p := by
  unfold planStep at h ⊢
  simp only at h ⊢
  cases force with
  | true =>
    simp only [if_true] at h ⊢
    cases hs : search j0 with
    | none => rw [hs] at h; simp at h
    | some J =>
      rw [hs] at h
      simp only at h ⊢
      cases hb : build J with
      | none => rw [hb] at h; simp at h
      | some p' => rw [hb] at h; simpa using h
  | false =>
    simp only [Bool.false_eq_true, if_false] at h ⊢
    cases hb : build j0 with
    | none => rw [hb] at h; simp at h
    | some p' => rw [hb] at h; simpa using h

theorem planStep_fresh_ok {P : Type} (force : Bool) (search : ℕ → Option ℕ) (build : ℕ → Option P) (j0 : ℕ) (s : AState P)
    (hs : AInv force search build j0 s) (p : P) (h : (planStep force search build s).1 = some p) :
    (planStep force search build ⟨none, j0⟩).1 = some p ∧ AInv force search build j0 (planStep force search build s).2 := by
  rcases hs with ⟨hc, hj⟩ | ⟨p', hc, hp'⟩
  · obtain ⟨c, j⟩ := s
    simp only at hc hj
    subst hc hj
    exact ⟨h, Or.inr ⟨p, planStep_fresh_cache force search build j p h, h⟩⟩
  · rw [plan_cached_unchanged force search build s p' hc] at h ⊢
    simp only [Option.some.injEq] at h
    subst h
    exact ⟨hp', Or.inr ⟨p', hc, hp'⟩⟩

/-- one step from any state satisfying the invariant: a non-error output is the fresh output,
    and the invariant is preserved -/
theorem aStep_fresh_ok {P R S Q : Type} (force : Bool) (search : ℕ → Option ℕ) (build : ℕ → Option P)
    (comp : P → R) (single : Q → S) (j0 : ℕ) (s : AState P) (hs : AInv force search build j0 s) (op : AOp Q)
    (hne : (aStep force search build comp single s op).1 ≠ AOut.error) :
    (aStep force search build comp single s op).1 = (aStep force search build comp single ⟨none, j0⟩ op).1 ∧
    AInv force search build j0 (aStep force search build comp single s op).2 := by
  cases op with
  | single q => exact ⟨rfl, hs⟩
  | plan =>
    simp only [aStep] at hne ⊢
    rcases hps : planStep force search build s with ⟨o, s'⟩
    rw [hps] at hne
    cases o with
    | none => exact absurd rfl hne
    | some p =>
      obtain ⟨h1, h2⟩ := planStep_fresh_ok force search build j0 s hs p (by rw [hps])
      rw [hps] at h2
      rcases hpf : planStep force search build ⟨none, j0⟩ with ⟨o0, s0⟩
      rw [hpf] at h1
      simp only at h1
      subst h1
      exact ⟨rfl, h2⟩
  | compute =>
    simp only [aStep] at hne ⊢
    rcases hps : planStep force search build s with ⟨o, s'⟩
    rw [hps] at hne
    cases o with
    | none => exact absurd rfl hne
    | some p =>
      obtain ⟨h1, h2⟩ := planStep_fresh_ok force search build j0 s hs p (by rw [hps])
      rw [hps] at h2
      rcases hpf : planStep force search build ⟨none, j0⟩ with ⟨o0, s0⟩
      rw [hpf] at h1
      simp only at h1
      subst h1
      exact ⟨rfl, h2⟩

/-- whole-list version from any state satisfying the invariant -/
theorem aRun_eq_map_of_inv {P R S Q : Type} (force : Bool) (search : ℕ → Option ℕ) (build : ℕ → Option P)
    (comp : P → R) (single : Q → S) (j0 : ℕ) (s : AState P) (hs : AInv force search build j0 s)
    (ops : List (AOp Q))
    (hok : ∀ o ∈ aRun force search build comp single s ops, o ≠ AOut.error) :
    aRun force search build comp single s ops
      = ops.map (fun op => (aStep force search build comp single ⟨none, j0⟩ op).1) := by
  induction ops generalizing s with
  | nil => rfl
  | cons op ops ih =>
    simp only [aRun, List.map_cons] at hok ⊢
    have hne : (aStep force search build comp single s op).1 ≠ AOut.error :=
      hok _ List.mem_cons_self
    obtain ⟨h1, h2⟩ := aStep_fresh_ok force search build comp single j0 s hs op hne
    rw [h1, ih _ h2 (fun o ho => hok o (List.mem_cons_of_mem _ ho))]

/-- whole-list version: a history without failures is the list of fresh outputs -/
theorem history_independent_list {P R S Q : Type} (force : Bool) (search : ℕ → Option ℕ) (build : ℕ → Option P)
    (comp : P → R) (single : Q → S) (j0 : ℕ) (ops : List (AOp Q))
    (hok : ∀ o ∈ aRun force search build comp single ⟨none, j0⟩ ops, o ≠ AOut.error) :
    aRun force search build comp single ⟨none, j0⟩ ops
      = ops.map (fun op => (aStep force search build comp single ⟨none, j0⟩ op).1) :=
  aRun_eq_map_of_inv force search build comp single j0 _ (AInv_fresh force search build j0) ops hok

/-- every successful output in any history equals the output of the same operation on a fresh analyzer -/
theorem history_independent {P R S Q : Type} (force : Bool) (search : ℕ → Option ℕ) (build : ℕ → Option P)
    (comp : P → R) (single : Q → S) (j0 : ℕ) (ops : List (AOp Q)) (i : ℕ) (hi : i < ops.length)
    (hok : ∀ o ∈ aRun force search build comp single ⟨none, j0⟩ ops, o ≠ AOut.error) :
    (aRun force search build comp single ⟨none, j0⟩ ops)[i]? =
      some (aStep force search build comp single ⟨none, j0⟩ ops[i]).1 := by
  rw [history_independent_list force search build comp single j0 ops hok, List.getElem?_map,
    List.getElem?_eq_getElem hi]
  rfl

/-! ## C14c: lazy attributes — any access order returns `eval name` -/

def LazyOk {V : Type} (eval : String → V) (cache : List (String × V)) : Prop :=
  ∀ n v, lookup n cache = some v → v = eval n

theorem LazyOk_nil {V : Type} (eval : String → V) : LazyOk eval [] := by
  intro n v h; simp [lookup] at h

theorem LazyOk_cons {V : Type} (eval : String → V) (m : String) (cache : List (String × V))
    (h : LazyOk eval cache) : LazyOk eval ((m, eval m) :: cache) := by
  intro n v hk
  simp only [lookup] at hk
  split_ifs at hk with hkk
  · subst hkk
    simp only [Option.some.injEq] at hk
    exact hk.symm
  · exact h _ _ hk

theorem LazyOk_touched {V : Type} (eval : String → V) (l : List String) (cache : List (String × V))
    (h : LazyOk eval cache) : LazyOk eval (l.map (fun n => (n, eval n)) ++ cache) := by
  induction l with
  | nil => simpa using h
  | cons m l ih =>
    simp only [List.map_cons, List.cons_append]
    exact LazyOk_cons eval m _ ih

theorem lazyGet_sound {V : Type} (eval : String → V) (touched : String → List String) (cache : List (String × V))
    (h : LazyOk eval cache) (name : String) :
    (lazyGet eval touched cache name).1 = eval name ∧ LazyOk eval (lazyGet eval touched cache name).2 := by
  unfold lazyGet
  cases hl : lookup name cache with
  | some v => exact ⟨h _ _ hl, h⟩
  | none => exact ⟨rfl, LazyOk_cons eval name _ (LazyOk_touched eval _ _ h)⟩

theorem lazyRun_sound {V : Type} (eval : String → V) (touched : String → List String) (cache : List (String × V))
    (h : LazyOk eval cache) (names : List String) : lazyRun eval touched cache names = names.map eval := by
  induction names generalizing cache with
  | nil => rfl
  | cons n ns ih =>
    obtain ⟨h1, h2⟩ := lazyGet_sound eval touched cache h n
    simp only [lazyRun, List.map_cons]
    rw [h1, ih _ h2]

/-- strengthened form: from the empty cache every access sequence returns `map eval` -/
theorem lazyRun_empty {V : Type} (eval : String → V) (touched : String → List String) (ms : List String) :
    lazyRun eval touched [] ms = ms.map eval :=
  lazyRun_sound eval touched [] (LazyOk_nil eval) ms

/-- in particular every permutation of an access sequence gives the same value for each name -/
theorem lazy_order_independent {V : Type} (eval : String → V) (touched : String → List String) (ns ms : List String)
    (hperm : ns.Perm ms) (n : String) (hn : n ∈ ns) :
    ∃ i j : ℕ, (lazyRun eval touched [] ns)[i]? = some (eval n) ∧ (lazyRun eval touched [] ms)[j]? = some (eval n) := by
  have hm : n ∈ ms := hperm.mem_iff.mp hn
  obtain ⟨i, hi⟩ := List.mem_iff_getElem?.mp hn
  obtain ⟨j, hj⟩ := List.mem_iff_getElem?.mp hm
  refine ⟨i, j, ?_, ?_⟩
  · rw [lazyRun_empty, List.getElem?_map, hi]; rfl
  · rw [lazyRun_empty, List.getElem?_map, hj]; rfl

/-- stronger: the two runs are permutations of each other, and position-wise determined by the name -/
theorem lazy_order_perm {V : Type} (eval : String → V) (touched : String → List String) (ns ms : List String)
    (hperm : ns.Perm ms) : (lazyRun eval touched [] ns).Perm (lazyRun eval touched [] ms) := by
  rw [lazyRun_empty, lazyRun_empty]
  exact hperm.map eval

/-- cached attributes are returned unchanged -/
theorem lazyGet_cached {V : Type} (eval : String → V) (touched : String → List String) (cache : List (String × V)) (n : String) (v : V)
    (h : lookup n cache = some v) : lazyGet eval touched cache n = (v, cache) := by
  unfold lazyGet
  rw [h]

/-! ## C13: layout independence, sanitising, no write to the caller's buffer -/

theorem channelOf_transpose {α : Type} [RealLike α] (r c : ℕ) (h22 : ¬ (r = 2 ∧ c = 2)) (hshape : r = 2 ∨ c = 2)
    (a : ℕ → ℕ → α) (ch i : ℕ) :
    channelOf c r (fun i j => a j i) ch i = channelOf r c a ch i := by
  unfold channelOf
  by_cases hr : r = 2
  · have hc : c ≠ 2 := fun hc => h22 ⟨hr, hc⟩
    simp [hr, hc]
  · have hc : c = 2 := hshape.resolve_left hr
    simp [hr, hc]

theorem sanitise_idem {α : Type} [RealLike α] (bad : α → Bool) (hz : bad (RealLike.zero) = false) (x : α) :
    sanitise bad (sanitise bad x) = sanitise bad x := by
  unfold sanitise
  cases hb : bad x with
  | true => simp [hz]
  | false => simp [hb]

theorem sanitise_eq_zero_fill {α : Type} [RealLike α] (bad : α → Bool) (x : ℕ → α) (n : ℕ) :
    sanitise bad (x n) = (fun m => if bad (x m) then RealLike.zero else x m) n := rfl

/-- a run without the in-place sanitiser leaves the write log untouched -/
theorem heapFold_written (ops : List HeapOp) (h : HeapOp.nanToNumInPlace ∉ ops) (s : HeapSt) :
    (ops.foldl heapStep s).written = s.written := by
  induction ops generalizing s with
  | nil => rfl
  | cons op ops ih =>
    simp only [List.foldl_cons]
    have h1 : HeapOp.nanToNumInPlace ≠ op := fun e => h (e ▸ List.mem_cons_self)
    have h2 : HeapOp.nanToNumInPlace ∉ ops := fun e => h (List.mem_cons_of_mem _ e)
    rw [ih h2]
    cases op with
    | asarray => simp only [heapStep]; split_ifs <;> rfl
    | transposeView => rfl
    | ascontig64 => simp only [heapStep]; split_ifs <;> rfl
    | nanToNumInPlace => exact absurd rfl h1
    | nanToNumCopy => rfl

theorem ctor_copy_no_write (input : ArrDesc) (ops : List HeapOp) (h : HeapOp.nanToNumInPlace ∉ ops) :
    (heapRun ops input).written = [] := by
  unfold heapRun
  rw [heapFold_written ops h]

/-- the constructor with a copying sanitiser never writes a buffer it did not allocate: for EVERY input descriptor -/
theorem ctor_copy_no_foreign_write (input : ArrDesc) (twoD : Bool) :
    ∀ b ∈ (heapRun ((if twoD then [HeapOp.asarray, .transposeView, .ascontig64, .nanToNumCopy]
                      else [HeapOp.asarray, .ascontig64, .nanToNumCopy])) input).written, input.buf < b := by
  intro b hb
  rw [ctor_copy_no_write] at hb
  · simp at hb
  · cases twoD <;> simp

/-- general safety of every op sequence: every buffer id the machine ever writes is either the caller's
    buffer or one it allocated itself (ids above the caller's); the current buffer is always below `next` -/
theorem heapFold_inv (b0 : ℕ) (ops : List HeapOp) (s : HeapSt)
    (hcur : b0 ≤ s.cur.buf ∧ s.cur.buf < s.next) (hw : ∀ b ∈ s.written, b0 ≤ b) :
    ∀ b ∈ (ops.foldl heapStep s).written, b0 ≤ b := by
  induction ops generalizing s with
  | nil => exact hw
  | cons op ops ih =>
    simp only [List.foldl_cons]
    apply ih
    · cases op with
      | asarray => simp only [heapStep]; split_ifs <;> (try simp only) <;> omega
      | transposeView => simpa [heapStep] using hcur
      | ascontig64 => simp only [heapStep]; split_ifs <;> (try simp only) <;> omega
      | nanToNumInPlace => simpa [heapStep] using hcur
      | nanToNumCopy => simp only [heapStep]; omega
    · cases op with
      | asarray => simp only [heapStep]; split_ifs <;> exact hw
      | transposeView => exact hw
      | ascontig64 => simp only [heapStep]; split_ifs <;> exact hw
      | nanToNumInPlace =>
        intro b hb
        simp only [heapStep, List.mem_cons] at hb
        rcases hb with rfl | hb
        · exact hcur.1
        · exact hw b hb
      | nanToNumCopy => exact hw

/-- for EVERY op sequence (in-place sanitiser included) and every input: a written buffer is the caller's
    or a fresh one (`input.buf ≤ b`); buffers below the caller's id are never touched -/
theorem heapRun_written_ge (ops : List HeapOp) (input : ArrDesc) :
    ∀ b ∈ (heapRun ops input).written, input.buf ≤ b := by
  unfold heapRun
  apply heapFold_inv
  · exact ⟨le_refl _, Nat.lt_succ_self _⟩
  · intro b hb; simp at hb

/-- …whereas the in-place variant does write the caller's buffer for a C-contiguous float64 array (negative witness) -/
theorem ctor_inplace_writes_caller :
    (0 : ℕ) ∈ (heapRun [HeapOp.asarray, .ascontig64, .nanToNumInPlace] ⟨0, true, false, true, true⟩).written := by
  simp [heapRun, heapStep]

/-- and a non-contiguous / non-float64 / list input is copied first, so even the in-place variant spares it -/
theorem ctor_inplace_spares_copied (input : ArrDesc) (h : ¬ (input.isArray = true ∧ input.contig = true ∧ input.f64 = true)) :
    input.buf ∉ (heapRun [HeapOp.asarray, .ascontig64, .nanToNumInPlace] input).written := by
  obtain ⟨buf, contig, fcontig, f64, isArray⟩ := input
  cases contig <;> cases fcontig <;> cases f64 <;> cases isArray <;> simp [heapRun, heapStep] at h ⊢ <;> omega

end Model

/-! ## Single-bin segmentation and the Kaiser window, at ℝ -/

namespace AnalyzerGlue

theorem RLneg (a : ℝ) : @Neg.neg ℝ instRealLikeReal.toNeg a = -a := rfl

/-- rounding an element of `[0, M]` (integer endpoints) stays in `[0, M]` -/
theorem roundEven_mem_Icc (x : ℝ) (M : ℤ) (h0 : 0 ≤ x) (h1 : x ≤ M) :
    0 ≤ RealLike.roundEven x ∧ RealLike.roundEven x ≤ M := by
  have h := roundEven_abs_sub_le x
  rw [abs_le] at h
  have a1 : ((-1 : ℤ) : ℝ) < (RealLike.roundEven x : ℤ) := by push_cast; linarith [h.1]
  have a2 : ((RealLike.roundEven x : ℤ) : ℝ) < ((M + 1 : ℤ) : ℝ) := by push_cast; linarith [h.2]
  have a1' : (-1 : ℤ) < RealLike.roundEven x := by exact_mod_cast a1
  have a2' : RealLike.roundEven x < M + 1 := by exact_mod_cast a2
  constructor <;> omega

/-- the shape of `singleBinStarts` at ℝ, with the segment count abstracted -/
theorem singleBinStarts_shape (N L : ℕ) (olap : ℝ) :
    ∃ K : ℤ, Model.singleBinStarts (α := ℝ) N L olap =
      if N = L then [0]
      else if K ≤ 1 then [0]
      else (List.range K.toNat).map
        (fun i : ℕ => RealLike.roundEven ((i : ℝ) * ((((N : ℤ) - (L : ℤ) : ℤ) : ℝ) / ((K - 1 : ℤ) : ℝ)))) :=
  ⟨_, rfl⟩

end AnalyzerGlue

open AnalyzerGlue

theorem singleBinStarts_whole (N : ℕ) (olap : ℝ) : Model.singleBinStarts (α := ℝ) N N olap = [0] := by
  unfold Model.singleBinStarts
  rw [if_pos rfl]

set_option linter.unusedVariables false in
theorem singleBinStarts_in_range (N L : ℕ) (olap : ℝ) (hL1 : 1 ≤ L) (hL : L ≤ N) (ho0 : 0 ≤ olap) (ho1 : olap < 1) :
    ∀ d ∈ Model.singleBinStarts (α := ℝ) N L olap, 0 ≤ d ∧ d + L ≤ N := by
  intro d hd
  have hLN : (L : ℤ) ≤ N := by exact_mod_cast hL
  obtain ⟨K, hK⟩ := singleBinStarts_shape N L olap
  rw [hK] at hd
  split_ifs at hd with h1 h2
  · simp only [List.mem_singleton] at hd
    subst hd
    constructor <;> omega
  · simp only [List.mem_singleton] at hd
    subst hd
    constructor <;> omega
  · simp only [List.mem_map, List.mem_range] at hd
    obtain ⟨i, hi, rfl⟩ := hd
    have hK2 : 2 ≤ K := by omega
    have hiK : (i : ℤ) ≤ K - 1 := by omega
    have hiKr : (i : ℝ) ≤ ((K - 1 : ℤ) : ℝ) := by exact_mod_cast hiK
    have hKpos : (0 : ℝ) < ((K - 1 : ℤ) : ℝ) := by
      have : (0 : ℤ) < K - 1 := by omega
      exact_mod_cast this
    have hM : (0 : ℝ) ≤ (((N : ℤ) - (L : ℤ) : ℤ) : ℝ) := by
      have : (0 : ℤ) ≤ (N : ℤ) - L := by omega
      exact_mod_cast this
    have hi0 : (0 : ℝ) ≤ (i : ℝ) := Nat.cast_nonneg i
    have hx0 : 0 ≤ (i : ℝ) * ((((N : ℤ) - (L : ℤ) : ℤ) : ℝ) / ((K - 1 : ℤ) : ℝ)) :=
      mul_nonneg hi0 (div_nonneg hM hKpos.le)
    have hx1 : (i : ℝ) * ((((N : ℤ) - (L : ℤ) : ℤ) : ℝ) / ((K - 1 : ℤ) : ℝ))
        ≤ (((N : ℤ) - (L : ℤ) : ℤ) : ℝ) := by
      rw [mul_div_assoc', div_le_iff₀ hKpos, mul_comm]
      exact mul_le_mul_of_nonneg_left hiKr hM
    obtain ⟨r0, r1⟩ := roundEven_mem_Icc _ _ hx0 hx1
    constructor
    · exact r0
    · omega

theorem singleBinStarts_head (N L : ℕ) (olap : ℝ) : (Model.singleBinStarts (α := ℝ) N L olap).head? = some 0 := by
  obtain ⟨K, hK⟩ := singleBinStarts_shape N L olap
  rw [hK]
  split_ifs with h1 h2
  · rfl
  · rfl
  · obtain ⟨m, hm⟩ : ∃ m, K.toNat = m + 1 := ⟨K.toNat - 1, by omega⟩
    rw [hm, List.range_succ_eq_map]
    simp only [List.map_cons, List.head?_cons, Nat.cast_zero, zero_mul, roundEven_zero]

/-- every partial sum of the I0 series is at least 1 -/
theorem besselI0_ge_one (terms : ℕ) (x : ℝ) : 1 ≤ Model.besselI0 (α := ℝ) terms x := by
  unfold Model.besselI0
  dsimp only
  refine (forRange_inv (fun _ (s : ℝ × ℝ) => 1 ≤ s.1 ∧ 0 ≤ s.2) terms _ _ ?_ ?_).1
  · simp
  · rintro i ⟨a, t⟩ _ ⟨h1, h2⟩
    simp only [RLadd, RLmul, RLdiv] at h1 h2 ⊢
    have ht : 0 ≤ t * (x / RealLike.two / RealLike.ofNat (i + 1)) * (x / RealLike.two / RealLike.ofNat (i + 1)) := by
      rw [mul_assoc]
      exact mul_nonneg h2 (mul_self_nonneg _)
    constructor <;> linarith

theorem besselI0_pos (terms : ℕ) (x : ℝ) : 0 < Model.besselI0 (α := ℝ) terms x :=
  lt_of_lt_of_le one_pos (besselI0_ge_one terms x)

set_option linter.unusedVariables false in
/-- the Kaiser window built by the analyzer is DFT-even: w n = w (L − n) for 0 < n < L -/
theorem kaiserWin_dft_even (L : ℕ) (beta : ℝ) (n : ℕ) (hn0 : 0 < n) (hn : n < L) :
    Model.kaiserWin (α := ℝ) L beta n = Model.kaiserWin (α := ℝ) L beta (L - n) := by
  unfold Model.kaiserWin
  simp only [RL.ofNat_eq, RL.two_eq, RL.one_eq, RL.sqrt_eq, RLsub, RLmul, RLdiv]
  rw [Nat.cast_sub hn.le]
  have key : ((L : ℝ) - n - L / 2) / (L / 2) * (((L : ℝ) - n - L / 2) / (L / 2))
      = ((n : ℝ) - L / 2) / (L / 2) * (((n : ℝ) - L / 2) / (L / 2)) := by ring
  rw [key]

theorem kaiserWin_nonneg (L : ℕ) (beta : ℝ) (n : ℕ) : 0 ≤ Model.kaiserWin (α := ℝ) L beta n := by
  unfold Model.kaiserWin
  simp only [RLdiv]
  exact div_nonneg (besselI0_pos _ _).le (besselI0_pos _ _).le

theorem kaiserWin_center (L : ℕ) (hL : 0 < L) (hev : L % 2 = 0) (beta : ℝ) : Model.kaiserWin (α := ℝ) L beta (L / 2) = 1 := by
  obtain ⟨k, rfl⟩ : ∃ k, L = 2 * k := ⟨L / 2, by omega⟩
  have hk : 2 * k / 2 = k := by omega
  unfold Model.kaiserWin
  simp only [RL.ofNat_eq, RL.two_eq, RL.one_eq, RL.sqrt_eq, RLsub, RLmul, RLdiv, hk]
  have h0 : (k : ℝ) - ((2 * k : ℕ) : ℝ) / 2 = 0 := by push_cast; ring
  rw [h0, zero_div, mul_zero, sub_zero, Real.sqrt_one, mul_one]
  exact div_self (besselI0_pos _ _).ne'

theorem kaiserAlpha_cubic (p : ℝ) :
    Model.kaiserAlpha p = ((0.0889732 * (p / 100) + (-0.493285)) * (p / 100) + 4.71469) * (p / 100) + (-0.0821377) := by
  unfold Model.kaiserAlpha
  simp only [RL.ofSci_eq, RL.ofNat_eq, RLadd, RLmul, RLdiv, RLneg, if_true]
  norm_num

#print axioms Model.coreStep_spec
#print axioms Model.coreLoop_eq_map
#print axioms Model.cachesOk_empty
#print axioms Model.band_commutes
#print axioms Model.band_commutes_zip
#print axioms Model.bandFilter_sublist
#print axioms Model.planStep_fresh_ok
#print axioms Model.history_independent
#print axioms Model.history_independent_list
#print axioms Model.plan_cached_unchanged
#print axioms Model.lazyGet_sound
#print axioms Model.lazyRun_sound
#print axioms Model.lazyRun_empty
#print axioms Model.lazy_order_independent
#print axioms Model.lazy_order_perm
#print axioms Model.lazyGet_cached
#print axioms Model.channelOf_transpose
#print axioms Model.sanitise_idem
#print axioms Model.sanitise_eq_zero_fill
#print axioms Model.ctor_copy_no_foreign_write
#print axioms Model.ctor_copy_no_write
#print axioms Model.heapFold_inv
#print axioms Model.heapRun_written_ge
#print axioms Model.ctor_inplace_writes_caller
#print axioms Model.ctor_inplace_spares_copied
#print axioms singleBinStarts_whole
#print axioms singleBinStarts_in_range
#print axioms singleBinStarts_head
#print axioms kaiserWin_dft_even
#print axioms besselI0_pos
#print axioms kaiserWin_nonneg
#print axioms kaiserWin_center
#print axioms kaiserAlpha_cubic
