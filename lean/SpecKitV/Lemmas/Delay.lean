/-
  SpecKitV.Lemmas.Delay — property C07: response of the reference estimator's windowed DFT
  (`Model.segDFT`) to a static gain `y = g·x` (exact, every detrend order) and to a pure delay
  `y n = x (n − d)` (no detrending): `Y_s(ω) = e^{−iωd} X_s(ω)` up to an explicit edge term,
  hence the transfer-function phase is `−ω d` (a lagging output has NEGATIVE phase).
-/
import SpecKitV.RealInst
import SpecKitV.Lemmas.CxC
import SpecKitV.Lemmas.Sinusoid
import SpecKitV.Model.Ref
open Finset

/-! ### static gain -/

/-- detrending is linear: `detr (g·x) = g · detr x`, every order -/
theorem detr_gain (order : ℤ) (Q : ℕ → ℕ → ℝ) (x : ℕ → ℝ) (g : ℝ) (s L n : ℕ) :
    Model.detr order Q (fun n => g * x n) s L n = g * Model.detr order Q x s L n := by
  simp only [Model.detr, sumRange_eq_sum, RL.ofNat_eq]
  split_ifs
  · rfl
  · rw [← Finset.mul_sum]; ring
  · have h : ∀ k, (∑ m ∈ range L, Q m k * (g * x (s + m)))
        = g * ∑ m ∈ range L, Q m k * x (s + m) := by
      intro k
      rw [Finset.mul_sum]
      exact Finset.sum_congr rfl (fun m _ => by ring)
    simp only [h]
    rw [mul_sub, Finset.mul_sum]
    congr 1
    exact Finset.sum_congr rfl (fun k _ => by ring)

/-- static gain, every detrend order: the DFT is linear, so Y = g·X for y = g·x -/
theorem segDFT_gain (order : ℤ) (Q : ℕ → ℕ → ℝ) (x : ℕ → ℝ) (g : ℝ) (s L : ℕ) (w : ℕ → ℝ) (ω : ℝ) :
    Model.segDFT order Q (fun n => g * x n) s L w ω = Cx.smul g (Model.segDFT order Q x s L w ω) := by
  simp only [Model.segDFT, Cx.smul, detr_gain, sumRange_eq_sum, RL.zero_eq, RL.cos_eq, RL.sin_eq,
    RL.ofNat_eq]
  congr 1
  · rw [Finset.mul_sum]
    exact Finset.sum_congr rfl (fun n _ => by ring)
  · rw [zero_sub, zero_sub, mul_neg, Finset.mul_sum]
    congr 1
    exact Finset.sum_congr rfl (fun n _ => by ring)

/-! ### pure delay -/

/-- exact decomposition for a delay d ≤ s (so that the delayed record is defined by the same
    samples), d ≤ L:
    Y − e^{−iωd} X = Σ_{m<L−d} (w(m+d) − w m)·x(s+m)·e^{−iω(m+d)}  +  Σ_{n<d} w n·x(s+n−d)·e^{−iωn}
                     −  Σ_{m=L−d}^{L−1} w m·x(s+m)·e^{−iω(m+d)}
    (`hds : d ≤ s` is kept for the stated interface; the identity itself does not use it, because
    the head term is written with the same truncated subtraction `s + n − d` as the model input.) -/
theorem delay_decomposition (Q : ℕ → ℕ → ℝ) (x : ℕ → ℝ) (d s L : ℕ) (hds : d ≤ s) (hdL : d ≤ L) (w : ℕ → ℝ) (ω : ℝ) :
    Cx.toC (Model.segDFT (-1) Q (fun n => x (n - d)) s L w ω)
      - Complex.exp (-(ω * d * Complex.I)) * Cx.toC (Model.segDFT (-1) Q x s L w ω)
    = (∑ m ∈ range (L - d), (((w (m + d) - w m) * x (s + m) : ℝ) : ℂ) * Complex.exp (-(ω * ((m + d : ℕ) : ℝ) * Complex.I)))
      + (∑ n ∈ range d, ((w n * x (s + n - d) : ℝ) : ℂ) * Complex.exp (-(ω * (n : ℝ) * Complex.I)))
      - (∑ m ∈ Ico (L - d) L, ((w m * x (s + m) : ℝ) : ℂ) * Complex.exp (-(ω * ((m + d : ℕ) : ℝ) * Complex.I))) := by
  rw [segDFT_raw_toC, segDFT_raw_toC]
  -- the Y-sum: split off the first d terms, reindex the rest by n = d + m
  have hY : (∑ n ∈ range L, ((w n * (fun n => x (n - d)) (s + n) : ℝ) : ℂ)
        * Complex.exp (-(ω * n * Complex.I)))
      = (∑ n ∈ range d, ((w n * x (s + n - d) : ℝ) : ℂ) * Complex.exp (-(ω * (n : ℝ) * Complex.I)))
        + ∑ m ∈ range (L - d), ((w (m + d) * x (s + m) : ℝ) : ℂ)
            * Complex.exp (-(ω * ((m + d : ℕ) : ℝ) * Complex.I)) := by
    have hL : L = d + (L - d) := by omega
    conv_lhs => rw [hL]
    rw [Finset.sum_range_add]
    have hA : (∑ n ∈ range d, ((w n * (fun n => x (n - d)) (s + n) : ℝ) : ℂ)
          * Complex.exp (-(ω * n * Complex.I)))
        = ∑ n ∈ range d, ((w n * x (s + n - d) : ℝ) : ℂ)
          * Complex.exp (-(ω * (n : ℝ) * Complex.I)) := by
      refine Finset.sum_congr rfl (fun n _ => ?_)
      beta_reduce
      push_cast; rfl
    have hB : (∑ m ∈ range (L - d), ((w (d + m) * (fun n => x (n - d)) (s + (d + m)) : ℝ) : ℂ)
          * Complex.exp (-(ω * ((d + m : ℕ) : ℂ) * Complex.I)))
        = ∑ m ∈ range (L - d), ((w (m + d) * x (s + m) : ℝ) : ℂ)
            * Complex.exp (-(ω * ((m + d : ℕ) : ℝ) * Complex.I)) := by
      refine Finset.sum_congr rfl (fun m _ => ?_)
      have h1 : s + (d + m) - d = s + m := by omega
      beta_reduce
      rw [h1, Nat.add_comm d m]
      push_cast; rfl
    rw [hA, hB]
  -- the X-sum: merge exponents and split at L − d
  have hX : Complex.exp (-(ω * d * Complex.I))
        * (∑ n ∈ range L, ((w n * x (s + n) : ℝ) : ℂ) * Complex.exp (-(ω * n * Complex.I)))
      = (∑ m ∈ range (L - d), ((w m * x (s + m) : ℝ) : ℂ)
            * Complex.exp (-(ω * ((m + d : ℕ) : ℝ) * Complex.I)))
        + ∑ m ∈ Ico (L - d) L, ((w m * x (s + m) : ℝ) : ℂ)
            * Complex.exp (-(ω * ((m + d : ℕ) : ℝ) * Complex.I)) := by
    rw [Finset.sum_range_add_sum_Ico _ (Nat.sub_le L d), Finset.mul_sum]
    refine Finset.sum_congr rfl (fun m _ => ?_)
    have he : Complex.exp (-(ω * ((m + d : ℕ) : ℝ) * Complex.I))
        = Complex.exp (-(ω * d * Complex.I)) * Complex.exp (-(ω * m * Complex.I)) := by
      rw [← Complex.exp_add]; congr 1; push_cast; ring
    rw [he]; ring
  rw [hY, hX]
  have hD : (∑ m ∈ range (L - d), (((w (m + d) - w m) * x (s + m) : ℝ) : ℂ)
        * Complex.exp (-(ω * ((m + d : ℕ) : ℝ) * Complex.I)))
      = (∑ m ∈ range (L - d), ((w (m + d) * x (s + m) : ℝ) : ℂ)
            * Complex.exp (-(ω * ((m + d : ℕ) : ℝ) * Complex.I)))
        - ∑ m ∈ range (L - d), ((w m * x (s + m) : ℝ) : ℂ)
            * Complex.exp (-(ω * ((m + d : ℕ) : ℝ) * Complex.I)) := by
    rw [← Finset.sum_sub_distrib]
    refine Finset.sum_congr rfl (fun m _ => ?_)
    push_cast; ring
  rw [hD]; ring

/-- `‖r · e^{−iθk}‖ = |r|` -/
theorem norm_ofReal_mul_exp_neg (r θ : ℝ) (k : ℕ) :
    ‖((r : ℝ) : ℂ) * Complex.exp (-(θ * ((k : ℝ) : ℂ) * Complex.I))‖ = |r| := by
  have h : -((θ : ℂ) * ((k : ℝ) : ℂ) * Complex.I) = ((-(θ * k) : ℝ) : ℂ) * Complex.I := by
    push_cast; ring
  rw [norm_mul, h, Complex.norm_exp_ofReal_mul_I, mul_one, Complex.norm_real, Real.norm_eq_abs]

/-- hence the explicit bound: with B a bound on |x| over the samples involved -/
theorem delay_bound (Q : ℕ → ℕ → ℝ) (x : ℕ → ℝ) (d s L : ℕ) (hds : d ≤ s) (hdL : d ≤ L) (w : ℕ → ℝ) (ω : ℝ) (B : ℝ)
    (hB : ∀ n, |x n| ≤ B) :
    ‖Cx.toC (Model.segDFT (-1) Q (fun n => x (n - d)) s L w ω)
        - Complex.exp (-(ω * d * Complex.I)) * Cx.toC (Model.segDFT (-1) Q x s L w ω)‖
      ≤ B * ((∑ m ∈ range (L - d), |w (m + d) - w m|) + (∑ n ∈ range d, |w n|) + (∑ m ∈ Ico (L - d) L, |w m|)) := by
  rw [delay_decomposition Q x d s L hds hdL w ω]
  have key : ∀ (a : ℝ) (j k : ℕ), ‖((a * x j : ℝ) : ℂ)
      * Complex.exp (-(ω * ((k : ℝ) : ℂ) * Complex.I))‖ ≤ B * |a| := by
    intro a j k
    rw [norm_ofReal_mul_exp_neg, abs_mul, mul_comm]
    exact mul_le_mul_of_nonneg_right (hB j) (abs_nonneg a)
  have h1 : ‖∑ m ∈ range (L - d), (((w (m + d) - w m) * x (s + m) : ℝ) : ℂ)
        * Complex.exp (-(ω * ((m + d : ℕ) : ℝ) * Complex.I))‖
      ≤ B * ∑ m ∈ range (L - d), |w (m + d) - w m| := by
    rw [Finset.mul_sum]
    exact (norm_sum_le _ _).trans (Finset.sum_le_sum (fun m _ => key _ _ _))
  have h2 : ‖∑ n ∈ range d, ((w n * x (s + n - d) : ℝ) : ℂ)
        * Complex.exp (-(ω * (n : ℝ) * Complex.I))‖
      ≤ B * ∑ n ∈ range d, |w n| := by
    rw [Finset.mul_sum]
    exact (norm_sum_le _ _).trans (Finset.sum_le_sum (fun m _ => key _ _ _))
  have h3 : ‖∑ m ∈ Ico (L - d) L, ((w m * x (s + m) : ℝ) : ℂ)
        * Complex.exp (-(ω * ((m + d : ℕ) : ℝ) * Complex.I))‖
      ≤ B * ∑ m ∈ Ico (L - d) L, |w m| := by
    rw [Finset.mul_sum]
    exact (norm_sum_le _ _).trans (Finset.sum_le_sum (fun m _ => key _ _ _))
  calc _ ≤ _ := norm_sub_le _ _
    _ ≤ _ := add_le_add_left (norm_add_le _ _) _
    _ ≤ B * (∑ m ∈ range (L - d), |w (m + d) - w m|) + B * (∑ n ∈ range d, |w n|)
          + B * (∑ m ∈ Ico (L - d) L, |w m|) := add_le_add (add_le_add h1 h2) h3
    _ = _ := by ring

/-! ### transfer function of a pure delay: sign convention -/

/-- sign convention: if Y = e^{−iωd}·X exactly and X ≠ 0 then
    H = conj(X·conj Y)/|X|² = Y/X = e^{−iωd}: phase −ωd, magnitude 1 -/
theorem tf_of_pure_delay (X : ℂ) (hX : X ≠ 0) (ω : ℝ) (d : ℕ) :
    let Y := Complex.exp (-(ω * d * Complex.I)) * X
    (starRingEnd ℂ) (X * (starRingEnd ℂ) Y) / (Complex.normSq X : ℂ) = Complex.exp (-(ω * d * Complex.I)) := by
  intro Y
  have hn : (Complex.normSq X : ℂ) ≠ 0 := by
    exact_mod_cast (Complex.normSq_pos.mpr hX).ne'
  rw [div_eq_iff hn]
  simp only [Y, map_mul, Complex.conj_conj]
  rw [← Complex.mul_conj X]; ring

theorem tf_of_pure_delay_arg (X : ℂ) (hX : X ≠ 0) (ω : ℝ) (d : ℕ) (h : -Real.pi < -(ω * d) ∧ -(ω * d) ≤ Real.pi) :
    Complex.arg ((starRingEnd ℂ) (X * (starRingEnd ℂ) (Complex.exp (-(ω * d * Complex.I)) * X)) / (Complex.normSq X : ℂ)) = -(ω * d) := by
  rw [tf_of_pure_delay X hX ω d]
  have he : -((ω : ℂ) * (d : ℂ) * Complex.I) = ((-(ω * d) : ℝ) : ℂ) * Complex.I := by
    push_cast; ring
  rw [he, Complex.exp_mul_I]
  exact Complex.arg_cos_add_sin_mul_I ⟨h.1, h.2⟩

/-- perturbation: if Y = e^{−iωd}X + E with |E| ≤ ε|X|, the estimate H = Y/X satisfies
    |H − e^{−iωd}| ≤ ε (so |‖H‖ − 1| ≤ ε) -/
theorem tf_delay_perturbed (X E : ℂ) (hX : X ≠ 0) (ω : ℝ) (d : ℕ) (ε : ℝ) (hE : ‖E‖ ≤ ε * ‖X‖) :
    ‖(Complex.exp (-(ω * d * Complex.I)) * X + E) / X - Complex.exp (-(ω * d * Complex.I))‖ ≤ ε := by
  have h : (Complex.exp (-(ω * d * Complex.I)) * X + E) / X - Complex.exp (-(ω * d * Complex.I))
      = E / X := by
    field_simp; ring
  rw [h, norm_div, div_le_iff₀ (norm_pos_iff.mpr hX)]
  exact hE

/-- corollary: the magnitude of the perturbed estimate is within ε of 1 -/
theorem tf_delay_perturbed_abs (X E : ℂ) (hX : X ≠ 0) (ω : ℝ) (d : ℕ) (ε : ℝ) (hE : ‖E‖ ≤ ε * ‖X‖) :
    |‖(Complex.exp (-(ω * d * Complex.I)) * X + E) / X‖ - 1| ≤ ε := by
  have h1 : ‖Complex.exp (-(ω * d * Complex.I))‖ = 1 := norm_exp_neg_mul_nat_I ω d
  have h2 := abs_norm_sub_norm_le ((Complex.exp (-(ω * d * Complex.I)) * X + E) / X)
    (Complex.exp (-(ω * d * Complex.I)))
  rw [h1] at h2
  exact h2.trans (tf_delay_perturbed X E hX ω d ε hE)

#print axioms segDFT_gain
#print axioms delay_decomposition
#print axioms delay_bound
#print axioms tf_of_pure_delay
#print axioms tf_of_pure_delay_arg
#print axioms tf_delay_perturbed
#print axioms tf_delay_perturbed_abs
