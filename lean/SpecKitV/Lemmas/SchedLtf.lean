/-
  SpecKitV.Lemmas.SchedLtf — the iterative LTF scheduler (`Model.ltfStep`, `Model.walk`) at `ℝ`:
  per-bin facts (length bounds, r·L = fs, bin number, segment count), the bmin slack,
  monotonicity in frequency, log spacing where nothing clamps, and the structure / fuel
  bound of the walk.
-/
import SpecKitV.RealInst
import SpecKitV.Model.Sched

set_option linter.unusedVariables false

/-- an admissible configuration -/
structure Adm (c : Model.Cfg ℝ) : Prop where
  hN : 8 ≤ c.N
  hfs : 0 < c.fs
  holap0 : 0 ≤ c.olap
  holap1 : c.olap < 1
  hbmin1 : 1 ≤ c.bmin
  hbminN : c.bmin < (c.N : ℝ) / 2
  hLmin1 : 1 ≤ c.Lmin
  hLminN : c.Lmin ≤ c.N
  hJ : 1 ≤ c.Jdes
  hK : 1 ≤ c.Kdes

/-! ### rounding -/

theorem roundHalfUp_eq' (v : ℝ) : Model.roundHalfUp v = ⌊v + 1 / 2⌋ := by
  have h0 : 0 ≤ v - (⌊v⌋ : ℝ) := sub_nonneg.mpr (Int.floor_le v)
  have h1 : v - (⌊v⌋ : ℝ) < 1 := by have := Int.lt_floor_add_one v; linarith
  unfold Model.roundHalfUp
  simp only [RL.ge_eq, RL.ofSci_eq, RL.floor_eq, RL.ofInt_eq, RL.ceil_eq, RL.roundEven_eq,
    if_true, decide_eq_true_eq]
  by_cases hf : (5 : ℝ) / 10 ^ 1 ≤ v - (⌊v⌋ : ℝ)
  · rw [if_pos (by exact_mod_cast hf)]
    have hf' : (1 : ℝ) / 2 ≤ v - (⌊v⌋ : ℝ) := by norm_num at hf ⊢; linarith
    have e1 : ⌈v⌉ = ⌊v⌋ + 1 := by
      rw [Int.ceil_eq_iff]; push_cast; constructor <;> linarith
    have e2 : ⌊v + 1 / 2⌋ = ⌊v⌋ + 1 := by
      rw [Int.floor_eq_iff]; push_cast; constructor <;> linarith
    rw [e1, e2]
  · rw [if_neg (by exact_mod_cast hf)]
    have hf' : v - (⌊v⌋ : ℝ) < 1 / 2 := by norm_num at hf ⊢; linarith
    have e2 : ⌊v + 1 / 2⌋ = ⌊v⌋ := by
      rw [Int.floor_eq_iff]; constructor <;> linarith
    rw [e2]
    simp only [hf', if_true]

namespace SchedLtf
open Model

/-! ### the pieces of one iteration -/

theorem clampL_cast (N Lmin : ℕ) (l : ℤ) :
    ((clampL N Lmin l : ℕ) : ℤ) = max (min l N) Lmin := by
  unfold clampL
  simp only
  split_ifs <;> omega

theorem clampL_bounds (N Lmin : ℕ) (h : Lmin ≤ N) (l : ℤ) :
    Lmin ≤ clampL N Lmin l ∧ clampL N Lmin l ≤ N := by
  have := clampL_cast N Lmin l
  omega

theorem clampL_mono (N Lmin : ℕ) {l1 l2 : ℤ} (h : l1 ≤ l2) :
    clampL N Lmin l1 ≤ clampL N Lmin l2 := by
  have h1 := clampL_cast N Lmin l1
  have h2 := clampL_cast N Lmin l2
  omega

theorem nsegRaw_eq (N : ℕ) (xov : ℝ) (L : ℕ) :
    nsegRaw N xov L = ⌊(((N : ℤ) - (L : ℤ) : ℤ) : ℝ) / (xov * (L : ℝ)) + 1 + 1 / 2⌋ := by
  unfold nsegRaw
  rw [roundHalfUp_eq']
  simp only [RL.ofInt_eq, RL.ofNat_eq, RL.one_eq]

theorem nsegRaw_ge_one (N : ℕ) (xov : ℝ) (hx : 0 < xov) (L : ℕ) (hL : L ≤ N) :
    1 ≤ nsegRaw N xov L := by
  rw [nsegRaw_eq, Int.le_floor]
  have : (0 : ℝ) ≤ (((N : ℤ) - (L : ℤ) : ℤ) : ℝ) / (xov * (L : ℝ)) := by
    apply div_nonneg
    · have : (0 : ℤ) ≤ (N : ℤ) - (L : ℤ) := by omega
      exact_mod_cast this
    · positivity
  push_cast at this ⊢
  linarith

theorem nsegRaw_self (N : ℕ) (xov : ℝ) : nsegRaw N xov N = 1 := by
  rw [nsegRaw_eq, Int.floor_eq_iff]
  simp only [sub_self, Int.cast_zero, zero_div]
  norm_num

/-- the raw segment count does not increase with the segment length -/
theorem nsegRaw_anti (N : ℕ) (xov : ℝ) (hx : 0 < xov) {L1 L2 : ℕ} (h1 : 1 ≤ L1) (h12 : L1 ≤ L2)
    (h2 : L2 ≤ N) : nsegRaw N xov L2 ≤ nsegRaw N xov L1 := by
  rw [nsegRaw_eq, nsegRaw_eq]
  apply Int.floor_le_floor
  have hL1 : (0 : ℝ) < (L1 : ℝ) := by exact_mod_cast h1
  have hL2 : (0 : ℝ) < (L2 : ℝ) := by exact_mod_cast (le_trans h1 h12)
  have hL12 : (L1 : ℝ) ≤ (L2 : ℝ) := by exact_mod_cast h12
  have hN2 : (L2 : ℝ) ≤ (N : ℝ) := by exact_mod_cast h2
  have key : (((N : ℤ) - (L2 : ℤ) : ℤ) : ℝ) / (xov * (L2 : ℝ))
      ≤ (((N : ℤ) - (L1 : ℤ) : ℤ) : ℝ) / (xov * (L1 : ℝ)) := by
    push_cast
    rw [div_le_div_iff₀ (by positivity) (by positivity)]
    have hN0 : (0 : ℝ) ≤ (N : ℝ) := by positivity
    nlinarith [mul_le_mul_of_nonneg_left hL12 (mul_nonneg hx.le hN0)]
  linarith

theorem capK_eq (N L : ℕ) (k : ℤ) : capK N L k = min k ((N : ℤ) - (L : ℤ) + 1) := by
  unfold capK
  simp only
  split_ifs <;> omega

/-- the resolution the iteration aims for before any rounding/clamping of the length
    (schedulers.py:181-193), as a function of `fi` -/
noncomputable def res0 (k : Consts ℝ) (fi : ℝ) : ℝ :=
  let fres := fi * k.logfact
  if RealLike.ge fres k.freslim then fres
  else if RealLike.lt fres k.freslim &&
      RealLike.gt (RealLike.pow (k.freslim * fres) (RealLike.ofSci 5 true 1)) k.fresmin then
    RealLike.pow (k.freslim * fres) (RealLike.ofSci 5 true 1)
  else k.fresmin

/-- ... after the `bmin` enforcement -/
noncomputable def res1 (c : Cfg ℝ) (k : Consts ℝ) (fi : ℝ) : ℝ :=
  if RealLike.lt (fi / res0 k fi) c.bmin then fi / c.bmin else res0 k fi

/-- clamped length before the single-segment rule -/
noncomputable def len0 (c : Cfg ℝ) (k : Consts ℝ) (fi : ℝ) : ℕ :=
  clampL c.N c.Lmin (roundHalfUp (c.fs / res1 c k fi))

/-- the single-segment rule -/
noncomputable def lenF (N : ℕ) (xov : ℝ) (L0 : ℕ) : ℕ :=
  if nsegRaw N xov L0 == 1 then N else L0

theorem ltfStep_eq (c : Cfg ℝ) (k : Consts ℝ) (fi : ℝ) :
    ltfStep c k fi =
      (c.fs / RealLike.ofNat (lenF c.N k.xov (len0 c k fi)),
       fi / (c.fs / RealLike.ofNat (lenF c.N k.xov (len0 c k fi))),
       lenF c.N k.xov (len0 c k fi),
       capK c.N (lenF c.N k.xov (len0 c k fi)) (nsegRaw c.N k.xov (len0 c k fi))) := rfl

theorem lenF_cases (N : ℕ) (xov : ℝ) (L0 : ℕ) :
    (nsegRaw N xov L0 = 1 ∧ lenF N xov L0 = N) ∨ (nsegRaw N xov L0 ≠ 1 ∧ lenF N xov L0 = L0) := by
  unfold lenF
  by_cases h : nsegRaw N xov L0 = 1
  · left; exact ⟨h, by simp [h]⟩
  · right; exact ⟨h, by simp [h]⟩

theorem xov_pos (c : Cfg ℝ) (h : Adm c) : 0 < (consts c).xov := by
  show 0 < RealLike.one - c.olap
  rw [RL.one_eq]; linarith [h.holap1]

theorem len0_bounds (c : Cfg ℝ) (h : Adm c) (k : Consts ℝ) (fi : ℝ) :
    c.Lmin ≤ len0 c k fi ∧ len0 c k fi ≤ c.N := clampL_bounds _ _ h.hLminN _

theorem lenF_bounds (c : Cfg ℝ) (h : Adm c) (k : Consts ℝ) (fi : ℝ) :
    len0 c k fi ≤ lenF c.N k.xov (len0 c k fi) ∧ lenF c.N k.xov (len0 c k fi) ≤ c.N := by
  have hb := len0_bounds c h k fi
  rcases lenF_cases c.N k.xov (len0 c k fi) with ⟨_, e⟩ | ⟨_, e⟩ <;> rw [e] <;> omega

end SchedLtf

open SchedLtf

/-! ### per-bin facts -/

/-- per-bin facts for EVERY positive frequency fi -/
theorem ltfStep_L_bounds (c : Model.Cfg ℝ) (h : Adm c) (fi : ℝ) (hfi : 0 < fi) :
    let o := Model.ltfStep c (Model.consts c) fi
    max 1 c.Lmin ≤ o.2.2.1 ∧ o.2.2.1 ≤ c.N := by
  intro o
  have e : o.2.2.1 = lenF c.N (Model.consts c).xov (len0 c (Model.consts c) fi) := rfl
  have hb := len0_bounds c h (Model.consts c) fi
  have hf := lenF_bounds c h (Model.consts c) fi
  have := h.hLmin1
  rw [e]
  omega

theorem ltfStep_rL (c : Model.Cfg ℝ) (h : Adm c) (fi : ℝ) (hfi : 0 < fi) :
    let o := Model.ltfStep c (Model.consts c) fi
    o.1 * (o.2.2.1 : ℝ) = c.fs ∧ 0 < o.1 ∧ c.fs / c.N ≤ o.1 := by
  intro o
  obtain ⟨hl, hu⟩ := ltfStep_L_bounds c h fi hfi
  have e : o.1 = c.fs / (o.2.2.1 : ℝ) := rfl
  have hL1 : (1 : ℝ) ≤ (o.2.2.1 : ℝ) := by
    have : 1 ≤ o.2.2.1 := le_trans (le_max_left _ _) hl
    exact_mod_cast this
  have hLN : (o.2.2.1 : ℝ) ≤ (c.N : ℝ) := by exact_mod_cast hu
  have hL0 : (0 : ℝ) < (o.2.2.1 : ℝ) := by linarith
  have hfs := h.hfs
  refine ⟨?_, ?_, ?_⟩
  · rw [e]; field_simp
  · rw [e]; positivity
  · rw [e]; exact div_le_div_of_nonneg_left hfs.le hL0 hLN

theorem ltfStep_bin (c : Model.Cfg ℝ) (h : Adm c) (fi : ℝ) (hfi : 0 < fi) :
    let o := Model.ltfStep c (Model.consts c) fi
    o.2.1 = fi / o.1 ∧ o.2.1 = fi * (o.2.2.1 : ℝ) / c.fs := by
  intro o
  have e1 : o.2.1 = fi / o.1 := rfl
  have e : o.1 = c.fs / (o.2.2.1 : ℝ) := rfl
  refine ⟨e1, ?_⟩
  rw [e1, e, div_div_eq_mul_div]

theorem ltfStep_K (c : Model.Cfg ℝ) (h : Adm c) (fi : ℝ) (hfi : 0 < fi) :
    let o := Model.ltfStep c (Model.consts c) fi
    1 ≤ o.2.2.2 ∧ o.2.2.2 ≤ (c.N : ℤ) - o.2.2.1 + 1 ∧ (o.2.2.2 = 1 → o.2.2.1 = c.N) ∧
    o.2.2.2 = Model.capK c.N o.2.2.1 (Model.nsegRaw c.N (1 - c.olap) o.2.2.1) := by
  intro o
  have eL : o.2.2.1 = lenF c.N (Model.consts c).xov (len0 c (Model.consts c) fi) := rfl
  have eK : o.2.2.2 = Model.capK c.N (lenF c.N (Model.consts c).xov (len0 c (Model.consts c) fi))
      (Model.nsegRaw c.N (Model.consts c).xov (len0 c (Model.consts c) fi)) := rfl
  have ex : (Model.consts c).xov = 1 - c.olap := by
    show RealLike.one - c.olap = 1 - c.olap
    rw [RL.one_eq]
  have hx := xov_pos c h
  have hb := len0_bounds c h (Model.consts c) fi
  have hf := lenF_bounds c h (Model.consts c) fi
  have hn := nsegRaw_ge_one c.N _ hx _ hb.2
  rw [eK, eL, ← ex]
  generalize (Model.consts c).xov = xov at *
  generalize len0 c (Model.consts c) fi = L0 at *
  rw [capK_eq, capK_eq]
  rcases lenF_cases c.N xov L0 with ⟨e1, e2⟩ | ⟨e1, e2⟩
  · rw [e2, e1, nsegRaw_self]
    omega
  · rw [e2] at hf ⊢
    omega

/-! ### the walk: structural facts for any `step` -/

namespace SchedLtf
open Model

theorem walk_zero (fmax : ℝ) (step : ℝ → ℝ × ℝ × ℕ × ℤ) (fi : ℝ) :
    walk 0 fmax step fi = [] := rfl

theorem walk_succ_lt (n : ℕ) (fmax : ℝ) (step : ℝ → ℝ × ℝ × ℕ × ℤ) (fi : ℝ) (hlt : fi < fmax) :
    walk (n + 1) fmax step fi =
      (fi, (step fi).1, (step fi).2.1, (step fi).2.2.1, (step fi).2.2.2)
        :: walk n fmax step (fi + (step fi).1) := by
  rw [walk]
  simp only [RL.lt_eq, hlt, decide_true, if_true]

theorem walk_succ_ge (n : ℕ) (fmax : ℝ) (step : ℝ → ℝ × ℝ × ℕ × ℤ) (fi : ℝ) (hge : ¬ fi < fmax) :
    walk (n + 1) fmax step fi = [] := by
  rw [walk]
  simp only [RL.lt_eq, hge, decide_false, Bool.false_eq_true, if_false]

theorem walk_ge (n : ℕ) (fmax : ℝ) (step : ℝ → ℝ × ℝ × ℕ × ℤ) (fi : ℝ) (hge : ¬ fi < fmax) :
    walk n fmax step fi = [] := by
  cases n with
  | zero => rfl
  | succ n => exact walk_succ_ge n fmax step fi hge

/-- all recorded frequencies are ≥ the start when the steps from there on are nonnegative -/
theorem walk_ge_start (fuel : ℕ) (fmax : ℝ) (step : ℝ → ℝ × ℝ × ℕ × ℤ) (fi : ℝ)
    (hstep : ∀ f, fi ≤ f → 0 ≤ (step f).1) :
    ∀ e ∈ walk fuel fmax step fi, fi ≤ e.1 := by
  induction fuel generalizing fi with
  | zero => intro e he; simp [walk_zero] at he
  | succ n ih =>
    intro e he
    by_cases hlt : fi < fmax
    · rw [walk_succ_lt n fmax step fi hlt, List.mem_cons] at he
      rcases he with rfl | he
      · exact le_refl _
      · have h0 := hstep fi (le_refl _)
        have := ih (fi + (step fi).1) (fun f hf => hstep f (by linarith)) e he
        linarith
    · rw [walk_succ_ge n fmax step fi hlt] at he; simp at he

/-- fuel bound with the step bounded below only on `[fi, ∞)` -/
theorem walk_fuel_enough_from (fmax δ : ℝ) (hδ : 0 < δ) (step : ℝ → ℝ × ℝ × ℕ × ℤ)
    (fuel : ℕ) (fi : ℝ) (hstep : ∀ f, fi ≤ f → δ ≤ (step f).1)
    (hfuel : (fmax - fi) / δ + 1 ≤ fuel) (extra : ℕ) :
    walk (fuel + extra) fmax step fi = walk fuel fmax step fi := by
  induction fuel generalizing fi with
  | zero =>
    have h1 : (fmax - fi) / δ + 1 ≤ 0 := by simpa using hfuel
    have h2 : (fmax - fi) / δ < 0 := by linarith
    have h3 : fmax - fi < 0 := by
      by_contra hc
      have : 0 ≤ (fmax - fi) / δ := div_nonneg (not_lt.mp hc) hδ.le
      linarith
    rw [walk_ge _ fmax step fi (by linarith), walk_ge _ fmax step fi (by linarith)]
  | succ n ih =>
    have e : n + 1 + extra = (n + extra) + 1 := by omega
    rw [e]
    by_cases hlt : fi < fmax
    · rw [walk_succ_lt _ fmax step fi hlt, walk_succ_lt _ fmax step fi hlt]
      congr 1
      have hs := hstep fi (le_refl _)
      apply ih
      · intro f hf; exact hstep f (by linarith)
      · have h1 : (fmax - (fi + (step fi).1)) / δ ≤ (fmax - fi) / δ - 1 := by
          rw [div_le_iff₀ hδ, sub_mul, div_mul_cancel₀ _ hδ.ne']
          linarith
        push_cast at hfuel
        linarith
    · rw [walk_succ_ge _ fmax step fi hlt, walk_succ_ge _ fmax step fi hlt]

end SchedLtf

theorem walk_first (fuel : ℕ) (fmax : ℝ) (step : ℝ → ℝ × ℝ × ℕ × ℤ) (fi : ℝ) (hf : 0 < fuel) (hlt : fi < fmax) :
    (Model.walk fuel fmax step fi).head? = some (fi, (step fi).1, (step fi).2.1, (step fi).2.2.1, (step fi).2.2.2) := by
  obtain ⟨n, rfl⟩ : ∃ n, fuel = n + 1 := ⟨fuel - 1, by omega⟩
  rw [walk_succ_lt n fmax step fi hlt]
  rfl

theorem walk_below (fuel : ℕ) (fmax : ℝ) (step : ℝ → ℝ × ℝ × ℕ × ℤ) (fi : ℝ) :
    ∀ e ∈ Model.walk fuel fmax step fi, e.1 < fmax := by
  induction fuel generalizing fi with
  | zero => intro e he; simp [walk_zero] at he
  | succ n ih =>
    intro e he
    by_cases hlt : fi < fmax
    · rw [walk_succ_lt n fmax step fi hlt, List.mem_cons] at he
      rcases he with rfl | he
      · exact hlt
      · exact ih _ e he
    · rw [walk_succ_ge n fmax step fi hlt] at he; simp at he

theorem walk_entry_is_step (fuel : ℕ) (fmax : ℝ) (step : ℝ → ℝ × ℝ × ℕ × ℤ) (fi : ℝ) :
    ∀ e ∈ Model.walk fuel fmax step fi, e.2 = step e.1 := by
  induction fuel generalizing fi with
  | zero => intro e he; simp [walk_zero] at he
  | succ n ih =>
    intro e he
    by_cases hlt : fi < fmax
    · rw [walk_succ_lt n fmax step fi hlt, List.mem_cons] at he
      rcases he with rfl | he
      · rfl
      · exact ih _ e he
    · rw [walk_succ_ge n fmax step fi hlt] at he; simp at he

/-- consecutive entries: f[j+1] = f[j] + r[j] -/
theorem walk_stepping (fuel : ℕ) (fmax : ℝ) (step : ℝ → ℝ × ℝ × ℕ × ℤ) (fi : ℝ) :
    (Model.walk fuel fmax step fi).IsChain (fun a b => b.1 = a.1 + a.2.1) := by
  induction fuel generalizing fi with
  | zero => rw [walk_zero]; exact List.IsChain.nil
  | succ n ih =>
    by_cases hlt : fi < fmax
    · rw [walk_succ_lt n fmax step fi hlt]
      have hrec := ih (fi + (step fi).1)
      cases n with
      | zero => rw [walk_zero]; exact List.IsChain.singleton _
      | succ m =>
        by_cases hlt2 : fi + (step fi).1 < fmax
        · rw [walk_succ_lt m fmax step _ hlt2] at hrec ⊢
          exact List.IsChain.cons_cons rfl hrec
        · rw [walk_succ_ge m fmax step _ hlt2]; exact List.IsChain.singleton _
    · rw [walk_succ_ge n fmax step fi hlt]; exact List.IsChain.nil

/-- with every step at least δ > 0, fuel ≥ (fmax − fi)/δ + 1 is enough: more fuel changes nothing -/
theorem walk_fuel_enough (fmax δ : ℝ) (hδ : 0 < δ) (step : ℝ → ℝ × ℝ × ℕ × ℤ) (hstep : ∀ f, δ ≤ (step f).1)
    (fuel : ℕ) (fi : ℝ) (hfuel : (fmax - fi) / δ + 1 ≤ fuel) (extra : ℕ) :
    Model.walk (fuel + extra) fmax step fi = Model.walk fuel fmax step fi :=
  walk_fuel_enough_from fmax δ hδ step fuel fi (fun f _ => hstep f) hfuel extra

/-! ### the LTF walk -/

namespace SchedLtf
open Model

theorem fmin_eq (c : Cfg ℝ) : (consts c).fmin = c.fs / (c.N : ℝ) * c.bmin := rfl
theorem fmax_eq (c : Cfg ℝ) : (consts c).fmax = c.fs / 2 := by
  show c.fs / RealLike.two = c.fs / 2
  rw [RL.two_eq]

theorem N_pos (c : Cfg ℝ) (h : Adm c) : (0 : ℝ) < (c.N : ℝ) := by
  have : 0 < c.N := lt_of_lt_of_le (by norm_num) h.hN
  exact_mod_cast this

theorem fmin_pos (c : Cfg ℝ) (h : Adm c) : 0 < (consts c).fmin := by
  rw [fmin_eq]
  have := N_pos c h
  have := h.hfs
  have := h.hbmin1
  positivity

theorem fmin_lt_fmax (c : Cfg ℝ) (h : Adm c) : (consts c).fmin < (consts c).fmax := by
  rw [fmin_eq, fmax_eq]
  have hN := N_pos c h
  have hfs := h.hfs
  have hb := h.hbminN
  rw [div_mul_eq_mul_div, div_lt_div_iff₀ hN (by norm_num)]
  have : c.bmin * 2 < (c.N : ℝ) := by linarith
  nlinarith

end SchedLtf

/-- for the LTF walk: N iterations suffice, there is at least one bin, and every recorded frequency is ≥ fmin -/
theorem ltf_walk_fuel (c : Model.Cfg ℝ) (h : Adm c) (extra : ℕ) :
    Model.walk (c.N + extra) (Model.consts c).fmax (Model.ltfStep c (Model.consts c)) (Model.consts c).fmin
      = Model.walk c.N (Model.consts c).fmax (Model.ltfStep c (Model.consts c)) (Model.consts c).fmin := by
  have hN := N_pos c h
  have hfs := h.hfs
  have hpos := fmin_pos c h
  apply walk_fuel_enough_from _ (c.fs / (c.N : ℝ)) (by positivity)
  · intro f hf
    exact (ltfStep_rL c h f (by linarith)).2.2
  · rw [fmin_eq, fmax_eq]
    have e : (c.fs / 2 - c.fs / (c.N : ℝ) * c.bmin) / (c.fs / (c.N : ℝ)) = (c.N : ℝ) / 2 - c.bmin := by
      field_simp
    rw [e]
    have := h.hbmin1
    linarith

theorem ltf_walk_nonempty (c : Model.Cfg ℝ) (h : Adm c) :
    Model.walk c.N (Model.consts c).fmax (Model.ltfStep c (Model.consts c)) (Model.consts c).fmin ≠ [] := by
  have hN : 0 < c.N := lt_of_lt_of_le (by norm_num) h.hN
  have := walk_first c.N _ (Model.ltfStep c (Model.consts c)) _ hN (fmin_lt_fmax c h)
  intro hnil
  rw [hnil] at this
  simp at this

theorem ltf_walk_ge_fmin (c : Model.Cfg ℝ) (h : Adm c) :
    ∀ e ∈ Model.walk c.N (Model.consts c).fmax (Model.ltfStep c (Model.consts c)) (Model.consts c).fmin,
      (Model.consts c).fmin ≤ e.1 := by
  apply walk_ge_start
  intro f hf
  have hpos := fmin_pos c h
  exact (ltfStep_rL c h f (by linarith)).2.1.le

/-! ### the target resolution as a function of frequency -/

namespace SchedLtf
open Model

theorem xov_eq (c : Cfg ℝ) : (consts c).xov = 1 - c.olap := by
  show RealLike.one - c.olap = 1 - c.olap
  rw [RL.one_eq]

theorem fresmin_eq (c : Cfg ℝ) : (consts c).fresmin = c.fs / (c.N : ℝ) := rfl

theorem freslim_eq (c : Cfg ℝ) :
    (consts c).freslim = c.fs / (c.N : ℝ) * (1 + (1 - c.olap) * ((c.Kdes : ℝ) - 1)) := by
  show c.fs / (c.N : ℝ) * (RealLike.one + (RealLike.one - c.olap) * ((c.Kdes : ℝ) - RealLike.one)) = _
  rw [RL.one_eq]

theorem logfact_eq (c : Cfg ℝ) :
    (consts c).logfact = ((c.N : ℝ) / 2) ^ ((1 : ℝ) / (c.Jdes : ℝ)) - 1 := by
  show RealLike.pow ((c.N : ℝ) / RealLike.two) (RealLike.one / (c.Jdes : ℝ)) - RealLike.one = _
  rw [RL.one_eq, RL.two_eq, RL.pow_eq]

theorem fresmin_pos (c : Cfg ℝ) (h : Adm c) : 0 < (consts c).fresmin := by
  rw [fresmin_eq]
  have := N_pos c h
  have := h.hfs
  positivity

theorem fresmin_le_freslim (c : Cfg ℝ) (h : Adm c) : (consts c).fresmin ≤ (consts c).freslim := by
  rw [freslim_eq, fresmin_eq]
  have h0 : 0 ≤ c.fs / (c.N : ℝ) := by
    have := N_pos c h
    have := h.hfs
    positivity
  have hK : (1 : ℝ) ≤ (c.Kdes : ℝ) := by exact_mod_cast h.hK
  have hx : 0 ≤ 1 - c.olap := by linarith [h.holap1]
  have : 0 ≤ (1 - c.olap) * ((c.Kdes : ℝ) - 1) := mul_nonneg hx (by linarith)
  nlinarith

theorem logfact_pos (c : Cfg ℝ) (h : Adm c) : 0 < (consts c).logfact := by
  rw [logfact_eq]
  have hN : (8 : ℝ) ≤ (c.N : ℝ) := by exact_mod_cast h.hN
  have hJ : (0 : ℝ) < (c.Jdes : ℝ) := by
    have : 0 < c.Jdes := h.hJ
    exact_mod_cast this
  have := Real.one_lt_rpow (x := (c.N : ℝ) / 2) (z := 1 / (c.Jdes : ℝ)) (by linarith) (by positivity)
  linarith

/-- closed form of the target resolution -/
noncomputable def gres (lim rmin x : ℝ) : ℝ :=
  if lim ≤ x then x else max (Real.sqrt (lim * x)) rmin

theorem res0_eq (k : Consts ℝ) (fi : ℝ) :
    res0 k fi = gres k.freslim k.fresmin (fi * k.logfact) := by
  unfold res0 gres
  simp only [RL.ge_eq, RL.lt_eq, RL.gt_eq, RL.pow_eq, RL.ofSci_eq, if_true, decide_eq_true_eq,
    Bool.and_eq_true]
  have e : ((5 : ℕ) : ℝ) / 10 ^ 1 = 1 / (2 : ℝ) := by norm_num
  rw [e, ← Real.sqrt_eq_rpow]
  by_cases h1 : k.freslim ≤ fi * k.logfact
  · rw [if_pos h1, if_pos h1]
  · rw [if_neg h1, if_neg h1]
    have h1' : fi * k.logfact < k.freslim := not_le.mp h1
    by_cases h2 : k.fresmin < Real.sqrt (k.freslim * (fi * k.logfact))
    · rw [if_pos ⟨h1', h2⟩, max_eq_left h2.le]
    · rw [if_neg (fun hh => h2 hh.2), max_eq_right (not_lt.mp h2)]

theorem gres_pos {lim rmin x : ℝ} (hr : 0 < rmin) (hl : rmin ≤ lim) : 0 < gres lim rmin x := by
  unfold gres
  split_ifs with h1
  · linarith
  · exact lt_of_lt_of_le hr (le_max_right _ _)

theorem gres_mono {lim rmin x1 x2 : ℝ} (hr : 0 < rmin) (hl : rmin ≤ lim) (h12 : x1 ≤ x2) :
    gres lim rmin x1 ≤ gres lim rmin x2 := by
  have hlim : 0 ≤ lim := by linarith
  unfold gres
  by_cases h1 : lim ≤ x1
  · rw [if_pos h1, if_pos (le_trans h1 h12)]; exact h12
  · rw [if_neg h1]
    have h1' : x1 < lim := not_le.mp h1
    by_cases h2 : lim ≤ x2
    · rw [if_pos h2]
      apply max_le
      · calc Real.sqrt (lim * x1) ≤ Real.sqrt (lim * lim) :=
              Real.sqrt_le_sqrt (mul_le_mul_of_nonneg_left h1'.le hlim)
          _ = lim := Real.sqrt_mul_self hlim
          _ ≤ x2 := h2
      · linarith
    · rw [if_neg h2]
      exact max_le_max (Real.sqrt_le_sqrt (mul_le_mul_of_nonneg_left h12 hlim)) le_rfl

theorem res0_pos (c : Cfg ℝ) (h : Adm c) (fi : ℝ) : 0 < res0 (consts c) fi := by
  rw [res0_eq]
  exact gres_pos (fresmin_pos c h) (fresmin_le_freslim c h)

theorem res0_mono (c : Cfg ℝ) (h : Adm c) {f1 f2 : ℝ} (h12 : f1 ≤ f2) :
    res0 (consts c) f1 ≤ res0 (consts c) f2 := by
  rw [res0_eq, res0_eq]
  exact gres_mono (fresmin_pos c h) (fresmin_le_freslim c h)
    (mul_le_mul_of_nonneg_right h12 (logfact_pos c h).le)

theorem res1_def (c : Cfg ℝ) (k : Consts ℝ) (fi : ℝ) :
    res1 c k fi = if fi / res0 k fi < c.bmin then fi / c.bmin else res0 k fi := by
  unfold res1
  simp only [RL.lt_eq, decide_eq_true_eq]

/-- whatever the target resolution was, after the `bmin` enforcement `0 < fres ≤ fi / bmin` -/
theorem res1_spec (c : Cfg ℝ) (k : Consts ℝ) (fi : ℝ) (hfi : 0 < fi) (hb : 1 ≤ c.bmin) :
    0 < res1 c k fi ∧ res1 c k fi ≤ fi / c.bmin := by
  have hb0 : 0 < c.bmin := by linarith
  rw [res1_def]
  by_cases h1 : fi / res0 k fi < c.bmin
  · rw [if_pos h1]
    exact ⟨by positivity, le_refl _⟩
  · rw [if_neg h1]
    have h1' : c.bmin ≤ fi / res0 k fi := not_lt.mp h1
    have hr : 0 < res0 k fi := by
      by_contra hc
      have : fi / res0 k fi ≤ 0 := div_nonpos_of_nonneg_of_nonpos hfi.le (not_lt.mp hc)
      linarith
    refine ⟨hr, ?_⟩
    rw [le_div_iff₀ hb0]
    rw [le_div_iff₀ hr] at h1'
    linarith

theorem res1_eq_min (c : Cfg ℝ) (h : Adm c) (fi : ℝ) :
    res1 c (consts c) fi = min (res0 (consts c) fi) (fi / c.bmin) := by
  have hb0 : 0 < c.bmin := by linarith [h.hbmin1]
  have hr := res0_pos c h fi
  rw [res1_def]
  have hiff : fi / res0 (consts c) fi < c.bmin ↔ fi / c.bmin < res0 (consts c) fi := by
    rw [div_lt_iff₀ hr, div_lt_iff₀ hb0, mul_comm]
  by_cases h1 : fi / res0 (consts c) fi < c.bmin
  · rw [if_pos h1, min_eq_right (hiff.mp h1).le]
  · rw [if_neg h1, min_eq_left (not_lt.mp (fun hh => h1 (hiff.mpr hh)))]

theorem res1_mono (c : Cfg ℝ) (h : Adm c) {f1 f2 : ℝ} (h12 : f1 ≤ f2) :
    res1 c (consts c) f1 ≤ res1 c (consts c) f2 := by
  have hb0 : 0 < c.bmin := by linarith [h.hbmin1]
  rw [res1_eq_min c h, res1_eq_min c h]
  exact min_le_min (res0_mono c h h12) (div_le_div_of_nonneg_right h12 hb0.le)

theorem len0_eq (c : Cfg ℝ) (k : Consts ℝ) (fi : ℝ) :
    len0 c k fi = clampL c.N c.Lmin ⌊c.fs / res1 c k fi + 1 / 2⌋ := by
  unfold len0
  rw [roundHalfUp_eq']

theorem len0_anti (c : Cfg ℝ) (h : Adm c) {f1 f2 : ℝ} (h1 : 0 < f1) (h12 : f1 ≤ f2) :
    len0 c (consts c) f2 ≤ len0 c (consts c) f1 := by
  rw [len0_eq, len0_eq]
  apply clampL_mono
  apply Int.floor_le_floor
  have hp1 := (res1_spec c (consts c) f1 h1 h.hbmin1).1
  have hm := res1_mono c h h12
  have := div_le_div_of_nonneg_left h.hfs.le hp1 hm
  linarith

theorem lenF_mono (N : ℕ) (xov : ℝ) (hx : 0 < xov) {a b : ℕ} (ha : 1 ≤ a) (hab : a ≤ b)
    (hb : b ≤ N) : lenF N xov a ≤ lenF N xov b := by
  have hn := nsegRaw_anti N xov hx ha hab hb
  have hb1 := nsegRaw_ge_one N xov hx b hb
  rcases lenF_cases N xov a with ⟨e1, e2⟩ | ⟨e1, e2⟩ <;>
    rcases lenF_cases N xov b with ⟨e3, e4⟩ | ⟨e3, e4⟩ <;> rw [e2, e4]
  · exact absurd (by omega : nsegRaw N xov b = 1) e3
  · omega
  · exact hab

theorem capK_nseg_anti (N : ℕ) (xov : ℝ) (hx : 0 < xov) {a b : ℕ} (ha : 1 ≤ a) (hab : a ≤ b)
    (hb : b ≤ N) : capK N b (nsegRaw N xov b) ≤ capK N a (nsegRaw N xov a) := by
  have hn := nsegRaw_anti N xov hx ha hab hb
  rw [capK_eq, capK_eq]
  omega

end SchedLtf

/-- no bin falls below bmin by more than the rounding of L allows (for frequencies at or above the first one) -/
theorem ltfStep_bmin_slack (c : Model.Cfg ℝ) (h : Adm c) (fi : ℝ) (hfi : c.fs / c.N * c.bmin ≤ fi) :
    let o := Model.ltfStep c (Model.consts c) fi
    c.bmin - fi / (2 * c.fs) ≤ o.2.1 := by
  intro o
  have hfs := h.hfs
  have hN := N_pos c h
  have hb1 := h.hbmin1
  have hfi0 : 0 < fi := lt_of_lt_of_le (fmin_pos c h) hfi
  have ebin := (ltfStep_bin c h fi hfi0).2
  have eL : o.2.2.1 = lenF c.N (Model.consts c).xov (len0 c (Model.consts c) fi) := rfl
  obtain ⟨hr0, hr1⟩ := res1_spec c (Model.consts c) fi hfi0 hb1
  have hlf := lenF_bounds c h (Model.consts c) fi
  have hcast := clampL_cast c.N c.Lmin ⌊c.fs / res1 c (Model.consts c) fi + 1 / 2⌋
  rw [← len0_eq] at hcast
  -- the length is at least fs·bmin/fi − 1/2
  have key : c.fs * c.bmin / fi - 1 / 2 ≤ (o.2.2.1 : ℝ) := by
    rw [eL]
    by_cases hl : ⌊c.fs / res1 c (Model.consts c) fi + 1 / 2⌋ ≤ (c.N : ℤ)
    · have h1 : ⌊c.fs / res1 c (Model.consts c) fi + 1 / 2⌋
          ≤ ((lenF c.N (Model.consts c).xov (len0 c (Model.consts c) fi) : ℕ) : ℤ) := by omega
      have h2 : ((⌊c.fs / res1 c (Model.consts c) fi + 1 / 2⌋ : ℤ) : ℝ)
          ≤ ((lenF c.N (Model.consts c).xov (len0 c (Model.consts c) fi) : ℕ) : ℝ) := by
        exact_mod_cast h1
      have h3 := Int.lt_floor_add_one (c.fs / res1 c (Model.consts c) fi + 1 / 2)
      have h4 : c.fs * c.bmin / fi ≤ c.fs / res1 c (Model.consts c) fi := by
        rw [div_le_div_iff₀ hfi0 hr0]
        rw [le_div_iff₀ (by linarith)] at hr1
        nlinarith
      linarith
    · have h1 : lenF c.N (Model.consts c).xov (len0 c (Model.consts c) fi) = c.N := by omega
      rw [h1]
      have h4 : c.fs * c.bmin / fi ≤ (c.N : ℝ) := by
        rw [div_le_iff₀ hfi0]
        have : c.fs / (c.N : ℝ) * c.bmin * (c.N : ℝ) ≤ fi * (c.N : ℝ) :=
          mul_le_mul_of_nonneg_right hfi hN.le
        have e : c.fs / (c.N : ℝ) * c.bmin * (c.N : ℝ) = c.fs * c.bmin := by field_simp
        linarith
      linarith
  rw [ebin]
  have hq : 0 ≤ fi / c.fs := by positivity
  calc c.bmin - fi / (2 * c.fs) = fi / c.fs * (c.fs * c.bmin / fi - 1 / 2) := by
        field_simp
    _ ≤ fi / c.fs * (o.2.2.1 : ℝ) := mul_le_mul_of_nonneg_left key hq
    _ = fi * (o.2.2.1 : ℝ) / c.fs := by ring

/-- monotone in frequency: L never increases, K never decreases -/
theorem ltfStep_mono (c : Model.Cfg ℝ) (h : Adm c) (f1 f2 : ℝ) (h1 : 0 < f1) (h12 : f1 ≤ f2) :
    (Model.ltfStep c (Model.consts c) f2).2.2.1 ≤ (Model.ltfStep c (Model.consts c) f1).2.2.1 ∧
    (Model.ltfStep c (Model.consts c) f1).2.2.2 ≤ (Model.ltfStep c (Model.consts c) f2).2.2.2 := by
  have h2 : 0 < f2 := lt_of_lt_of_le h1 h12
  have hx := xov_pos c h
  have hL : (Model.ltfStep c (Model.consts c) f2).2.2.1 ≤ (Model.ltfStep c (Model.consts c) f1).2.2.1 := by
    show lenF c.N (Model.consts c).xov (len0 c (Model.consts c) f2)
        ≤ lenF c.N (Model.consts c).xov (len0 c (Model.consts c) f1)
    have hb2 := len0_bounds c h (Model.consts c) f2
    have hb1 := len0_bounds c h (Model.consts c) f1
    have := h.hLmin1
    exact lenF_mono c.N _ hx (by omega) (len0_anti c h h1 h12) hb1.2
  refine ⟨hL, ?_⟩
  have k1 := (ltfStep_K c h f1 h1).2.2.2
  have k2 := (ltfStep_K c h f2 h2).2.2.2
  have b1 := ltfStep_L_bounds c h f1 h1
  have b2 := ltfStep_L_bounds c h f2 h2
  simp only at k1 k2 b1 b2
  rw [k1, k2]
  rw [xov_eq] at hx
  exact capK_nseg_anti c.N _ hx (le_trans (le_max_left _ _) b2.1) hL b1.2

/-- log spacing where nothing clamps: in the branch fi·logfact ≥ freslim, if no clamp changed L then |L − fs/(fi·logfact)| ≤ 1/2 -/
theorem ltfStep_logspaced (c : Model.Cfg ℝ) (h : Adm c) (fi : ℝ) (hfi : 0 < fi)
    (hbr : (Model.consts c).freslim ≤ fi * (Model.consts c).logfact)
    (hb : c.bmin ≤ 1 / (Model.consts c).logfact)
    (hcl : (c.Lmin : ℤ) ≤ ⌊c.fs / (fi * (Model.consts c).logfact) + 1 / 2⌋ ∧ ⌊c.fs / (fi * (Model.consts c).logfact) + 1 / 2⌋ ≤ c.N)
    (hk : Model.nsegRaw c.N (1 - c.olap) (⌊c.fs / (fi * (Model.consts c).logfact) + 1 / 2⌋).toNat ≠ 1) :
    let o := Model.ltfStep c (Model.consts c) fi
    |(o.2.2.1 : ℝ) - c.fs / (fi * (Model.consts c).logfact)| ≤ 1 / 2 := by
  intro o
  have eL : o.2.2.1 = lenF c.N (Model.consts c).xov (len0 c (Model.consts c) fi) := rfl
  have e0 : res0 (Model.consts c) fi = fi * (Model.consts c).logfact := by
    rw [res0_eq]; unfold gres; rw [if_pos hbr]
  have e1 : res1 c (Model.consts c) fi = fi * (Model.consts c).logfact := by
    rw [res1_def, e0, if_neg]
    rw [div_mul_cancel_left₀ hfi.ne', ← one_div]
    exact not_lt.mpr hb
  have hcast := clampL_cast c.N c.Lmin ⌊c.fs / res1 c (Model.consts c) fi + 1 / 2⌋
  rw [← len0_eq, e1] at hcast
  have e2 : len0 c (Model.consts c) fi = (⌊c.fs / (fi * (Model.consts c).logfact) + 1 / 2⌋).toNat := by
    omega
  have e3 : lenF c.N (Model.consts c).xov (len0 c (Model.consts c) fi) = len0 c (Model.consts c) fi := by
    rcases lenF_cases c.N (Model.consts c).xov (len0 c (Model.consts c) fi) with ⟨e, _⟩ | ⟨_, e⟩
    · rw [e2, xov_eq] at e; exact absurd e hk
    · exact e
  have e4 : ((o.2.2.1 : ℕ) : ℤ) = ⌊c.fs / (fi * (Model.consts c).logfact) + 1 / 2⌋ := by
    rw [eL, e3]; omega
  have e5 : (o.2.2.1 : ℝ) = ((⌊c.fs / (fi * (Model.consts c).logfact) + 1 / 2⌋ : ℤ) : ℝ) := by
    rw [← e4]; norm_cast
  rw [e5, abs_le]
  have f1 := Int.floor_le (c.fs / (fi * (Model.consts c).logfact) + 1 / 2)
  have f2 := Int.lt_floor_add_one (c.fs / (fi * (Model.consts c).logfact) + 1 / 2)
  constructor <;> linarith

/-- non-vacuity: a concrete admissible configuration -/
example : Adm { N := 1000, fs := 2, olap := 1/2, bmin := 1, Lmin := 1, Jdes := 100, Kdes := 10 } := by
  constructor <;> norm_num

#print axioms roundHalfUp_eq'
#print axioms ltfStep_L_bounds
#print axioms ltfStep_rL
#print axioms ltfStep_bin
#print axioms ltfStep_K
#print axioms ltfStep_bmin_slack
#print axioms ltfStep_mono
#print axioms ltfStep_logspaced
#print axioms walk_first
#print axioms walk_below
#print axioms walk_entry_is_step
#print axioms walk_stepping
#print axioms walk_fuel_enough
#print axioms ltf_walk_fuel
#print axioms ltf_walk_nonempty
#print axioms ltf_walk_ge_fmin
