/-
  SpecKitV.Lemmas.Arcsin — phase error `arcsin(√(1−g))/√(2gn)` versus relative magnitude error
  `√(1−g)/√(2gn)` (Bendat–Piersol error bars).
-/
import SpecKitV.RealInst
import Mathlib.Analysis.SpecialFunctions.Trigonometric.Bounds
import Mathlib.Analysis.SpecialFunctions.Trigonometric.InverseDeriv
import Mathlib.Analysis.Calculus.Deriv.Slope

open Real

theorem le_arcsin_of_nonneg {x : ℝ} (h0 : 0 ≤ x) (h1 : x ≤ 1) : x ≤ arcsin x := by
  have h := Real.sin_le (Real.arcsin_nonneg.2 h0)
  rwa [Real.sin_arcsin (by linarith) h1] at h

theorem arcsin_le_half_pi_mul {x : ℝ} (h0 : 0 ≤ x) (h1 : x ≤ 1) : arcsin x ≤ π / 2 * x := by
  have h := Real.mul_le_sin (Real.arcsin_nonneg.2 h0) (Real.arcsin_le_pi_div_two x)
  rw [Real.sin_arcsin (by linarith) h1] at h
  have hpi : 0 < π := Real.pi_pos
  have h2 : π / 2 * (2 / π * arcsin x) ≤ π / 2 * x :=
    mul_le_mul_of_nonneg_left h (by positivity)
  have h3 : π / 2 * (2 / π * arcsin x) = arcsin x := by
    field_simp
  linarith

/-- arcsin x / x → 1 as x → 0⁺ -/
theorem arcsin_div_self_tendsto_one :
    Filter.Tendsto (fun x : ℝ => arcsin x / x) (nhdsWithin 0 (Set.Ioi 0)) (nhds 1) := by
  have hd : HasDerivAt arcsin 1 0 := by
    have h := Real.hasDerivAt_arcsin (x := 0) (by norm_num) (by norm_num)
    simpa using h
  have ht := hd.tendsto_slope_zero_right
  refine ht.congr (fun t => ?_)
  simp [div_eq_inv_mul]

/-- error-bar form. `magErr g n = √|1−g| / √(g·2·n)`, `radErr g n = arcsin(√|1−g|) / √(g·2·n)` -/
noncomputable def magErr (g n : ℝ) : ℝ := sqrt |1 - g| / sqrt (g * 2 * n)
noncomputable def radErr (g n : ℝ) : ℝ := arcsin (sqrt |1 - g|) / sqrt (g * 2 * n)

/-- for `0 < g ≤ 1` the argument `√|1−g|` lies in `[0,1]`. -/
theorem sqrt_abs_one_sub_mem {g : ℝ} (hg0 : 0 < g) (hg1 : g ≤ 1) :
    0 ≤ sqrt |1 - g| ∧ sqrt |1 - g| ≤ 1 := by
  refine ⟨Real.sqrt_nonneg _, ?_⟩
  rw [Real.sqrt_le_left zero_le_one, abs_of_nonneg (by linarith)]
  linarith

theorem magErr_le_radErr {g n : ℝ} (hg0 : 0 < g) (hg1 : g ≤ 1) (hn : 1 ≤ n) :
    magErr g n ≤ radErr g n := by
  have _ := hn
  obtain ⟨h0, h1⟩ := sqrt_abs_one_sub_mem hg0 hg1
  unfold magErr radErr
  exact div_le_div_of_nonneg_right (le_arcsin_of_nonneg h0 h1) (Real.sqrt_nonneg _)

theorem radErr_le_half_pi_magErr {g n : ℝ} (hg0 : 0 < g) (hg1 : g ≤ 1) (hn : 1 ≤ n) :
    radErr g n ≤ π / 2 * magErr g n := by
  have _ := hn
  obtain ⟨h0, h1⟩ := sqrt_abs_one_sub_mem hg0 hg1
  unfold magErr radErr
  rw [← mul_div_assoc]
  exact div_le_div_of_nonneg_right (arcsin_le_half_pi_mul h0 h1) (Real.sqrt_nonneg _)

/-- `√|1−g| → 0⁺` as `g → 1⁻`. -/
theorem sqrt_abs_one_sub_tendsto :
    Filter.Tendsto (fun g : ℝ => sqrt |1 - g|) (nhdsWithin 1 (Set.Iio 1))
      (nhdsWithin 0 (Set.Ioi 0)) := by
  refine tendsto_nhdsWithin_iff.2 ⟨?_, ?_⟩
  · have hc : Continuous (fun g : ℝ => sqrt |1 - g|) := by fun_prop
    have h := (hc.tendsto 1).mono_left (nhdsWithin_le_nhds (s := Set.Iio 1))
    simpa using h
  · filter_upwards [self_mem_nhdsWithin] with g hg
    have hg' : g < 1 := hg
    exact Real.sqrt_pos.2 (abs_pos.2 (by linarith))

/-- the ratio phase-error / magnitude-error tends to 1 as the coherence tends to 1 from below -/
theorem radErr_div_magErr_tendsto_one (n : ℝ) (hn : 1 ≤ n) :
    Filter.Tendsto (fun g : ℝ => radErr g n / magErr g n) (nhdsWithin 1 (Set.Iio 1)) (nhds 1) := by
  have hcomp := arcsin_div_self_tendsto_one.comp sqrt_abs_one_sub_tendsto
  refine hcomp.congr' ?_
  have hpos : ∀ᶠ g in nhdsWithin (1 : ℝ) (Set.Iio 1), 0 < g :=
    nhdsWithin_le_nhds (lt_mem_nhds (by norm_num : (0 : ℝ) < 1))
  filter_upwards [hpos] with g hg
  have hs : 0 < sqrt (g * 2 * n) := Real.sqrt_pos.2 (by positivity)
  simp only [Function.comp_apply, radErr, magErr]
  rw [div_div_div_cancel_right₀ hs.ne']

/-- at full coherence both errors vanish -/
theorem radErr_one (n : ℝ) : radErr 1 n = 0 := by
  simp [radErr]

theorem magErr_one (n : ℝ) : magErr 1 n = 0 := by
  simp [magErr]

#print axioms le_arcsin_of_nonneg
#print axioms arcsin_le_half_pi_mul
#print axioms arcsin_div_self_tendsto_one
#print axioms magErr_le_radErr
#print axioms radErr_le_half_pi_magErr
#print axioms radErr_div_magErr_tendsto_one
#print axioms radErr_one
#print axioms magErr_one
