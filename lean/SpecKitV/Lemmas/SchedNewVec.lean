/-
  SpecKitV.Lemmas.SchedNewVec — per-bin and walk facts of the multi-stage scheduler
  (`Model.newStep`, `Model.newWalk`) and of the vectorised/lookup scheduler
  (`Model.vecGridPoint`, `Model.searchLeft`, `Model.vecWalk`), all at `α := ℝ`.
-/
import SpecKitV.RealInst
import SpecKitV.Model.Sched

-- several hypotheses of the required statements (`hfi` of the per-bin step theorems, `hr hra hc hfg`
-- of `vecGridPoint_props`) are not needed by the proofs; they are kept because the statements are fixed.
set_option linter.unusedVariables false

namespace SchedNV

structure Adm (c : Model.Cfg ℝ) : Prop where
  hN : 8 ≤ c.N
  hfs : 0 < c.fs
  holap0 : 0 ≤ c.olap
  holap1 : c.olap < 1
  hbmin1 : 1 ≤ c.bmin
  hbminN : c.bmin < (c.N : ℝ) / 2
  hLmin1 : 1 ≤ c.Lmin
  hLminN : c.Lmin ≤ c.N
  hJ : 1 ≤ c.Jdes
  hK : 1 ≤ c.Kdes

/-! ### the ℝ instance's ring operations are Mathlib's -/

theorem RLadd (a b : ℝ) : @HAdd.hAdd ℝ ℝ ℝ (@instHAdd ℝ instRealLikeReal.toAdd) a b = a + b := rfl
theorem RLsub (a b : ℝ) : @HSub.hSub ℝ ℝ ℝ (@instHSub ℝ instRealLikeReal.toSub) a b = a - b := rfl
theorem RLmul (a b : ℝ) : @HMul.hMul ℝ ℝ ℝ (@instHMul ℝ instRealLikeReal.toMul) a b = a * b := rfl
theorem RLdiv (a b : ℝ) : @HDiv.hDiv ℝ ℝ ℝ (@instHDiv ℝ instRealLikeReal.toDiv) a b = a / b := rfl

/-! ### round-half-even -/

theorem roundEven_cases (x : ℝ) :
    (x - ⌊x⌋ < 1 / 2 ∧ RealLike.roundEven x = ⌊x⌋) ∨
    (1 / 2 < x - ⌊x⌋ ∧ RealLike.roundEven x = ⌊x⌋ + 1) ∨
    (x - ⌊x⌋ = 1 / 2 ∧ (RealLike.roundEven x = ⌊x⌋ ∨ RealLike.roundEven x = ⌊x⌋ + 1)) := by
  rw [RL.roundEven_eq]
  dsimp only
  by_cases h1 : x - ⌊x⌋ < 1 / 2
  · left; exact ⟨h1, by rw [if_pos h1]⟩
  · by_cases h2 : 1 / 2 < x - ⌊x⌋
    · right; left; exact ⟨h2, by rw [if_neg h1, if_pos h2]⟩
    · right; right
      refine ⟨le_antisymm (not_lt.mp h2) (not_lt.mp h1), ?_⟩
      rw [if_neg h1, if_neg h2]
      by_cases h3 : ⌊x⌋ % 2 = 0
      · left; rw [if_pos h3]
      · right; rw [if_neg h3]

/-- round-half-even lands within 1/2 -/
theorem roundEven_abs_sub_le (x : ℝ) : |((RealLike.roundEven x : ℤ) : ℝ) - x| ≤ 1 / 2 := by
  have h0 := Int.floor_le x
  have h1 := Int.lt_floor_add_one x
  rw [abs_le]
  rcases roundEven_cases x with ⟨h, e⟩ | ⟨h, e⟩ | ⟨h, e | e⟩ <;> rw [e] <;> push_cast <;>
    constructor <;> linarith

theorem roundEven_int (z : ℤ) : RealLike.roundEven (z : ℝ) = z := by
  have h := abs_le.mp (roundEven_abs_sub_le (z : ℝ))
  have h1 : ((RealLike.roundEven (z : ℝ) : ℤ) : ℝ) < ((z + 1 : ℤ) : ℝ) := by push_cast; linarith [h.2]
  have h2 : (z : ℝ) < ((RealLike.roundEven (z : ℝ) + 1 : ℤ) : ℝ) := by push_cast; linarith [h.1]
  have h1' := Int.cast_lt.mp h1
  have h2' := Int.cast_lt.mp h2
  omega

theorem roundEven_one : RealLike.roundEven (1 : ℝ) = 1 := by
  have := roundEven_int 1
  simpa using this

theorem roundEven_mono {x y : ℝ} (h : x ≤ y) : RealLike.roundEven x ≤ RealLike.roundEven y := by
  rcases eq_or_lt_of_le h with rfl | hlt
  · exact le_refl _
  have hfl : ⌊x⌋ ≤ ⌊y⌋ := Int.floor_mono h
  rcases eq_or_lt_of_le hfl with heq | hfl'
  · have hr : (⌊x⌋ : ℝ) = (⌊y⌋ : ℝ) := by rw [heq]
    rcases roundEven_cases x with ⟨hx, ex⟩ | ⟨hx, ex⟩ | ⟨hx, ex | ex⟩ <;>
    rcases roundEven_cases y with ⟨hy, ey⟩ | ⟨hy, ey⟩ | ⟨hy, ey | ey⟩ <;>
    first
      | (rw [ex, ey]; omega)
      | (exfalso; linarith)
  · have hx : RealLike.roundEven x ≤ ⌊x⌋ + 1 := by
      rcases roundEven_cases x with ⟨_, e⟩ | ⟨_, e⟩ | ⟨_, e | e⟩ <;> rw [e] <;> omega
    have hy : ⌊y⌋ ≤ RealLike.roundEven y := by
      rcases roundEven_cases y with ⟨_, e⟩ | ⟨_, e⟩ | ⟨_, e | e⟩ <;> rw [e] <;> omega
    omega

theorem roundEven_ge_one {x : ℝ} (h : 1 ≤ x) : 1 ≤ RealLike.roundEven x := by
  have := roundEven_mono h
  rwa [roundEven_one] at this

/-! ### clamps and the cap -/

theorem clampL_bounds (N Lmin : ℕ) (h : Lmin ≤ N) (l : ℤ) :
    Lmin ≤ Model.clampL N Lmin l ∧ Model.clampL N Lmin l ≤ N := by
  unfold Model.clampL
  dsimp only
  split_ifs <;> omega

/-- the clamp never lowers `l` except down to `N` -/
theorem clampL_ge (N Lmin : ℕ) (h : Lmin ≤ N) (l : ℤ) :
    l ≤ (Model.clampL N Lmin l : ℤ) ∨ Model.clampL N Lmin l = N := by
  unfold Model.clampL
  dsimp only
  split_ifs <;> omega

theorem clampClip_bounds (N Lmin : ℕ) (h : Lmin ≤ N) (l : ℤ) :
    Lmin ≤ Model.vecGridPoint.clampClip N Lmin l ∧ Model.vecGridPoint.clampClip N Lmin l ≤ N := by
  unfold Model.vecGridPoint.clampClip
  dsimp only
  split_ifs <;> omega

theorem capK_le (N L : ℕ) (k : ℤ) : Model.capK N L k ≤ (N : ℤ) - L + 1 := by
  unfold Model.capK
  dsimp only
  split_ifs with h
  · exact h
  · exact le_refl _

theorem capK_ge_one (N L : ℕ) (hL : L ≤ N) (k : ℤ) (hk : 1 ≤ k) : 1 ≤ Model.capK N L k := by
  unfold Model.capK
  dsimp only
  split_ifs with h <;> omega

theorem capK_eq_one (N L : ℕ) (hL : L ≤ N) (k : ℤ) (h : Model.capK N L k = 1) : k = 1 ∨ L = N := by
  unfold Model.capK at h
  dsimp only at h
  split_ifs at h with h' <;> omega

/-! ### the count, the single-segment rule and the reported bin -/

/-- the segment count for length `L` before the cap -/
noncomputable def cnt (N : ℕ) (xov : ℝ) (L : ℕ) : ℤ :=
  RealLike.roundEven ((((N : ℤ) - (L : ℤ) : ℤ) : ℝ) / (xov * (L : ℝ)) + 1)

/-- single-segment rule -/
noncomputable def ruleL (N : ℕ) (xov : ℝ) (L : ℕ) : ℕ := if cnt N xov L = 1 then N else L

/-- the bin reported for a pre-rule length `L0` -/
noncomputable def binAt (c : Model.Cfg ℝ) (xov fi : ℝ) (L0 : ℕ) : ℝ × ℝ × ℕ × ℤ :=
  (c.fs / (ruleL c.N xov L0 : ℝ), fi / (c.fs / (ruleL c.N xov L0 : ℝ)), ruleL c.N xov L0,
    Model.capK c.N (ruleL c.N xov L0) (cnt c.N xov L0))

theorem cnt_self (N : ℕ) (xov : ℝ) : cnt N xov N = 1 := by
  unfold cnt
  rw [sub_self, Int.cast_zero, zero_div, zero_add]
  exact roundEven_one

theorem cnt_ge_one (N : ℕ) (xov : ℝ) (L : ℕ) (hx : 0 < xov) (hL1 : 1 ≤ L) (hL : L ≤ N) :
    1 ≤ cnt N xov L := by
  unfold cnt
  apply roundEven_ge_one
  have hLr : (0 : ℝ) < L := by exact_mod_cast hL1
  have hNL : (0 : ℝ) ≤ (((N : ℤ) - (L : ℤ) : ℤ) : ℝ) := by
    have : (0 : ℤ) ≤ (N : ℤ) - (L : ℤ) := by omega
    exact_mod_cast this
  have : 0 ≤ (((N : ℤ) - (L : ℤ) : ℤ) : ℝ) / (xov * L) := div_nonneg hNL (le_of_lt (mul_pos hx hLr))
  linarith

theorem cnt_ruleL (N : ℕ) (xov : ℝ) (L : ℕ) : cnt N xov (ruleL N xov L) = cnt N xov L := by
  unfold ruleL
  split_ifs with h
  · rw [cnt_self, h]
  · rfl

theorem ruleL_bounds (N Lmin : ℕ) (xov : ℝ) (L : ℕ) (h1 : 1 ≤ Lmin) (hLN : Lmin ≤ N)
    (hl : Lmin ≤ L) (hu : L ≤ N) :
    max 1 Lmin ≤ ruleL N xov L ∧ ruleL N xov L ≤ N := by
  unfold ruleL
  split_ifs <;> omega

theorem ruleL_cases (N : ℕ) (xov : ℝ) (L : ℕ) : ruleL N xov L = N ∨ ruleL N xov L = L := by
  unfold ruleL
  split_ifs
  · left; rfl
  · right; rfl

/-- all per-bin facts of `binAt` for a clamped pre-rule length -/
theorem binAt_props (c : Model.Cfg ℝ) (h : Adm c) (xov fi : ℝ) (hx : 0 < xov) (L0 : ℕ)
    (hl : c.Lmin ≤ L0) (hu : L0 ≤ c.N) :
    let o := binAt c xov fi L0
    o.1 * (o.2.2.1 : ℝ) = c.fs ∧ 0 < o.1 ∧ c.fs / c.N ≤ o.1 ∧
    max 1 c.Lmin ≤ o.2.2.1 ∧ o.2.2.1 ≤ c.N ∧
    1 ≤ o.2.2.2 ∧ o.2.2.2 ≤ (c.N : ℤ) - o.2.2.1 + 1 ∧ (o.2.2.2 = 1 → o.2.2.1 = c.N) ∧
    o.2.1 = fi / o.1 ∧ o.2.1 = fi * (o.2.2.1 : ℝ) / c.fs := by
  have hb := ruleL_bounds c.N c.Lmin xov L0 h.hLmin1 h.hLminN hl hu
  have hfs := h.hfs
  have hL1 : 1 ≤ ruleL c.N xov L0 := le_trans (le_max_left _ _) hb.1
  have hLr : (0 : ℝ) < (ruleL c.N xov L0 : ℝ) := by exact_mod_cast hL1
  have hNr : (ruleL c.N xov L0 : ℝ) ≤ (c.N : ℝ) := by exact_mod_cast hb.2
  have hL01 : 1 ≤ L0 := le_trans h.hLmin1 hl
  have hc1 : 1 ≤ cnt c.N xov L0 := cnt_ge_one c.N xov L0 hx hL01 hu
  dsimp only [binAt]
  refine ⟨div_mul_cancel₀ _ (ne_of_gt hLr), div_pos hfs hLr,
    div_le_div_of_nonneg_left (le_of_lt hfs) hLr hNr, hb.1, hb.2,
    capK_ge_one _ _ hb.2 _ hc1, capK_le _ _ _, ?_, rfl, ?_⟩
  · intro hK
    rcases capK_eq_one _ _ hb.2 _ hK with h1 | h1
    · unfold ruleL; rw [if_pos h1]
    · exact h1
  · rw [div_div_eq_mul_div]

/-! ### `newStep` -/

theorem consts_xov (c : Model.Cfg ℝ) : (Model.consts c).xov = 1 - c.olap := by
  simp only [Model.consts, RL.one_eq, RLsub]

theorem consts_fmax (c : Model.Cfg ℝ) : (Model.consts c).fmax = c.fs / 2 := by
  simp only [Model.consts, RL.two_eq, RLdiv]

theorem consts_fmin (c : Model.Cfg ℝ) : (Model.consts c).fmin = c.fs / c.N * c.bmin := by
  simp only [Model.consts, RL.ofNat_eq, RLdiv, RLmul]

theorem xov_pos (c : Model.Cfg ℝ) (h : Adm c) : 0 < (Model.consts c).xov := by
  rw [consts_xov]; linarith [h.holap1]

/-- the reported bin is `binAt` of a clamped length; either the bin number is already ≥ bmin
    or the length came from the bmin enforcement (`ceil`) -/
theorem newStep_fst (c : Model.Cfg ℝ) (s : Model.NewState ℝ) :
    ∃ l : ℤ, (Model.newStep c (Model.consts c) s).1
        = binAt c (Model.consts c).xov s.fi (Model.clampL c.N c.Lmin l) ∧
      (c.bmin ≤ s.fi / (c.fs / (ruleL c.N (Model.consts c).xov (Model.clampL c.N c.Lmin l) : ℝ)) ∨
        l = ⌈c.fs * c.bmin / s.fi⌉) := by
  unfold Model.newStep
  split
  rename_i t dftlen stage2 alpha kStage2 crossover heq
  split
  rename_i t2 stage3 d2 heq2
  clear heq heq2
  dsimp only
  by_cases hlt : RealLike.lt (s.fi / (c.fs / RealLike.ofNat (if (RealLike.roundEven
      (RealLike.ofInt (↑c.N - ↑(Model.clampL c.N c.Lmin d2)) /
        ((Model.consts c).xov * RealLike.ofNat (Model.clampL c.N c.Lmin d2)) + RealLike.one) == 1) = true
      then c.N else (Model.clampL c.N c.Lmin d2)))) c.bmin = true
  · rw [if_pos hlt]
    refine ⟨⌈c.fs * c.bmin / s.fi⌉, ?_, Or.inr rfl⟩
    simp only [binAt, ruleL, cnt, RL.ofInt_eq, RL.ofNat_eq, RL.one_eq, RLadd, RLmul, RLdiv,
      RL.ceil_eq, beq_iff_eq]
    rfl
  · rw [if_neg hlt]
    refine ⟨d2, ?_, Or.inl ?_⟩
    · simp only [binAt, ruleL, cnt, RL.ofInt_eq, RL.ofNat_eq, RL.one_eq, RLadd, RLmul, RLdiv,
        beq_iff_eq]
      rfl
    · simp only [RL.lt_eq, decide_eq_true_eq, not_lt] at hlt
      simp only [RL.ofInt_eq, RL.ofNat_eq, RL.one_eq, beq_iff_eq] at hlt
      exact hlt

/-- all per-bin facts of one step at once -/
theorem newStep_all (c : Model.Cfg ℝ) (h : Adm c) (s : Model.NewState ℝ) :
    let o := (Model.newStep c (Model.consts c) s).1
    o.1 * (o.2.2.1 : ℝ) = c.fs ∧ 0 < o.1 ∧ c.fs / c.N ≤ o.1 ∧
    max 1 c.Lmin ≤ o.2.2.1 ∧ o.2.2.1 ≤ c.N ∧
    1 ≤ o.2.2.2 ∧ o.2.2.2 ≤ (c.N : ℤ) - o.2.2.1 + 1 ∧ (o.2.2.2 = 1 → o.2.2.1 = c.N) ∧
    o.2.1 = s.fi / o.1 ∧ o.2.1 = s.fi * (o.2.2.1 : ℝ) / c.fs := by
  obtain ⟨l, hl, _⟩ := newStep_fst c s
  have hb := clampL_bounds c.N c.Lmin h.hLminN l
  have := binAt_props c h (Model.consts c).xov s.fi (xov_pos c h) _ hb.1 hb.2
  rw [hl]
  exact this

theorem newStep_L_bounds (c : Model.Cfg ℝ) (h : Adm c) (s : Model.NewState ℝ) (hfi : 0 < s.fi) :
    let o := (Model.newStep c (Model.consts c) s).1
    max 1 c.Lmin ≤ o.2.2.1 ∧ o.2.2.1 ≤ c.N := by
  have := newStep_all c h s
  exact ⟨this.2.2.2.1, this.2.2.2.2.1⟩

theorem newStep_rL (c : Model.Cfg ℝ) (h : Adm c) (s : Model.NewState ℝ) (hfi : 0 < s.fi) :
    let o := (Model.newStep c (Model.consts c) s).1
    o.1 * (o.2.2.1 : ℝ) = c.fs ∧ 0 < o.1 ∧ c.fs / c.N ≤ o.1 := by
  have := newStep_all c h s
  exact ⟨this.1, this.2.1, this.2.2.1⟩

theorem newStep_bin (c : Model.Cfg ℝ) (h : Adm c) (s : Model.NewState ℝ) (hfi : 0 < s.fi) :
    let o := (Model.newStep c (Model.consts c) s).1
    o.2.1 = s.fi / o.1 ∧ o.2.1 = s.fi * (o.2.2.1 : ℝ) / c.fs := by
  have := newStep_all c h s
  exact this.2.2.2.2.2.2.2.2

theorem newStep_K (c : Model.Cfg ℝ) (h : Adm c) (s : Model.NewState ℝ) (hfi : 0 < s.fi) :
    let o := (Model.newStep c (Model.consts c) s).1
    1 ≤ o.2.2.2 ∧ o.2.2.2 ≤ (c.N : ℤ) - o.2.2.1 + 1 ∧ (o.2.2.2 = 1 → o.2.2.1 = c.N) := by
  have := newStep_all c h s
  exact ⟨this.2.2.2.2.2.1, this.2.2.2.2.2.2.1, this.2.2.2.2.2.2.2.1⟩

theorem newStep_next (c : Model.Cfg ℝ) (s : Model.NewState ℝ) :
    (Model.newStep c (Model.consts c) s).2.fi = s.fi + (Model.newStep c (Model.consts c) s).1.1 ∧
    (Model.newStep c (Model.consts c) s).2.j = s.j + 1 := by
  unfold Model.newStep
  split
  split
  dsimp only
  exact ⟨rfl, rfl⟩

/-- the bin number never drops below bmin (the enforcement uses ceil) -/
theorem newStep_bmin (c : Model.Cfg ℝ) (h : Adm c) (s : Model.NewState ℝ)
    (hfi : c.fs / c.N * c.bmin ≤ s.fi) :
    c.bmin ≤ (Model.newStep c (Model.consts c) s).1.2.1 := by
  obtain ⟨l, hl, hcase⟩ := newStep_fst c s
  rw [hl]
  dsimp only [binAt]
  rcases hcase with hge | hceil
  · exact hge
  · have hfs := h.hfs
    have hN : (0 : ℝ) < c.N := by
      have : 0 < c.N := by have := h.hN; omega
      exact_mod_cast this
    have hb1 := h.hbmin1
    have hfi0 : 0 < s.fi := by
      have : 0 < c.fs / c.N * c.bmin := mul_pos (div_pos hfs hN) (by linarith)
      linarith
    -- the value fi * L / fs
    rw [div_div_eq_mul_div, le_div_iff₀ hfs]
    have hNcase : c.bmin * c.fs ≤ s.fi * (c.N : ℝ) := by
      have := mul_le_mul_of_nonneg_right hfi (le_of_lt hN)
      have e : c.fs / c.N * c.bmin * c.N = c.bmin * c.fs := by field_simp
      linarith
    have hL0case : ∀ L : ℕ, (l : ℝ) ≤ (L : ℝ) → c.bmin * c.fs ≤ s.fi * (L : ℝ) := by
      intro L hL
      have hq : c.fs * c.bmin / s.fi ≤ (L : ℝ) := by
        rw [hceil] at hL
        exact le_trans (Int.le_ceil _) hL
      rw [div_le_iff₀ hfi0] at hq
      linarith
    rcases ruleL_cases c.N (Model.consts c).xov (Model.clampL c.N c.Lmin l) with e | e
    · rw [e]; exact hNcase
    · rw [e]
      rcases clampL_ge c.N c.Lmin h.hLminN l with hge | heq
      · apply hL0case
        have : ((l : ℤ) : ℝ) ≤ (((Model.clampL c.N c.Lmin l : ℕ) : ℤ) : ℝ) := by exact_mod_cast hge
        simpa using this
      · rw [heq]; exact hNcase

/-! ### `newWalk` -/

theorem newWalk_zero (c : Model.Cfg ℝ) (k : Model.Consts ℝ) (s : Model.NewState ℝ) :
    Model.newWalk 0 c k s = [] := rfl

theorem newWalk_succ_pos (n : ℕ) (c : Model.Cfg ℝ) (k : Model.Consts ℝ) (s : Model.NewState ℝ)
    (hlt : s.fi < k.fmax) :
    Model.newWalk (n + 1) c k s =
      (s.fi, (Model.newStep c k s).1.1, (Model.newStep c k s).1.2.1, (Model.newStep c k s).1.2.2.1,
        (Model.newStep c k s).1.2.2.2) :: Model.newWalk n c k (Model.newStep c k s).2 := by
  have : RealLike.lt s.fi k.fmax = true := by simpa using hlt
  rw [Model.newWalk, if_pos this]

theorem newWalk_succ_neg (n : ℕ) (c : Model.Cfg ℝ) (k : Model.Consts ℝ) (s : Model.NewState ℝ)
    (hlt : ¬ s.fi < k.fmax) : Model.newWalk (n + 1) c k s = [] := by
  have : ¬ RealLike.lt s.fi k.fmax = true := by simpa using hlt
  rw [Model.newWalk, if_neg this]

theorem newWalk_head (fuel : ℕ) (c : Model.Cfg ℝ) (k : Model.Consts ℝ) (s : Model.NewState ℝ) :
    ∀ y ∈ (Model.newWalk fuel c k s).head?, y.1 = s.fi := by
  cases fuel with
  | zero => simp [newWalk_zero]
  | succ n =>
    by_cases hlt : s.fi < k.fmax
    · rw [newWalk_succ_pos n c k s hlt]; simp
    · rw [newWalk_succ_neg n c k s hlt]; simp

theorem newWalk_below (fuel : ℕ) (c : Model.Cfg ℝ) (s : Model.NewState ℝ) :
    ∀ e ∈ Model.newWalk fuel c (Model.consts c) s, e.1 < (Model.consts c).fmax := by
  induction fuel generalizing s with
  | zero => intro e he; simp [newWalk_zero] at he
  | succ n ih =>
    by_cases hlt : s.fi < (Model.consts c).fmax
    · rw [newWalk_succ_pos n c _ s hlt]
      intro e he
      rcases List.mem_cons.mp he with rfl | he
      · exact hlt
      · exact ih _ e he
    · rw [newWalk_succ_neg n c _ s hlt]; intro e he; simp at he

theorem newWalk_stepping (fuel : ℕ) (c : Model.Cfg ℝ) (s : Model.NewState ℝ) :
    (Model.newWalk fuel c (Model.consts c) s).IsChain (fun a b => b.1 = a.1 + a.2.1) := by
  induction fuel generalizing s with
  | zero => rw [newWalk_zero]; exact List.IsChain.nil
  | succ n ih =>
    by_cases hlt : s.fi < (Model.consts c).fmax
    · rw [newWalk_succ_pos n c _ s hlt, List.isChain_cons]
      refine ⟨?_, ih _⟩
      intro y hy
      rw [newWalk_head n c _ _ y hy]
      exact (newStep_next c s).1
    · rw [newWalk_succ_neg n c _ s hlt]; exact List.IsChain.nil

theorem newWalk_bins (fuel : ℕ) (c : Model.Cfg ℝ) (h : Adm c) (s : Model.NewState ℝ) (hfi : 0 < s.fi) :
    ∀ e ∈ Model.newWalk fuel c (Model.consts c) s,
      0 < e.1 ∧ e.2.1 * (e.2.2.2.1 : ℝ) = c.fs ∧ max 1 c.Lmin ≤ e.2.2.2.1 ∧ e.2.2.2.1 ≤ c.N ∧
      1 ≤ e.2.2.2.2 ∧ e.2.2.2.2 ≤ (c.N : ℤ) - e.2.2.2.1 + 1 ∧ (e.2.2.2.2 = 1 → e.2.2.2.1 = c.N) ∧
      e.2.2.1 = e.1 / e.2.1 := by
  induction fuel generalizing s with
  | zero => intro e he; simp [newWalk_zero] at he
  | succ n ih =>
    by_cases hlt : s.fi < (Model.consts c).fmax
    · rw [newWalk_succ_pos n c _ s hlt]
      have hall := newStep_all c h s
      intro e he
      rcases List.mem_cons.mp he with rfl | he
      · exact ⟨hfi, hall.1, hall.2.2.2.1, hall.2.2.2.2.1, hall.2.2.2.2.2.1, hall.2.2.2.2.2.2.1,
          hall.2.2.2.2.2.2.2.1, hall.2.2.2.2.2.2.2.2.1⟩
      · refine ih _ ?_ e he
        rw [(newStep_next c s).1]
        linarith [hall.2.1]
    · rw [newWalk_succ_neg n c _ s hlt]; intro e he; simp at he

/-- more fuel changes nothing once `fuel ≥ (fmax − fi)/(fs/N) + 1` -/
theorem newWalk_fuel_gen (c : Model.Cfg ℝ) (h : Adm c) (fuel : ℕ) :
    ∀ (s : Model.NewState ℝ), 0 < s.fi →
      ((Model.consts c).fmax - s.fi) / (c.fs / c.N) + 1 ≤ (fuel : ℝ) →
      ∀ extra : ℕ, Model.newWalk (fuel + extra) c (Model.consts c) s
        = Model.newWalk fuel c (Model.consts c) s := by
  have hN : (0 : ℝ) < c.N := by
    have : 0 < c.N := by have := h.hN; omega
    exact_mod_cast this
  have hδ : 0 < c.fs / c.N := div_pos h.hfs hN
  induction fuel with
  | zero =>
    intro s _ hf extra
    have hge : ¬ s.fi < (Model.consts c).fmax := by
      intro hlt
      have : 0 < ((Model.consts c).fmax - s.fi) / (c.fs / c.N) := div_pos (by linarith) hδ
      simp only [Nat.cast_zero] at hf
      linarith
    cases extra with
    | zero => rfl
    | succ e => rw [Nat.zero_add, newWalk_succ_neg e c _ s hge, newWalk_zero]
  | succ n ih =>
    intro s hfi hf extra
    by_cases hlt : s.fi < (Model.consts c).fmax
    · have e1 : n + 1 + extra = (n + extra) + 1 := by omega
      rw [e1, newWalk_succ_pos _ c _ s hlt, newWalk_succ_pos _ c _ s hlt]
      have hall := newStep_all c h s
      have hnext := (newStep_next c s).1
      congr 1
      apply ih
      · rw [hnext]; linarith [hall.2.1]
      · rw [hnext]
        have hr : c.fs / c.N ≤ (Model.newStep c (Model.consts c) s).1.1 := hall.2.2.1
        have e2 : ((Model.consts c).fmax - (s.fi + (Model.newStep c (Model.consts c) s).1.1)) / (c.fs / c.N)
            ≤ ((Model.consts c).fmax - s.fi) / (c.fs / c.N) - 1 := by
          rw [le_sub_iff_add_le, div_add_one (ne_of_gt hδ), div_le_div_iff_of_pos_right hδ]
          linarith
        push_cast at hf
        linarith
    · have e1 : n + 1 + extra = (n + extra) + 1 := by omega
      rw [e1, newWalk_succ_neg _ c _ s hlt, newWalk_succ_neg _ c _ s hlt]

theorem newWalk_fuel (c : Model.Cfg ℝ) (h : Adm c) (s : Model.NewState ℝ)
    (hfi : (Model.consts c).fmin ≤ s.fi) (extra : ℕ) :
    Model.newWalk (c.N + extra) c (Model.consts c) s = Model.newWalk c.N c (Model.consts c) s := by
  have hN : (0 : ℝ) < c.N := by
    have : 0 < c.N := by have := h.hN; omega
    exact_mod_cast this
  have hδ : 0 < c.fs / c.N := div_pos h.hfs hN
  have hb1 := h.hbmin1
  rw [consts_fmin] at hfi
  have hmin : c.fs / c.N ≤ c.fs / c.N * c.bmin := by nlinarith
  apply newWalk_fuel_gen c h c.N s (by linarith)
  rw [consts_fmax, div_add_one (ne_of_gt hδ), div_le_iff₀ hδ]
  have e : (c.N : ℝ) * (c.fs / c.N) = c.fs := by field_simp
  rw [e]
  linarith [h.hfs]

/-! ### the vectorised scheduler -/

/-- the (unclamped) rounded length of `vecGridPoint` -/
noncomputable def vecL (c : Model.Cfg ℝ) (rmin ravg clog fg : ℝ) : ℤ :=
  let rp := fg * clog
  let sq := RealLike.sqrt (ravg * rp)
  let rpp := if RealLike.ge rp ravg then rp else if RealLike.gt sq rmin then sq else rmin
  let rpp := if RealLike.lt (fg / rpp) c.bmin then fg / c.bmin else rpp
  RealLike.roundEven (c.fs / rpp)

theorem vecGridPoint_eq (c : Model.Cfg ℝ) (xov rmin ravg clog fg : ℝ) :
    ∃ l : ℤ, Model.vecGridPoint c xov rmin ravg clog fg =
      ((binAt c xov fg (Model.vecGridPoint.clampClip c.N c.Lmin l)).1,
       (binAt c xov fg (Model.vecGridPoint.clampClip c.N c.Lmin l)).2.2.1,
       (binAt c xov fg (Model.vecGridPoint.clampClip c.N c.Lmin l)).2.2.2) := by
  refine ⟨vecL c rmin ravg clog fg, ?_⟩
  unfold Model.vecGridPoint vecL
  dsimp only
  rw [binAt]
  dsimp only
  rw [← cnt_ruleL c.N xov]
  simp only [ruleL, cnt, RL.ofInt_eq, RL.ofNat_eq, RL.one_eq, RLadd, RLmul, RLdiv, beq_iff_eq]
  rfl

theorem vecGridPoint_props (c : Model.Cfg ℝ) (h : Adm c) (xov rmin ravg clog fg : ℝ)
    (hx : xov = 1 - c.olap) (hr : 0 < rmin) (hra : rmin ≤ ravg) (hc : 0 < clog) (hfg : 0 < fg) :
    let o := Model.vecGridPoint c xov rmin ravg clog fg
    o.1 * (o.2.1 : ℝ) = c.fs ∧ c.fs / c.N ≤ o.1 ∧ max 1 c.Lmin ≤ o.2.1 ∧ o.2.1 ≤ c.N ∧
    1 ≤ o.2.2 ∧ o.2.2 ≤ (c.N : ℤ) - o.2.1 + 1 ∧ (o.2.2 = 1 → o.2.1 = c.N) := by
  obtain ⟨l, hl⟩ := vecGridPoint_eq c xov rmin ravg clog fg
  have hb := clampClip_bounds c.N c.Lmin h.hLminN l
  have hx0 : 0 < xov := by rw [hx]; linarith [h.holap1]
  have hp := binAt_props c h xov fg hx0 _ hb.1 hb.2
  rw [hl]
  exact ⟨hp.1, hp.2.2.1, hp.2.2.2.1, hp.2.2.2.2.1, hp.2.2.2.2.2.1, hp.2.2.2.2.2.2.1,
    hp.2.2.2.2.2.2.2.1⟩

/-! ### `searchLeft` -/

theorem searchLeft_zero (grid : ℕ → ℝ) (v : ℝ) : Model.searchLeft grid 0 v = 0 := by
  unfold Model.searchLeft; rw [forRange_zero]

theorem searchLeft_succ (grid : ℕ → ℝ) (n : ℕ) (v : ℝ) :
    Model.searchLeft grid (n + 1) v =
      if grid n < v then Model.searchLeft grid n v + 1 else Model.searchLeft grid n v := by
  unfold Model.searchLeft
  rw [forRange_succ]
  simp only [RL.lt_eq, decide_eq_true_eq]

theorem searchLeft_le (grid : ℕ → ℝ) (n : ℕ) (v : ℝ) : Model.searchLeft grid n v ≤ n := by
  induction n with
  | zero => rw [searchLeft_zero]
  | succ k ih => rw [searchLeft_succ]; split_ifs <;> omega

theorem searchLeft_spec (grid : ℕ → ℝ) (n : ℕ) (hmono : ∀ i j, i ≤ j → j < n → grid i ≤ grid j) (v : ℝ) :
    (∀ i < Model.searchLeft grid n v, grid i < v) ∧
    (∀ i, Model.searchLeft grid n v ≤ i → i < n → v ≤ grid i) := by
  induction n with
  | zero =>
    rw [searchLeft_zero]
    exact ⟨fun i hi => absurd hi (Nat.not_lt_zero i), fun i _ hi => absurd hi (Nat.not_lt_zero i)⟩
  | succ k ih =>
    have ih' := ih (fun i j hij hj => hmono i j hij (Nat.lt_succ_of_lt hj))
    have hle := searchLeft_le grid k v
    rw [searchLeft_succ]
    by_cases hk : grid k < v
    · rw [if_pos hk]
      constructor
      · intro i hi
        exact lt_of_le_of_lt (hmono i k (by omega) (Nat.lt_succ_self k)) hk
      · intro i hi1 hi2
        exfalso
        -- the count must be k, otherwise grid (count) ≥ v but grid (count) ≤ grid k < v
        by_cases hc : Model.searchLeft grid k v < k
        · have h1 := ih'.2 _ (le_refl _) hc
          have h2 := hmono _ k (le_of_lt hc) (Nat.lt_succ_self k)
          linarith
        · omega
    · rw [if_neg hk]
      constructor
      · exact ih'.1
      · intro i hi1 hi2
        rcases Nat.lt_succ_iff_lt_or_eq.mp hi2 with hlt | rfl
        · exact ih'.2 i hi1 hlt
        · exact not_lt.mp hk

theorem searchLeft_mono (grid : ℕ → ℝ) (n : ℕ) {u v : ℝ} (h : u ≤ v) :
    Model.searchLeft grid n u ≤ Model.searchLeft grid n v := by
  induction n with
  | zero => rw [searchLeft_zero, searchLeft_zero]
  | succ k ih =>
    rw [searchLeft_succ, searchLeft_succ]
    by_cases hu : grid k < u
    · have hv : grid k < v := lt_of_lt_of_le hu h
      rw [if_pos hu, if_pos hv]; omega
    · rw [if_neg hu]; split_ifs <;> omega

/-! ### `vecWalk` -/

theorem vecWalk_zero (fmax : ℝ) (grid : ℕ → ℝ) (n : ℕ) (map : ℕ → ℝ × ℕ × ℤ) (fi : ℝ) :
    Model.vecWalk 0 fmax grid n map fi = [] := rfl

theorem vecWalk_succ_pos (m : ℕ) (fmax : ℝ) (grid : ℕ → ℝ) (n : ℕ) (map : ℕ → ℝ × ℕ × ℤ) (fi : ℝ)
    (hlt : fi < fmax) (hidx : Model.searchLeft grid n fi < n) :
    Model.vecWalk (m + 1) fmax grid n map fi =
      (fi, (map (Model.searchLeft grid n fi)).1, (map (Model.searchLeft grid n fi)).2.1,
        (map (Model.searchLeft grid n fi)).2.2) ::
      Model.vecWalk m fmax grid n map (fi + (map (Model.searchLeft grid n fi)).1) := by
  have h1 : RealLike.lt fi fmax = true := by simpa using hlt
  have h2 : ¬ Model.searchLeft grid n fi ≥ n := by omega
  rw [Model.vecWalk, if_pos h1]
  dsimp only
  rw [if_neg h2]

theorem vecWalk_succ_neg (m : ℕ) (fmax : ℝ) (grid : ℕ → ℝ) (n : ℕ) (map : ℕ → ℝ × ℕ × ℤ) (fi : ℝ)
    (hno : ¬ (fi < fmax ∧ Model.searchLeft grid n fi < n)) :
    Model.vecWalk (m + 1) fmax grid n map fi = [] := by
  rw [Model.vecWalk]
  by_cases hlt : fi < fmax
  · have h1 : RealLike.lt fi fmax = true := by simpa using hlt
    have h2 : Model.searchLeft grid n fi ≥ n := by
      by_contra hc; exact hno ⟨hlt, by omega⟩
    rw [if_pos h1]
    dsimp only
    rw [if_pos h2]
  · have h1 : ¬ RealLike.lt fi fmax = true := by simpa using hlt
    rw [if_neg h1]

theorem vecWalk_head (fuel : ℕ) (fmax : ℝ) (grid : ℕ → ℝ) (n : ℕ) (map : ℕ → ℝ × ℕ × ℤ) (fi : ℝ) :
    ∀ y ∈ (Model.vecWalk fuel fmax grid n map fi).head?, y.1 = fi := by
  cases fuel with
  | zero => simp [vecWalk_zero]
  | succ m =>
    by_cases hc : fi < fmax ∧ Model.searchLeft grid n fi < n
    · rw [vecWalk_succ_pos m fmax grid n map fi hc.1 hc.2]; simp
    · rw [vecWalk_succ_neg m fmax grid n map fi hc]; simp

theorem vecWalk_below (fuel : ℕ) (fmax : ℝ) (grid : ℕ → ℝ) (n : ℕ) (map : ℕ → ℝ × ℕ × ℤ) (fi : ℝ) :
    ∀ e ∈ Model.vecWalk fuel fmax grid n map fi, e.1 < fmax := by
  induction fuel generalizing fi with
  | zero => intro e he; simp [vecWalk_zero] at he
  | succ m ih =>
    by_cases hc : fi < fmax ∧ Model.searchLeft grid n fi < n
    · rw [vecWalk_succ_pos m fmax grid n map fi hc.1 hc.2]
      intro e he
      rcases List.mem_cons.mp he with rfl | he
      · exact hc.1
      · exact ih _ e he
    · rw [vecWalk_succ_neg m fmax grid n map fi hc]; intro e he; simp at he

theorem vecWalk_stepping (fuel : ℕ) (fmax : ℝ) (grid : ℕ → ℝ) (n : ℕ) (map : ℕ → ℝ × ℕ × ℤ) (fi : ℝ) :
    (Model.vecWalk fuel fmax grid n map fi).IsChain (fun a b => b.1 = a.1 + a.2.1) := by
  induction fuel generalizing fi with
  | zero => rw [vecWalk_zero]; exact List.IsChain.nil
  | succ m ih =>
    by_cases hc : fi < fmax ∧ Model.searchLeft grid n fi < n
    · rw [vecWalk_succ_pos m fmax grid n map fi hc.1 hc.2, List.isChain_cons]
      refine ⟨?_, ih _⟩
      intro y hy
      exact vecWalk_head m fmax grid n map _ y hy
    · rw [vecWalk_succ_neg m fmax grid n map fi hc]; exact List.IsChain.nil

theorem vecWalk_entry_from_map (fuel : ℕ) (fmax : ℝ) (grid : ℕ → ℝ) (n : ℕ) (map : ℕ → ℝ × ℕ × ℤ) (fi : ℝ) :
    ∀ e ∈ Model.vecWalk fuel fmax grid n map fi,
      ∃ idx < n, e.2 = map idx ∧ idx = Model.searchLeft grid n e.1 := by
  induction fuel generalizing fi with
  | zero => intro e he; simp [vecWalk_zero] at he
  | succ m ih =>
    by_cases hc : fi < fmax ∧ Model.searchLeft grid n fi < n
    · rw [vecWalk_succ_pos m fmax grid n map fi hc.1 hc.2]
      intro e he
      rcases List.mem_cons.mp he with rfl | he
      · exact ⟨_, hc.2, rfl, rfl⟩
      · exact ih _ e he
    · rw [vecWalk_succ_neg m fmax grid n map fi hc]; intro e he; simp at he

/-- non-vacuity -/
example : Adm { N := 1000, fs := 2, olap := 1/2, bmin := 1, Lmin := 1, Jdes := 100, Kdes := 10 } := by
  constructor <;> norm_num

end SchedNV

#print axioms SchedNV.roundEven_abs_sub_le
#print axioms SchedNV.roundEven_mono
#print axioms SchedNV.roundEven_ge_one
#print axioms SchedNV.newStep_L_bounds
#print axioms SchedNV.newStep_rL
#print axioms SchedNV.newStep_bin
#print axioms SchedNV.newStep_K
#print axioms SchedNV.newStep_next
#print axioms SchedNV.newStep_bmin
#print axioms SchedNV.newWalk_below
#print axioms SchedNV.newWalk_stepping
#print axioms SchedNV.newWalk_bins
#print axioms SchedNV.newWalk_fuel
#print axioms SchedNV.vecGridPoint_props
#print axioms SchedNV.vecWalk_below
#print axioms SchedNV.vecWalk_stepping
#print axioms SchedNV.vecWalk_entry_from_map
#print axioms SchedNV.searchLeft_le
#print axioms SchedNV.searchLeft_spec
#print axioms SchedNV.searchLeft_mono
