/-
  SpecKitV.Lemmas.MisoResidual — algebra of the MISO residual spectrum formula
  `S00 − Σ H_i conj(S_i) − Σ conj(H_i) S_i + Σ_ij conj(H_j) H_i T_ji`.
-/
import SpecKitV.RealInst
import SpecKitV.Lemmas.CxC
import SpecKitV.Model.Miso
open Finset
open ComplexConjugate

namespace Miso
variable (q K : ℕ) (c : ℝ) (X : ℕ → ℕ → ℂ) (Y : ℕ → ℂ)

noncomputable def T (i j : ℕ) : ℂ := (c : ℂ) * ((1 / (K : ℂ)) * ∑ k ∈ range K, X i k * (starRingEnd ℂ) (X j k))
noncomputable def S (i : ℕ) : ℂ := (c : ℂ) * ((1 / (K : ℂ)) * ∑ k ∈ range K, X i k * (starRingEnd ℂ) (Y k))
noncomputable def S00 : ℝ := c * ((1 / (K : ℝ)) * ∑ k ∈ range K, Complex.normSq (Y k))
noncomputable def resid (H : ℕ → ℂ) : ℂ :=
  (S00 K c Y : ℂ) - ∑ i ∈ range q, H i * (starRingEnd ℂ) (S K c X Y i)
    - ∑ i ∈ range q, (starRingEnd ℂ) (H i) * S K c X Y i
    + ∑ i ∈ range q, ∑ j ∈ range q, (starRingEnd ℂ) (H j) * H i * T K c X j i

/-- the residual series `Y − Σ_j conj(H_j) X_j` -/
noncomputable def err (H : ℕ → ℂ) (k : ℕ) : ℂ := Y k - ∑ j ∈ range q, conj (H j) * X j k

/-! ### the formula is a mean squared modulus -/

theorem sum1_eq (H : ℕ → ℂ) :
    ∑ i ∈ range q, H i * conj (S K c X Y i)
      = (c : ℂ) * ((1 / (K : ℂ)) * ∑ k ∈ range K, ∑ i ∈ range q, H i * (conj (X i k) * Y k)) := by
  rw [Finset.sum_comm]
  simp only [S, map_mul, map_sum, map_div₀, map_one, Complex.conj_ofReal, Complex.conj_natCast,
    Complex.conj_conj, Finset.mul_sum]
  exact Finset.sum_congr rfl fun i _ => Finset.sum_congr rfl fun k _ => by ring

theorem sum2_eq (H : ℕ → ℂ) :
    ∑ i ∈ range q, conj (H i) * S K c X Y i
      = (c : ℂ) * ((1 / (K : ℂ)) * ∑ k ∈ range K, ∑ i ∈ range q, conj (H i) * (X i k * conj (Y k))) := by
  rw [Finset.sum_comm]
  simp only [S, Finset.mul_sum]
  exact Finset.sum_congr rfl fun i _ => Finset.sum_congr rfl fun k _ => by ring

theorem sum3_eq (H : ℕ → ℂ) :
    ∑ i ∈ range q, ∑ j ∈ range q, conj (H j) * H i * T K c X j i
      = (c : ℂ) * ((1 / (K : ℂ)) * ∑ k ∈ range K,
          (∑ j ∈ range q, conj (H j) * X j k) * (∑ i ∈ range q, H i * conj (X i k))) := by
  simp only [Finset.sum_mul_sum]
  simp only [T, Finset.mul_sum]
  rw [Finset.sum_comm]
  conv_rhs => rw [Finset.sum_comm]
  refine Finset.sum_congr rfl fun j _ => ?_
  rw [Finset.sum_comm]
  refine Finset.sum_congr rfl fun k _ => ?_
  exact Finset.sum_congr rfl fun i _ => by ring

theorem S00_cast :
    (S00 K c Y : ℂ) = (c : ℂ) * ((1 / (K : ℂ)) * ∑ k ∈ range K, Y k * conj (Y k)) := by
  simp only [S00, Complex.mul_conj]
  push_cast
  rfl

/-- for ANY H the formula is c times the mean squared modulus of the residual series -/
theorem residual_is_norm (H : ℕ → ℂ) :
    resid q K c X Y H
      = ((c * ((1 / (K : ℝ)) * ∑ k ∈ range K,
            Complex.normSq (Y k - ∑ j ∈ range q, (starRingEnd ℂ) (H j) * X j k)) : ℝ) : ℂ) := by
  have hR : ((c * ((1 / (K : ℝ)) * ∑ k ∈ range K,
            Complex.normSq (Y k - ∑ j ∈ range q, conj (H j) * X j k)) : ℝ) : ℂ)
      = (c : ℂ) * ((1 / (K : ℂ)) * ∑ k ∈ range K,
          (Y k - ∑ j ∈ range q, conj (H j) * X j k)
            * conj (Y k - ∑ j ∈ range q, conj (H j) * X j k)) := by
    simp only [Complex.mul_conj]
    push_cast
    rfl
  rw [hR, resid, S00_cast, sum1_eq, sum2_eq, sum3_eq, ← mul_sub, ← mul_sub, ← mul_add,
    ← mul_sub, ← mul_sub, ← mul_add, ← Finset.sum_sub_distrib, ← Finset.sum_sub_distrib,
    ← Finset.sum_add_distrib]
  congr 2
  refine Finset.sum_congr rfl fun k _ => ?_
  simp only [map_sub, map_sum, map_mul, Complex.conj_conj]
  have e1 : ∑ i ∈ range q, H i * (conj (X i k) * Y k)
      = Y k * ∑ i ∈ range q, H i * conj (X i k) := by
    rw [Finset.mul_sum]; exact Finset.sum_congr rfl fun i _ => by ring
  have e2 : ∑ i ∈ range q, conj (H i) * (X i k * conj (Y k))
      = (∑ i ∈ range q, conj (H i) * X i k) * conj (Y k) := by
    rw [Finset.sum_mul]; exact Finset.sum_congr rfl fun i _ => by ring
  rw [e1, e2]
  ring

theorem resid_re (H : ℕ → ℂ) :
    (resid q K c X Y H).re
      = c * ((1 / (K : ℝ)) * ∑ k ∈ range K, Complex.normSq (err q X Y H k)) := by
  rw [residual_is_norm]; exact Complex.ofReal_re _

theorem residual_real_nonneg (hc : 0 ≤ c) (H : ℕ → ℂ) :
    (resid q K c X Y H).im = 0 ∧ 0 ≤ (resid q K c X Y H).re := by
  constructor
  · rw [residual_is_norm]; exact Complex.ofReal_im _
  · rw [resid_re]
    have : 0 ≤ ∑ k ∈ range K, Complex.normSq (err q X Y H k) :=
      Finset.sum_nonneg fun k _ => Complex.normSq_nonneg _
    positivity

/-- residuals depend only on the residual series on `k < K` -/
theorem resid_re_congr (q' : ℕ) (X' : ℕ → ℕ → ℂ) (H H' : ℕ → ℂ)
    (h : ∀ k < K, err q X Y H k = err q' X' Y H' k) :
    (resid q K c X Y H).re = (resid q' K c X' Y H').re := by
  rw [resid_re, resid_re]
  congr 2
  exact Finset.sum_congr rfl fun k hk => by rw [h k (Finset.mem_range.mp hk)]

/-! ### orthogonality and the minimum property -/

theorem orth (H : ℕ → ℂ) (i : ℕ) :
    (c : ℂ) * ((1 / (K : ℂ)) * ∑ k ∈ range K, X i k * conj (err q X Y H k))
      = S K c X Y i - ∑ j ∈ range q, T K c X i j * H j := by
  simp only [err, S, T, map_sub, map_sum, map_mul, Complex.conj_conj, mul_sub,
    Finset.sum_sub_distrib, Finset.mul_sum, Finset.sum_mul]
  congr 1
  rw [Finset.sum_comm]
  exact Finset.sum_congr rfl fun j _ => Finset.sum_congr rfl fun k _ => by ring

theorem orth' (H : ℕ → ℂ) (i : ℕ)
    (hH : ∑ j ∈ range q, T K c X i j * H j = S K c X Y i) :
    (c : ℂ) * ((1 / (K : ℂ)) * ∑ k ∈ range K, err q X Y H k * conj (X i k)) = 0 := by
  have h := orth q K c X Y H i
  rw [hH, sub_self] at h
  have h2 := congrArg conj h
  simp only [map_mul, map_sum, map_div₀, map_one, Complex.conj_ofReal, Complex.conj_natCast,
    Complex.conj_conj, map_zero] at h2
  rw [← h2]
  congr 2
  exact Finset.sum_congr rfl fun k _ => by ring

theorem cross_zero (H D : ℕ → ℂ)
    (hH : ∀ i < q, ∑ j ∈ range q, T K c X i j * H j = S K c X Y i) :
    (c : ℂ) * ((1 / (K : ℂ)) * ∑ k ∈ range K,
      err q X Y H k * conj (∑ j ∈ range q, conj (D j) * X j k)) = 0 := by
  have h : (c : ℂ) * ((1 / (K : ℂ)) * ∑ k ∈ range K,
      err q X Y H k * conj (∑ j ∈ range q, conj (D j) * X j k))
      = ∑ j ∈ range q, D j * ((c : ℂ) * ((1 / (K : ℂ)) * ∑ k ∈ range K,
          err q X Y H k * conj (X j k))) := by
    simp only [map_sum, map_mul, Complex.conj_conj, Finset.mul_sum]
    rw [Finset.sum_comm]
    exact Finset.sum_congr rfl fun j _ => Finset.sum_congr rfl fun k _ => by ring
  rw [h]
  exact Finset.sum_eq_zero fun j hj => by
    rw [orth' q K c X Y H j (hH j (Finset.mem_range.mp hj)), mul_zero]

/-- a solution of the normal equations minimises the residual (no invertibility assumed) -/
theorem normal_eq_minimises (hc : 0 ≤ c) (H H' : ℕ → ℂ)
    (hH : ∀ i < q, ∑ j ∈ range q, T K c X i j * H j = S K c X Y i) :
    (resid q K c X Y H).re ≤ (resid q K c X Y H').re := by
  set d : ℕ → ℂ := fun k => ∑ j ∈ range q, conj (H' j - H j) * X j k with hd
  have herr : ∀ k, err q X Y H' k = err q X Y H k - d k := by
    intro k
    simp only [err, hd, map_sub, sub_mul, Finset.sum_sub_distrib]
    ring
  have hcross := cross_zero q K c X Y H (fun j => H' j - H j) hH
  have hcross' : c * ((1 / (K : ℝ)) * ∑ k ∈ range K, (err q X Y H k * conj (d k)).re) = 0 := by
    have h2 : ((c * (1 / (K : ℝ)) : ℝ) : ℂ) * ∑ k ∈ range K, err q X Y H k * conj (d k) = 0 := by
      rw [← hcross]; push_cast; ring
    have h3 := congrArg Complex.re h2
    rw [Complex.re_ofReal_mul, Complex.re_sum, Complex.zero_re] at h3
    rw [← h3]; ring
  rw [resid_re, resid_re]
  have hexp : c * ((1 / (K : ℝ)) * ∑ k ∈ range K, Complex.normSq (err q X Y H' k))
      = c * ((1 / (K : ℝ)) * ∑ k ∈ range K, Complex.normSq (err q X Y H k))
        + c * ((1 / (K : ℝ)) * ∑ k ∈ range K, Complex.normSq (d k))
        - 2 * (c * ((1 / (K : ℝ)) * ∑ k ∈ range K, (err q X Y H k * conj (d k)).re)) := by
    simp only [herr, Complex.normSq_sub, Finset.sum_sub_distrib, Finset.sum_add_distrib,
      ← Finset.mul_sum]
    ring
  rw [hexp, hcross']
  have : 0 ≤ c * ((1 / (K : ℝ)) * ∑ k ∈ range K, Complex.normSq (d k)) := by
    have : 0 ≤ ∑ k ∈ range K, Complex.normSq (d k) :=
      Finset.sum_nonneg fun k _ => Complex.normSq_nonneg _
    positivity
  linarith

theorem resid_zero_H : (resid q K c X Y (fun _ => 0)).re = S00 K c Y := by
  rw [resid_re, S00]
  congr 2
  exact Finset.sum_congr rfl fun k _ => by simp [err]

theorem residual_le_output (hc : 0 ≤ c) (H : ℕ → ℂ)
    (hH : ∀ i < q, ∑ j ∈ range q, T K c X i j * H j = S K c X Y i) :
    (resid q K c X Y H).re ≤ S00 K c Y := by
  rw [← resid_zero_H q K c X Y]
  exact normal_eq_minimises q K c X Y hc H _ hH

/-- any two solutions of the normal equations give the same residual (analytic = numeric solver, singular T included) -/
theorem solvers_agree (hc : 0 ≤ c) (H H' : ℕ → ℂ)
    (hH : ∀ i < q, ∑ j ∈ range q, T K c X i j * H j = S K c X Y i)
    (hH' : ∀ i < q, ∑ j ∈ range q, T K c X i j * H' j = S K c X Y i) :
    (resid q K c X Y H).re = (resid q K c X Y H').re :=
  le_antisymm (normal_eq_minimises q K c X Y hc H H' hH)
    (normal_eq_minimises q K c X Y hc H' H hH')

/-- exact static linear combination ⇒ zero residual -/
theorem exact_combination_zero (hc : 0 ≤ c) (a : ℕ → ℂ) (hY : ∀ k < K, Y k = ∑ j ∈ range q, a j * X j k) (H : ℕ → ℂ)
    (hH : ∀ i < q, ∑ j ∈ range q, T K c X i j * H j = S K c X Y i) :
    (resid q K c X Y H).re = 0 := by
  apply le_antisymm _ (residual_real_nonneg q K c X Y hc H).2
  refine le_trans (normal_eq_minimises q K c X Y hc H (fun j => conj (a j)) hH) (le_of_eq ?_)
  rw [resid_re]
  have : ∑ k ∈ range K, Complex.normSq (err q X Y (fun j => conj (a j)) k) = 0 :=
    Finset.sum_eq_zero fun k hk => by
      simp only [err, Complex.conj_conj]
      rw [← hY k (Finset.mem_range.mp hk), sub_self, map_zero]
  rw [this]; ring

/-- pushing a transfer vector for the re-mixed inputs back to the original inputs -/
theorem err_remix (A : ℕ → ℕ → ℂ) (X' : ℕ → ℕ → ℂ) (k : ℕ)
    (hX' : ∀ i < q, X' i k = ∑ j ∈ range q, A i j * X j k) (H' : ℕ → ℂ) :
    err q X Y (fun j => conj (∑ i ∈ range q, conj (H' i) * A i j)) k = err q X' Y H' k := by
  simp only [err, Complex.conj_conj]
  congr 1
  have : ∀ i ∈ range q, conj (H' i) * X' i k = ∑ j ∈ range q, conj (H' i) * A i j * X j k := by
    intro i hi
    rw [hX' i (Finset.mem_range.mp hi), Finset.mul_sum]
    exact Finset.sum_congr rfl fun j _ => by ring
  rw [Finset.sum_congr rfl this, Finset.sum_comm]
  exact Finset.sum_congr rfl fun j _ => by rw [Finset.sum_mul]

/-- invertible re-mixing (permutations included): X' i k = Σ_j A i j · X j k with a left inverse B -/
theorem remix_invariant (hc : 0 ≤ c) (A B : ℕ → ℕ → ℂ) (X' : ℕ → ℕ → ℂ)
    (hX' : ∀ i < q, ∀ k < K, X' i k = ∑ j ∈ range q, A i j * X j k)
    (hB : ∀ j < q, ∀ k < K, X j k = ∑ i ∈ range q, B j i * X' i k)
    (H H' : ℕ → ℂ)
    (hH : ∀ i < q, ∑ j ∈ range q, T K c X i j * H j = S K c X Y i)
    (hH' : ∀ i < q, ∑ j ∈ range q, T K c X' i j * H' j = S K c X' Y i) :
    (resid q K c X Y H).re = (resid q K c X' Y H').re := by
  apply le_antisymm
  · rw [← resid_re_congr q K c X Y q X' _ H'
      (fun k hk => err_remix q X Y A X' k (fun i hi => hX' i hi k hk) H')]
    exact normal_eq_minimises q K c X Y hc H _ hH
  · rw [← resid_re_congr q K c X' Y q X _ H
      (fun k hk => err_remix q X' Y B X k (fun j hj => hB j hj k hk) H)]
    exact normal_eq_minimises q K c X' Y hc H' _ hH'

theorem T_self_im (i : ℕ) : (T K c X i i).im = 0 := by
  have : T K c X i i
      = ((c * ((1 / (K : ℝ)) * ∑ k ∈ range K, Complex.normSq (X i k)) : ℝ) : ℂ) := by
    simp only [T, Complex.mul_conj]
    push_cast
    rfl
  rw [this]; exact Complex.ofReal_im _

/-- q = 1: residual = Gyy·(1 − coherence) written without division: T₀₀·resid = T₀₀·S00 − |S₀|² -/
theorem siso_case (hc : 0 ≤ c) (H : ℕ → ℂ) (hH : T K c X 0 0 * H 0 = S K c X Y 0) :
    (T K c X 0 0).re * (resid 1 K c X Y H).re = (T K c X 0 0).re * S00 K c Y - Complex.normSq (S K c X Y 0) := by
  have _ := hc  -- not needed: the identity holds for every real scale
  have him := T_self_im K c X 0
  have hT: T K c X 0 0 = ((T K c X 0 0).re : ℂ) := by
    apply Complex.ext <;> simp [him]
  have hres : resid 1 K c X Y H = (S00 K c Y : ℂ) - H 0 * conj (S K c X Y 0) := by
    simp only [resid, Finset.sum_range_one]
    rw [← hH]
    ring
  have hmul : T K c X 0 0 * resid 1 K c X Y H
      = ((T K c X 0 0).re : ℂ) * (S00 K c Y : ℂ) - (Complex.normSq (S K c X Y 0) : ℂ) := by
    rw [hres, mul_sub, ← mul_assoc, hH, Complex.mul_conj, ← hT]
  have h := congrArg Complex.re hmul
  rw [Complex.mul_re, him, zero_mul, sub_zero] at h
  rw [h]
  simp [← Complex.ofReal_mul]
end Miso

/-! ### the executable model -/

theorem cxSum_toC (n : ℕ) (f : ℕ → Cx ℝ) :
    Cx.toC (Model.cxSum n f) = ∑ i ∈ range n, Cx.toC (f i) := by
  unfold Model.cxSum
  induction n with
  | zero => simp [forRange_zero]
  | succ k ih => rw [forRange_succ, Cx.toC_add, ih, Finset.sum_range_succ]

/-- the executable model computes exactly `resid` (given the same numbers as ℂ) -/
theorem model_misoResidual_toC (q : ℕ) (S00 : ℝ) (S : ℕ → Cx ℝ) (T : ℕ → ℕ → Cx ℝ) (H : ℕ → Cx ℝ) :
    Cx.toC (Model.misoResidual q S00 S T H)
      = (S00 : ℂ) - ∑ i ∈ range q, Cx.toC (H i) * (starRingEnd ℂ) (Cx.toC (S i))
          - ∑ i ∈ range q, (starRingEnd ℂ) (Cx.toC (H i)) * Cx.toC (S i)
          + ∑ i ∈ range q, ∑ j ∈ range q, (starRingEnd ℂ) (Cx.toC (H j)) * Cx.toC (H i) * Cx.toC (T j i) := by
  simp only [Model.misoResidual, Cx.toC_add, Cx.toC_sub, Cx.toC_ofReal, cxSum_toC, Cx.toC_mul,
    Cx.toC_conj]

#print axioms Miso.residual_is_norm
#print axioms Miso.residual_real_nonneg
#print axioms Miso.normal_eq_minimises
#print axioms Miso.residual_le_output
#print axioms Miso.solvers_agree
#print axioms Miso.exact_combination_zero
#print axioms Miso.remix_invariant
#print axioms Miso.siso_case
#print axioms model_misoResidual_toC
