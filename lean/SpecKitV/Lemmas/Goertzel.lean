/-
  SpecKitV.Lemmas.Goertzel — the Goertzel recurrence computes the direct DFT sum up to a unit
  factor, which cancels in `|X|²` and in `X · conj Y`.  General facts, independent of the
  spelling of the generated kernels; `SpecKitV.Props.C01` plugs the kernels into these.
-/
import SpecKitV.RealInst
import SpecKitV.Lemmas.CxC
import SpecKitV.Model.Ref
import Mathlib.Analysis.SpecialFunctions.Trigonometric.Basic
import Mathlib.Analysis.Complex.Trigonometric
open Finset Complex

/-! ### the recurrence as a pure recursion -/

/-- Goertzel state `(s1, s2)` after `L` steps on samples `v` with coefficient `c = 2cos ω` -/
noncomputable def goertzelS (c : ℝ) (v : ℕ → ℝ) : ℕ → ℝ × ℝ
  | 0 => (0, 0)
  | n+1 => (v n + c * (goertzelS c v n).1 - (goertzelS c v n).2, (goertzelS c v n).1)

@[simp] theorem goertzelS_zero (c : ℝ) (v : ℕ → ℝ) : goertzelS c v 0 = (0, 0) := rfl

theorem goertzelS_succ (c : ℝ) (v : ℕ → ℝ) (n : ℕ) :
    goertzelS c v (n+1)
      = (v n + c * (goertzelS c v n).1 - (goertzelS c v n).2, (goertzelS c v n).1) := rfl

/-- the state only depends on the first `L` samples -/
theorem goertzelS_congr (c : ℝ) (v v' : ℕ → ℝ) (L : ℕ) (h : ∀ n < L, v n = v' n) :
    goertzelS c v L = goertzelS c v' L := by
  induction L with
  | zero => rfl
  | succ k ih =>
    rw [goertzelS_succ, goertzelS_succ, ih (fun n hn => h n (Nat.lt_succ_of_lt hn)),
      h k (Nat.lt_succ_self k)]

theorem exp_mul_exp_neg (ω : ℝ) :
    Complex.exp (ω * I) * Complex.exp (-(ω * I)) = 1 := by
  rw [← Complex.exp_add]; simp

theorem two_cos_eq_exp (ω : ℝ) :
    (2 : ℂ) * Complex.cos (ω : ℂ) = Complex.exp (ω * I) + Complex.exp (-(ω * I)) := by
  rw [Complex.two_cos]; simp

theorem exp_neg_eq_cos_sub_sin (ω : ℝ) :
    Complex.exp (-(ω * I)) = Complex.cos ω - Complex.sin ω * I := by
  rw [show -((ω : ℂ) * I) = (-(ω : ℂ)) * I by ring, Complex.exp_mul_I, Complex.cos_neg,
    Complex.sin_neg]
  ring

/-- key invariant: with `E = e^{iω}`, `s1 − e^{−iω} s2 = Σ_{n<k} v n E^{k−1−n}` -/
theorem goertzelS_inv (ω : ℝ) (v : ℕ → ℝ) (L : ℕ) :
    (((goertzelS (2 * Real.cos ω) v L).1 : ℝ) : ℂ)
        - Complex.exp (-(ω * I)) * (((goertzelS (2 * Real.cos ω) v L).2 : ℝ) : ℂ)
      = ∑ n ∈ range L, (v n : ℂ) * Complex.exp (ω * I) ^ (L - 1 - n) := by
  induction L with
  | zero => simp
  | succ L ih =>
    rw [Finset.sum_range_succ]
    have hE := exp_mul_exp_neg ω
    have hc := two_cos_eq_exp ω
    have hsum : ∑ n ∈ range L, (v n : ℂ) * Complex.exp (ω * I) ^ (L + 1 - 1 - n)
        = Complex.exp (ω * I) * ∑ n ∈ range L, (v n : ℂ) * Complex.exp (ω * I) ^ (L - 1 - n) := by
      rw [Finset.mul_sum]
      apply Finset.sum_congr rfl
      intro n hn
      have hn' : n < L := Finset.mem_range.mp hn
      have : L + 1 - 1 - n = (L - 1 - n) + 1 := by omega
      rw [this, pow_succ]; ring
    rw [hsum, ← ih, goertzelS_succ]
    have : L + 1 - 1 - L = 0 := by omega
    rw [this, pow_zero, mul_one]
    generalize (goertzelS (2 * Real.cos ω) v L).1 = s1
    generalize (goertzelS (2 * Real.cos ω) v L).2 = s2
    push_cast
    linear_combination (s1 : ℂ) * hc + ((s2 : ℂ)) * hE

theorem exp_pow_mul_exp_neg (ω : ℝ) (n : ℕ) :
    Complex.exp (ω * I) ^ n * Complex.exp (-(ω * n * I)) = 1 := by
  rw [← Complex.exp_nat_mul, ← Complex.exp_add]
  have : (n : ℂ) * ((ω : ℂ) * I) + -((ω : ℂ) * n * I) = 0 := by ring
  rw [this, Complex.exp_zero]

/-- the Goertzel output `(s1 − s2 cos ω) + i (s2 sin ω)` is the direct DFT sum times the unit
    factor `e^{iω(L−1)}` -/
theorem goertzelS_dft (ω : ℝ) (v : ℕ → ℝ) (L : ℕ) :
    (((goertzelS (2 * Real.cos ω) v L).1 - (goertzelS (2 * Real.cos ω) v L).2 * Real.cos ω : ℝ) : ℂ)
      + (((goertzelS (2 * Real.cos ω) v L).2 * Real.sin ω : ℝ) : ℂ) * Complex.I
      = Complex.exp (ω * Complex.I) ^ (L - 1)
          * ∑ n ∈ Finset.range L, (v n : ℂ) * Complex.exp (-(ω * n * Complex.I)) := by
  have hinv := goertzelS_inv ω v L
  have hsum : ∑ n ∈ range L, (v n : ℂ) * Complex.exp (ω * I) ^ (L - 1 - n)
      = Complex.exp (ω * I) ^ (L - 1) * ∑ n ∈ range L, (v n : ℂ) * Complex.exp (-(ω * n * I)) := by
    rw [Finset.mul_sum]
    apply Finset.sum_congr rfl
    intro n hn
    have hn' : n < L := Finset.mem_range.mp hn
    have h1 : L - 1 = (L - 1 - n) + n := by omega
    have h2 := exp_pow_mul_exp_neg ω n
    conv_rhs => rw [h1, pow_add]
    linear_combination (-(v n : ℂ) * Complex.exp (ω * I) ^ (L - 1 - n)) * h2
  rw [← hsum, ← hinv, exp_neg_eq_cos_sub_sin]
  push_cast
  ring

/-! ### the loop exactly as generated -/

/-- the 3-tuple fold with state `(s0, s1, s2)`: any body that is extensionally the Goertzel step -/
theorem forRange_goertzel_of (c : ℝ) (v : ℕ → ℝ) (L : ℕ) (init : ℝ × ℝ × ℝ)
    (f : ℕ → ℝ × ℝ × ℝ → ℝ × ℝ × ℝ) (hinit : init = ((0:ℝ), (0:ℝ), (0:ℝ)))
    (hf : ∀ n st, n < L →
      f n st = (v n + c * st.2.1 - st.2.2, v n + c * st.2.1 - st.2.2, st.2.1)) :
    forRange L init f
      = ((goertzelS c v L).1, (goertzelS c v L).1, (goertzelS c v L).2) := by
  subst hinit
  induction L with
  | zero => rw [forRange_zero]; rfl
  | succ k ih =>
    rw [forRange_succ, ih (fun n st hn => hf n st (Nat.lt_succ_of_lt hn)),
      hf k _ (Nat.lt_succ_self k), goertzelS_succ]

/-- the 3-tuple fold exactly as generated: state `(s0, s1, s2)`,
    body `(v n + c*s1 - s2, v n + c*s1 - s2, s1)` -/
theorem forRange_goertzel (c : ℝ) (v : ℕ → ℝ) (L : ℕ) :
    forRange L ((0:ℝ), (0:ℝ), (0:ℝ))
        (fun n st => (v n + c * st.2.1 - st.2.2, v n + c * st.2.1 - st.2.2, st.2.1))
      = ((goertzelS c v L).1, (goertzelS c v L).1, (goertzelS c v L).2) :=
  forRange_goertzel_of c v L _ _ rfl (fun _ _ _ => rfl)

/-! ### the direct sums and the model's `segDFT` -/

theorem exp_neg_mul_nat_I_re (θ : ℝ) (n : ℕ) :
    (Complex.exp (-((θ : ℂ) * (n : ℂ) * I))).re = Real.cos (θ * n) := by
  have h : -((θ : ℂ) * (n : ℂ) * I) = ((-(θ * n) : ℝ) : ℂ) * I := by push_cast; ring
  rw [h, Complex.exp_ofReal_mul_I_re, Real.cos_neg]

theorem exp_neg_mul_nat_I_im (θ : ℝ) (n : ℕ) :
    (Complex.exp (-((θ : ℂ) * (n : ℂ) * I))).im = -Real.sin (θ * n) := by
  have h : -((θ : ℂ) * (n : ℂ) * I) = ((-(θ * n) : ℝ) : ℂ) * I := by push_cast; ring
  rw [h, Complex.exp_ofReal_mul_I_im, Real.sin_neg]

/-- the model's windowed, detrended DFT as a complex sum (every detrending order) -/
theorem segDFT_toC (order : ℤ) (Q : ℕ → ℕ → ℝ) (x : ℕ → ℝ) (s L : ℕ) (w : ℕ → ℝ) (ω : ℝ) :
    Cx.toC (Model.segDFT order Q x s L w ω)
      = ∑ n ∈ range L, ((w n * Model.detr order Q x s L n : ℝ) : ℂ)
          * Complex.exp (-(ω * n * I)) := by
  apply Complex.ext
  · rw [Complex.re_sum]
    simp only [Cx.toC_re, Model.segDFT, sumRange_eq_sum, RL.cos_eq, RL.ofNat_eq,
      Complex.re_ofReal_mul, exp_neg_mul_nat_I_re]
  · rw [Complex.im_sum]
    simp only [Cx.toC_im, Model.segDFT, sumRange_eq_sum, RL.sin_eq, RL.ofNat_eq,
      RL.zero_eq, Complex.im_ofReal_mul, exp_neg_mul_nat_I_im]
    simp

/-! ### the four per-segment outputs -/

/-- the Goertzel result pair `(r, i) = (s1 − s2 cos ω, s2 sin ω)` -/
noncomputable def goertzelRI (ω : ℝ) (v : ℕ → ℝ) (L : ℕ) : ℝ × ℝ :=
  ((goertzelS (2 * Real.cos ω) v L).1 - (goertzelS (2 * Real.cos ω) v L).2 * Real.cos ω,
   (goertzelS (2 * Real.cos ω) v L).2 * Real.sin ω)

theorem goertzelRI_congr (ω : ℝ) (v v' : ℕ → ℝ) (L : ℕ) (h : ∀ n < L, v n = v' n) :
    goertzelRI ω v L = goertzelRI ω v' L := by
  unfold goertzelRI; rw [goertzelS_congr _ v v' L h]

theorem goertzelRI_toC (ω : ℝ) (v : ℕ → ℝ) (L : ℕ) :
    (⟨(goertzelRI ω v L).1, (goertzelRI ω v L).2⟩ : ℂ)
      = Complex.exp (ω * I) ^ (L - 1)
          * ∑ n ∈ range L, (v n : ℂ) * Complex.exp (-(ω * n * I)) := by
  rw [← goertzelS_dft, Complex.mk_eq_add_mul_I]
  rfl

theorem normSq_exp_pow (ω : ℝ) (k : ℕ) : Complex.normSq (Complex.exp (ω * I) ^ k) = 1 := by
  rw [map_pow, Complex.normSq_eq_norm_sq, Complex.norm_exp_ofReal_mul_I]; simp

/-- the four per-segment outputs computed from two Goertzel results equal `|X|²`, `|Y|²`,
    `Re X conj Y`, `Im X conj Y` of the DIRECT sums `X`, `Y` -/
theorem goertzel_pair_outputs (ω : ℝ) (v1 v2 : ℕ → ℝ) (L : ℕ) (X Y : Cx ℝ)
    (hX : Cx.toC X = ∑ n ∈ range L, (v1 n : ℂ) * Complex.exp (-(ω * n * I)))
    (hY : Cx.toC Y = ∑ n ∈ range L, (v2 n : ℂ) * Complex.exp (-(ω * n * I))) :
    let r1 := (goertzelRI ω v1 L).1
    let i1 := (goertzelRI ω v1 L).2
    let r2 := (goertzelRI ω v2 L).1
    let i2 := (goertzelRI ω v2 L).2
    r1 * r1 + i1 * i1 = Cx.normSq X ∧ r2 * r2 + i2 * i2 = Cx.normSq Y
      ∧ r1 * r2 + i1 * i2 = (X * Cx.conj Y).re ∧ i1 * r2 - r1 * i2 = (X * Cx.conj Y).im := by
  intro r1 i1 r2 i2
  set U : ℂ := Complex.exp (ω * I) ^ (L - 1) with hU
  have hUn : Complex.normSq U = 1 := normSq_exp_pow ω (L - 1)
  have h1 : (⟨r1, i1⟩ : ℂ) = U * Cx.toC X := by rw [hX]; exact goertzelRI_toC ω v1 L
  have h2 : (⟨r2, i2⟩ : ℂ) = U * Cx.toC Y := by rw [hY]; exact goertzelRI_toC ω v2 L
  have hUU : U * (starRingEnd ℂ) U = 1 := by
    rw [Complex.mul_conj, hUn]; simp
  have hcross : (⟨r1, i1⟩ : ℂ) * (starRingEnd ℂ) (⟨r2, i2⟩ : ℂ)
      = Cx.toC (X * Cx.conj Y) := by
    rw [h1, h2, map_mul, Cx.toC_mul, Cx.toC_conj]
    linear_combination (Cx.toC X * (starRingEnd ℂ) (Cx.toC Y)) * hUU
  refine ⟨?_, ?_, ?_, ?_⟩
  · have := congrArg Complex.normSq h1
    rw [map_mul, hUn, one_mul, Complex.normSq_mk, ← Cx.normSq_eq] at this
    exact this
  · have := congrArg Complex.normSq h2
    rw [map_mul, hUn, one_mul, Complex.normSq_mk, ← Cx.normSq_eq] at this
    exact this
  · have := congrArg Complex.re hcross
    simp only [Complex.mul_re, Complex.conj_re, Complex.conj_im, Cx.toC_re] at this
    rw [← this]; ring
  · have := congrArg Complex.im hcross
    simp only [Complex.mul_im, Complex.conj_re, Complex.conj_im, Cx.toC_im] at this
    rw [← this]; ring

/-- the same, specialised to the model's `segDFT`: any sample streams `v1`, `v2` that agree
    (on `n < L`) with window × detrended sample, in either multiplication order -/
theorem goertzel_pair_segDFT (ω : ℝ) (order : ℤ) (Q : ℕ → ℕ → ℝ) (x y : ℕ → ℝ) (s L : ℕ)
    (w : ℕ → ℝ) (v1 v2 : ℕ → ℝ)
    (hv1 : ∀ n < L, v1 n = Model.detr order Q x s L n * w n)
    (hv2 : ∀ n < L, v2 n = Model.detr order Q y s L n * w n) :
    let X := Model.segDFT order Q x s L w ω
    let Y := Model.segDFT order Q y s L w ω
    let r1 := (goertzelRI ω v1 L).1
    let i1 := (goertzelRI ω v1 L).2
    let r2 := (goertzelRI ω v2 L).1
    let i2 := (goertzelRI ω v2 L).2
    r1 * r1 + i1 * i1 = Cx.normSq X ∧ r2 * r2 + i2 * i2 = Cx.normSq Y
      ∧ r1 * r2 + i1 * i2 = (X * Cx.conj Y).re ∧ i1 * r2 - r1 * i2 = (X * Cx.conj Y).im := by
  refine goertzel_pair_outputs ω v1 v2 L _ _ ?_ ?_
  · rw [segDFT_toC]
    apply Finset.sum_congr rfl
    intro n hn
    rw [hv1 n (Finset.mem_range.mp hn), mul_comm (w n)]
  · rw [segDFT_toC]
    apply Finset.sum_congr rfl
    intro n hn
    rw [hv2 n (Finset.mem_range.mp hn), mul_comm (w n)]

/-- auto mode: one Goertzel result, `r² + i² = |X|²` -/
theorem goertzel_auto_segDFT (ω : ℝ) (order : ℤ) (Q : ℕ → ℕ → ℝ) (x : ℕ → ℝ) (s L : ℕ)
    (w : ℕ → ℝ) (v : ℕ → ℝ) (hv : ∀ n < L, v n = Model.detr order Q x s L n * w n) :
    (goertzelRI ω v L).1 * (goertzelRI ω v L).1 + (goertzelRI ω v L).2 * (goertzelRI ω v L).2
      = Cx.normSq (Model.segDFT order Q x s L w ω) :=
  (goertzel_pair_segDFT ω order Q x x s L w v v hv hv).1

/-- the auto kernels' output 4-tuple `(p, p, p, 0)` against the model's `(p, p, p, zero)` -/
theorem goertzel_auto4_segDFT (ω : ℝ) (order : ℤ) (Q : ℕ → ℕ → ℝ) (x : ℕ → ℝ) (s L : ℕ)
    (w : ℕ → ℝ) (v : ℕ → ℝ) (hv : ∀ n < L, v n = Model.detr order Q x s L n * w n) :
    let p := (goertzelRI ω v L).1 * (goertzelRI ω v L).1
      + (goertzelRI ω v L).2 * (goertzelRI ω v L).2
    let N := Cx.normSq (Model.segDFT order Q x s L w ω)
    p = N ∧ p = N ∧ p = N ∧ (0 : ℝ) = RealLike.zero :=
  have h := goertzel_auto_segDFT ω order Q x s L w v hv
  ⟨h, h, h, RL.zero_eq.symm⟩

/-! ### accumulator loops and the model's detrending, in `Finset.sum` form -/

theorem forRange_acc_sum (L : ℕ) (f : ℕ → ℝ) :
    forRange L (0:ℝ) (fun n acc => acc + f n) = ∑ n ∈ range L, f n := by
  induction L with
  | zero => simp [forRange_zero]
  | succ k ih => rw [forRange_succ, ih, Finset.sum_range_succ]

theorem forRange_acc_sum2 (L : ℕ) (f g : ℕ → ℝ) :
    forRange L ((0:ℝ), (0:ℝ)) (fun n st => (st.1 + f n, st.2 + g n))
      = (∑ n ∈ range L, f n, ∑ n ∈ range L, g n) := by
  induction L with
  | zero => simp [forRange_zero]
  | succ k ih => rw [forRange_succ, ih, Finset.sum_range_succ, Finset.sum_range_succ]

theorem detr_none (Q : ℕ → ℕ → ℝ) (x : ℕ → ℝ) (s L n : ℕ) :
    Model.detr (-1) Q x s L n = x (s + n) := by
  simp [Model.detr]

theorem detr_mean (Q : ℕ → ℕ → ℝ) (x : ℕ → ℝ) (s L n : ℕ) :
    Model.detr 0 Q x s L n = x (s + n) - (∑ m ∈ range L, x (s + m)) / (L : ℝ) := by
  simp [Model.detr, sumRange_eq_sum]

theorem detr_poly (p : ℕ) (hp : 1 ≤ p) (Q : ℕ → ℕ → ℝ) (x : ℕ → ℝ) (s L n : ℕ) :
    Model.detr (p : ℤ) Q x s L n
      = x (s + n) - ∑ k ∈ range (p + 1), Q n k * ∑ m ∈ range L, Q m k * x (s + m) := by
  have h1 : ((p : ℤ) == -1) = false := by
    rw [beq_eq_false_iff_ne]; omega
  have h0 : ((p : ℤ) == 0) = false := by
    rw [beq_eq_false_iff_ne]; omega
  have h2 : ((p : ℤ) + 1).toNat = p + 1 := by omega
  simp only [Model.detr, h1, h0, h2, sumRange_eq_sum, Bool.false_eq_true, if_false]

#print axioms goertzelS_dft
#print axioms forRange_goertzel
#print axioms forRange_goertzel_of
#print axioms segDFT_toC
#print axioms goertzel_pair_outputs
#print axioms goertzel_pair_segDFT
#print axioms goertzel_auto_segDFT
