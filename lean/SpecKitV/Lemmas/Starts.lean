/-
  SpecKitV.Lemmas.Starts — rounding helpers, segment counts and segment start positions of the
  schedulers (`Model.startsEven`, `Model.startsAccum`), all at `α := ℝ`.
-/
import SpecKitV.RealInst
import SpecKitV.Model.Sched

open RealLike

/-! ### the ℝ instance's ring operations are Mathlib's -/

theorem RLadd (a b : ℝ) : @HAdd.hAdd ℝ ℝ ℝ (@instHAdd ℝ instRealLikeReal.toAdd) a b = a + b := rfl
theorem RLsub (a b : ℝ) : @HSub.hSub ℝ ℝ ℝ (@instHSub ℝ instRealLikeReal.toSub) a b = a - b := rfl
theorem RLmul (a b : ℝ) : @HMul.hMul ℝ ℝ ℝ (@instHMul ℝ instRealLikeReal.toMul) a b = a * b := rfl
theorem RLdiv (a b : ℝ) : @HDiv.hDiv ℝ ℝ ℝ (@instHDiv ℝ instRealLikeReal.toDiv) a b = a / b := rfl

theorem half_eq : (RealLike.ofSci 5 true 1 : ℝ) = 1 / 2 := by
  simp only [RL.ofSci_eq]; norm_num

/-! ### round-half-even -/

theorem roundEven_cases (x : ℝ) :
    (x - ⌊x⌋ < 1 / 2 ∧ RealLike.roundEven x = ⌊x⌋) ∨
    (1 / 2 < x - ⌊x⌋ ∧ RealLike.roundEven x = ⌊x⌋ + 1) ∨
    (x - ⌊x⌋ = 1 / 2 ∧ (RealLike.roundEven x = ⌊x⌋ ∨ RealLike.roundEven x = ⌊x⌋ + 1)) := by
  rw [RL.roundEven_eq]
  dsimp only
  by_cases h1 : x - ⌊x⌋ < 1 / 2
  · left; exact ⟨h1, by rw [if_pos h1]⟩
  · by_cases h2 : 1 / 2 < x - ⌊x⌋
    · right; left; exact ⟨h2, by rw [if_neg h1, if_pos h2]⟩
    · right; right
      refine ⟨le_antisymm (not_lt.mp h2) (not_lt.mp h1), ?_⟩
      rw [if_neg h1, if_neg h2]
      by_cases h3 : ⌊x⌋ % 2 = 0
      · left; rw [if_pos h3]
      · right; rw [if_neg h3]

/-- round-half-even is within 1/2 -/
theorem roundEven_abs_sub_le (x : ℝ) : |((RealLike.roundEven x : ℤ) : ℝ) - x| ≤ 1 / 2 := by
  have h0 := Int.floor_le x
  have h1 := Int.lt_floor_add_one x
  rw [abs_le]
  rcases roundEven_cases x with ⟨h, e⟩ | ⟨h, e⟩ | ⟨h, e | e⟩ <;> rw [e] <;> push_cast <;>
    constructor <;> linarith

theorem int_eq_of_abs_sub_le_half {r z : ℤ} (h : |(r : ℝ) - z| ≤ 1 / 2) : r = z := by
  rw [abs_le] at h
  have h1 : (r : ℝ) < z + 1 := by linarith [h.2]
  have h2 : (z : ℝ) < r + 1 := by linarith [h.1]
  have h1' : r < z + 1 := by exact_mod_cast h1
  have h2' : z < r + 1 := by exact_mod_cast h2
  omega

theorem roundEven_int (z : ℤ) : RealLike.roundEven (z : ℝ) = z :=
  int_eq_of_abs_sub_le_half (roundEven_abs_sub_le (z : ℝ))

/-- strictly increasing across a gap of at least one -/
theorem roundEven_lt_of_add_one_le {a b : ℝ} (h : a + 1 ≤ b)
    (hne : ¬ (∃ m : ℤ, a = m + 1/2 ∧ b = a + 1)) :
    RealLike.roundEven a < RealLike.roundEven b := by
  have ha := abs_le.mp (roundEven_abs_sub_le a)
  have hb := abs_le.mp (roundEven_abs_sub_le b)
  have hle : ((RealLike.roundEven a : ℤ) : ℝ) ≤ (RealLike.roundEven b : ℤ) := by linarith [ha.2, hb.1]
  have hle' : RealLike.roundEven a ≤ RealLike.roundEven b := by exact_mod_cast hle
  rcases lt_or_eq_of_le hle' with hlt | heq
  · exact hlt
  · exfalso
    apply hne
    have heq' : ((RealLike.roundEven a : ℤ) : ℝ) = (RealLike.roundEven b : ℤ) := by rw [heq]
    refine ⟨RealLike.roundEven a - 1, ?_, ?_⟩
    · push_cast; linarith [ha.2, hb.1]
    · linarith [ha.2, hb.1]

/-! ### round-half-up -/

/-- `round_half_up` is ⌊v + 1/2⌋ for every real v (negative included) -/
theorem roundHalfUp_eq (v : ℝ) : Model.roundHalfUp v = ⌊v + 1 / 2⌋ := by
  unfold Model.roundHalfUp
  simp only [RL.ge_eq, RL.floor_eq, RL.ceil_eq, RL.ofInt_eq, half_eq, RLsub, decide_eq_true_eq]
  have h0 := Int.floor_le v
  have h1 := Int.lt_floor_add_one v
  by_cases h : 1 / 2 ≤ v - ⌊v⌋
  · rw [if_pos h]
    have e1 : ⌈v⌉ = ⌊v⌋ + 1 := by
      rw [Int.ceil_eq_iff]; push_cast; constructor <;> linarith
    have e2 : ⌊v + 1 / 2⌋ = ⌊v⌋ + 1 := by
      rw [Int.floor_eq_iff]; push_cast; constructor <;> linarith
    rw [e1, e2]
  · rw [if_neg h]
    have e2 : ⌊v + 1 / 2⌋ = ⌊v⌋ := by
      rw [Int.floor_eq_iff]; constructor <;> linarith
    rcases roundEven_cases v with ⟨_, e⟩ | ⟨h', _⟩ | ⟨h', _⟩
    · rw [e, e2]
    · exfalso; linarith
    · exfalso; linarith

/-! ### segment counts -/

/-- capped count is in range -/
theorem capK_le (N L : ℕ) (k : ℤ) : Model.capK N L k ≤ (N : ℤ) - L + 1 := by
  unfold Model.capK
  dsimp only
  split_ifs with h
  · exact h
  · exact le_refl _

theorem capK_ge_one (N L : ℕ) (hL : L ≤ N) (k : ℤ) (hk : 1 ≤ k) : 1 ≤ Model.capK N L k := by
  unfold Model.capK
  dsimp only
  split_ifs with h
  · exact hk
  · have : (L : ℤ) ≤ N := by exact_mod_cast hL
    omega

/-- the raw count is the nearest integer (ties up) to 1 + (N-L)/(xov·L) -/
theorem nsegRaw_eq (N L : ℕ) (xov : ℝ) :
    Model.nsegRaw N xov L = ⌊((N : ℝ) - L) / (xov * L) + 1 + 1 / 2⌋ := by
  unfold Model.nsegRaw
  rw [roundHalfUp_eq]
  simp only [RL.ofInt_eq, RL.ofNat_eq, RL.one_eq, RLadd, RLmul, RLdiv]
  push_cast
  rfl

/-- the raw count is at least 1 whenever 1 ≤ L ≤ N and xov > 0 -/
theorem nsegRaw_ge_one (N L : ℕ) (xov : ℝ) (hx : 0 < xov) (hL1 : 1 ≤ L) (hL : L ≤ N) :
    1 ≤ Model.nsegRaw N xov L := by
  rw [nsegRaw_eq, Int.le_floor]
  have hLr : (0 : ℝ) < L := by exact_mod_cast hL1
  have hNL : (0 : ℝ) ≤ (N : ℝ) - L := by
    have : (L : ℝ) ≤ N := by exact_mod_cast hL
    linarith
  have : 0 ≤ ((N : ℝ) - L) / (xov * L) := div_nonneg hNL (le_of_lt (mul_pos hx hLr))
  push_cast
  linarith

/-! ### generic starts: `D_i = rd (i * s)` for a nearest-integer rounding `rd` -/

theorem starts_safe_gen (rd : ℝ → ℤ)
    (h1 : ∀ x, |((rd x : ℤ) : ℝ) - x| ≤ 1 / 2)
    (h2 : ∀ a b : ℝ, a + 1 ≤ b → ¬ (∃ m : ℤ, a = m + 1/2 ∧ b = a + 1) → rd a < rd b)
    (N L : ℕ) (K : ℤ) (hL : L ≤ N) (hK2 : 2 ≤ K) (hKcap : K ≤ (N : ℤ) - L + 1)
    (D : List ℤ)
    (hD : D = (List.range K.toNat).map
      (fun i : ℕ => rd ((i : ℝ) * (((N : ℝ) - L) / ((K : ℝ) - 1))))) :
    D.length = K.toNat ∧ D.head? = some 0 ∧ D.getLast? = some ((N : ℤ) - L) ∧
    D.Pairwise (· < ·) ∧ (∀ d ∈ D, 0 ≤ d ∧ d + L ≤ N) ∧
    (∀ i (hi : i < D.length),
      |((D.get ⟨i, hi⟩ : ℤ) : ℝ) - i * (((N : ℝ) - L) / ((K : ℝ) - 1))| ≤ 1 / 2) := by
  subst hD
  obtain ⟨m, hm⟩ : ∃ m : ℕ, K = (m : ℤ) + 2 := ⟨(K - 2).toNat, by omega⟩
  subst hm
  have htn : ((m : ℤ) + 2).toNat = m + 2 := by omega
  rw [htn]
  set s : ℝ := ((N : ℝ) - L) / ((((m : ℤ) + 2 : ℤ) : ℝ) - 1) with hs
  have hLN : (L : ℝ) ≤ N := by exact_mod_cast hL
  have hcap : ((m : ℝ) + 1) ≤ (N : ℝ) - L := by
    have : ((m : ℤ) + 2 : ℤ) ≤ (N : ℤ) - L + 1 := hKcap
    have h' : (((m : ℤ) + 2 : ℤ) : ℝ) ≤ (((N : ℤ) - L + 1 : ℤ) : ℝ) := by exact_mod_cast this
    push_cast at h'
    linarith
  have hmpos : (0 : ℝ) < (m : ℝ) + 1 := by positivity
  have hden : ((((m : ℤ) + 2 : ℤ) : ℝ) - 1) = (m : ℝ) + 1 := by push_cast; ring
  have hs1 : 1 ≤ s := by
    rw [hs, hden, le_div_iff₀ hmpos]; linarith
  have hms : ((m : ℝ) + 1) * s = (N : ℝ) - L := by
    rw [hs, hden]; field_simp
  have rd_int : ∀ z : ℤ, rd (z : ℝ) = z := fun z => int_eq_of_abs_sub_le_half (h1 z)
  have hbound : ∀ i : ℕ, i < m + 2 → 0 ≤ rd ((i : ℝ) * s) ∧ rd ((i : ℝ) * s) + L ≤ N := by
    intro i hi
    have hi' : (i : ℝ) ≤ (m : ℝ) + 1 := by
      have : i ≤ m + 1 := by omega
      exact_mod_cast this
    have hi0 : (0 : ℝ) ≤ i := Nat.cast_nonneg i
    have hx0 : 0 ≤ (i : ℝ) * s := mul_nonneg hi0 (by linarith)
    have hx1 : (i : ℝ) * s ≤ (N : ℝ) - L := by
      rw [← hms]; exact mul_le_mul_of_nonneg_right hi' (by linarith)
    have hr := abs_le.mp (h1 ((i : ℝ) * s))
    constructor
    · have : (-1 : ℝ) < ((rd ((i : ℝ) * s) : ℤ) : ℝ) := by linarith [hr.1]
      have : (-1 : ℤ) < rd ((i : ℝ) * s) := by exact_mod_cast this
      omega
    · have : ((rd ((i : ℝ) * s) : ℤ) : ℝ) < (((N : ℤ) - L + 1 : ℤ) : ℝ) := by
        push_cast; linarith [hr.2]
      have : rd ((i : ℝ) * s) < (N : ℤ) - L + 1 := by exact_mod_cast this
      omega
  refine ⟨by simp, ?_, ?_, ?_, ?_, ?_⟩
  · rw [List.head?_map, List.head?_range]
    have h0 : rd 0 = 0 := by
      have := rd_int 0
      simpa using this
    simp [h0]
  · rw [List.range_succ, List.map_append, List.map_singleton, List.getLast?_concat]
    congr 1
    have : (((m + 1 : ℕ) : ℝ)) * s = (((N : ℤ) - L : ℤ) : ℝ) := by
      push_cast; exact hms
    rw [this, rd_int]
  · apply List.Pairwise.map _ _ List.pairwise_lt_range
    intro i j hij
    have hij' : (i : ℝ) + 1 ≤ j := by exact_mod_cast hij
    have hd : (0 : ℝ) ≤ (j : ℝ) - i - 1 := by linarith
    apply h2
    · nlinarith [mul_nonneg hd (by linarith : (0 : ℝ) ≤ s - 1)]
    · rintro ⟨z, hz1, hz2⟩
      have hs' : s = 1 := by
        nlinarith [mul_nonneg hd (by linarith : (0 : ℝ) ≤ s - 1)]
      rw [hs', mul_one] at hz1
      have : ((2 * (i : ℤ) : ℤ) : ℝ) = ((2 * z + 1 : ℤ) : ℝ) := by
        push_cast; linarith
      have : 2 * (i : ℤ) = 2 * z + 1 := by exact_mod_cast this
      omega
  · intro d hd
    rw [List.mem_map] at hd
    obtain ⟨i, hi, rfl⟩ := hd
    exact hbound i (List.mem_range.mp hi)
  · intro i hi
    simp only [List.get_eq_getElem, List.getElem_map, List.getElem_range]
    exact h1 _

/-! ### the two start lists in closed form -/

theorem shiftOf_eq (N L : ℕ) (K : ℤ) (hK2 : 2 ≤ K) :
    Model.shiftOf (α := ℝ) N L K = ((N : ℝ) - L) / ((K : ℝ) - 1) := by
  unfold Model.shiftOf
  have hK : K > 1 := by omega
  rw [if_pos hK]
  simp only [RL.ofInt_eq, RLdiv]
  push_cast
  rfl

theorem startsEven_eq (N L : ℕ) (K : ℤ) (hK2 : 2 ≤ K) :
    Model.startsEven (α := ℝ) N L K = (List.range K.toNat).map
      (fun i : ℕ => RealLike.roundEven ((i : ℝ) * (((N : ℝ) - L) / ((K : ℝ) - 1)))) := by
  unfold Model.startsEven
  simp only [shiftOf_eq N L K hK2, RL.ofNat_eq, RLmul]

theorem roundEven_zero : RealLike.roundEven (0 : ℝ) = 0 := by
  have := roundEven_int 0
  simpa using this

theorem startsEven_one (N L : ℕ) : Model.startsEven (α := ℝ) N L 1 = [0] := by
  unfold Model.startsEven Model.shiftOf
  simp [List.range_succ, roundEven_zero]

/-- half-up rounding as a function ℝ → ℤ -/
noncomputable def halfUp (x : ℝ) : ℤ := ⌊x + 1 / 2⌋

theorem halfUp_abs_sub_le (x : ℝ) : |((halfUp x : ℤ) : ℝ) - x| ≤ 1 / 2 := by
  unfold halfUp
  have h0 := Int.floor_le (x + 1 / 2)
  have h1 := Int.lt_floor_add_one (x + 1 / 2)
  rw [abs_le]; constructor <;> linarith

theorem halfUp_lt_of_add_one_le {a b : ℝ} (h : a + 1 ≤ b) : halfUp a < halfUp b := by
  unfold halfUp
  have : ⌊a + 1 / 2⌋ + 1 ≤ ⌊b + 1 / 2⌋ := by
    rw [← Int.floor_add_one]
    exact Int.floor_le_floor (by linarith)
  omega

/-- the `ltf_plan` loop body -/
theorem startsAccum_loop (s : ℝ) (hs : 0 ≤ s) (n : ℕ) :
    forRange n (([] : List Int), (RealLike.zero : ℝ)) (fun _ (acc : List Int × ℝ) =>
      let start := acc.2
      let istart := if ge start zero then trunc (start + ofSci 5 true 1)
                    else trunc (start - ofSci 5 true 1)
      (acc.1 ++ [istart], start + s))
    = ((List.range n).map (fun i : ℕ => halfUp ((i : ℝ) * s)), (n : ℝ) * s) := by
  induction n with
  | zero => simp [forRange_zero]
  | succ k ih =>
    rw [forRange_succ, ih]
    have hk : (0 : ℝ) ≤ (k : ℝ) * s := mul_nonneg (Nat.cast_nonneg k) hs
    simp only [RL.ge_eq, RL.zero_eq, half_eq, decide_eq_true_eq, if_pos hk, RL.trunc_eq]
    rw [if_pos (by linarith : (0 : ℝ) ≤ (k : ℝ) * s + 1 / 2)]
    rw [List.range_succ, List.map_append, List.map_singleton]
    refine Prod.ext rfl ?_
    simp only
    push_cast
    ring

theorem startsAccum_eq (N L : ℕ) (K : ℤ) (hL : L ≤ N) (hK2 : 2 ≤ K)
    (hKcap : K ≤ (N : ℤ) - L + 1) :
    Model.startsAccum (α := ℝ) N L K = (List.range K.toNat).map
      (fun i : ℕ => halfUp ((i : ℝ) * (((N : ℝ) - L) / ((K : ℝ) - 1)))) := by
  have hK1 : (K == 1) = false := by
    rw [beq_eq_false_iff_ne]; omega
  have hKr : (0 : ℝ) < (K : ℝ) - 1 := by
    have : ((2 : ℤ) : ℝ) ≤ (K : ℝ) := by exact_mod_cast hK2
    push_cast at this; linarith
  have hs1 : 1 ≤ ((N : ℝ) - L) / ((K : ℝ) - 1) := by
    rw [le_div_iff₀ hKr]
    have h' : ((K : ℤ) : ℝ) ≤ (((N : ℤ) - L + 1 : ℤ) : ℝ) := by exact_mod_cast hKcap
    push_cast at h'
    linarith
  have hshift : (RealLike.ofInt ((N : ℤ) - (L : ℤ)) / RealLike.ofInt (K - 1) : ℝ)
      = ((N : ℝ) - L) / ((K : ℝ) - 1) := by
    simp only [RL.ofInt_eq]; push_cast; rfl
  unfold Model.startsAccum
  simp only [hK1, Bool.false_eq_true, if_false, hshift, RL.lt_eq, RL.one_eq,
    decide_eq_true_eq, if_neg (not_lt.mpr hs1)]
  rw [startsAccum_loop _ (by linarith)]

theorem startsAccum_one (N L : ℕ) : Model.startsAccum (α := ℝ) N L 1 = [0] := by
  unfold Model.startsAccum
  simp only [beq_self_eq_true, if_true, RL.lt_eq, RL.one_eq, lt_irrefl, decide_false,
    Bool.false_eq_true, if_false]
  have := startsAccum_loop 1 (by norm_num) 1
  rw [show (1 : ℤ).toNat = 1 from rfl, this]
  simp [halfUp, List.range_succ]
  norm_num

/-! ### the safety theorems -/

/-- main safety theorem for the half-even starts: K segments, 2 ≤ K ≤ N-L+1 -/
theorem startsEven_safe (N L : ℕ) (K : ℤ) (hL1 : 1 ≤ L) (hL : L ≤ N) (hK2 : 2 ≤ K)
    (hKcap : K ≤ (N : ℤ) - L + 1) :
    let D := Model.startsEven (α := ℝ) N L K
    D.length = K.toNat ∧ D.head? = some 0 ∧ D.getLast? = some ((N : ℤ) - L) ∧
    D.Pairwise (· < ·) ∧ (∀ d ∈ D, 0 ≤ d ∧ d + L ≤ N) ∧
    (∀ i (hi : i < D.length),
      |((D.get ⟨i, hi⟩ : ℤ) : ℝ) - i * (((N : ℝ) - L) / ((K : ℝ) - 1))| ≤ 1 / 2) := by
  intro D
  have _ := hL1
  exact starts_safe_gen RealLike.roundEven roundEven_abs_sub_le
    (fun a b h hne => roundEven_lt_of_add_one_le h hne) N L K hL hK2 hKcap D
    (startsEven_eq N L K hK2)

/-- the same for the accumulated half-up starts of `ltf_plan` -/
theorem startsAccum_safe (N L : ℕ) (K : ℤ) (hL1 : 1 ≤ L) (hL : L ≤ N) (hK2 : 2 ≤ K)
    (hKcap : K ≤ (N : ℤ) - L + 1) :
    let D := Model.startsAccum (α := ℝ) N L K
    D.length = K.toNat ∧ D.head? = some 0 ∧ D.getLast? = some ((N : ℤ) - L) ∧
    D.Pairwise (· < ·) ∧ (∀ d ∈ D, 0 ≤ d ∧ d + L ≤ N) ∧
    (∀ i (hi : i < D.length),
      |((D.get ⟨i, hi⟩ : ℤ) : ℝ) - i * (((N : ℝ) - L) / ((K : ℝ) - 1))| ≤ 1 / 2) := by
  intro D
  have _ := hL1
  exact starts_safe_gen halfUp halfUp_abs_sub_le
    (fun a b h _ => halfUp_lt_of_add_one_le h) N L K hL hK2 hKcap D
    (startsAccum_eq N L K hL hK2 hKcap)

/-! ### realised mean overlap (telescoping) -/

theorem sum_terms (L : ℕ) (l : List ℤ) :
    (l.map (fun df : ℤ => ((((L : ℤ) - df : ℤ) : ℝ)) / (L : ℝ))).sum
      = ((l.length : ℝ) * L - ((l.sum : ℤ) : ℝ)) / L := by
  induction l with
  | nil => simp
  | cons a t ih =>
    rw [List.map_cons, List.sum_cons, ih, List.length_cons, List.sum_cons]
    push_cast
    ring

theorem sum_diffs (d0 : ℤ) (rest : List ℤ) :
    ((List.zip (d0 :: rest) rest).map (fun (p : ℤ × ℤ) => p.2 - p.1)).sum
      = rest.getLast?.getD d0 - d0 := by
  induction rest generalizing d0 with
  | nil => simp
  | cons d1 r ih =>
    rw [List.zip_cons_cons, List.map_cons, List.sum_cons, ih d1, List.getLast?_cons]
    simp only [Option.getD_some]
    ring

theorem foldl_add_eq_sum (l : List ℝ) :
    l.foldl (fun x y => @HAdd.hAdd ℝ ℝ ℝ (@instHAdd ℝ instRealLikeReal.toAdd) x y)
      (RealLike.zero : ℝ) = l.sum := by
  rw [RL.zero_eq, List.sum_eq_foldl]

theorem overlapMean_of_ends (L : ℕ) (D : List ℤ) (a b : ℤ) (n : ℕ)
    (hlen : D.length = n + 2) (hh : D.head? = some a) (hl : D.getLast? = some b) :
    Model.overlapMean (α := ℝ) L D
      = (((n : ℝ) + 1) * L - ((b : ℝ) - a)) / L / ((n : ℝ) + 1) := by
  match D, hlen, hh, hl with
  | d0 :: d1 :: rest, hlen, hh, hl =>
    simp only [List.head?_cons, Option.some.injEq] at hh
    subst hh
    rw [List.getLast?_cons] at hl
    simp only [Option.some.injEq] at hl
    have hlen' : rest.length = n := by simpa using hlen
    unfold Model.overlapMean
    simp only [foldl_add_eq_sum, RL.ofInt_eq, RL.ofNat_eq, List.map_map, List.length_map]
    have e := sum_diffs d0 (d1 :: rest)
    have e2 := sum_terms L ((List.zip (d0 :: d1 :: rest) (d1 :: rest)).map
      (fun (p : ℤ × ℤ) => p.2 - p.1))
    rw [e, hl] at e2
    rw [List.map_map] at e2
    have hzl : (List.zip (d0 :: d1 :: rest) (d1 :: rest)).length = n + 1 := by
      simp [hlen']
    rw [List.length_map, hzl] at e2
    rw [hzl]
    push_cast at e2 ⊢
    exact congrArg (· / ((n : ℝ) + 1)) e2

theorem overlapClosed_eq (N L : ℕ) (K : ℤ) (hK2 : 2 ≤ K) :
    Model.overlapClosed (α := ℝ) N L K
      = ((L : ℝ) - ((N : ℝ) - L) / ((K : ℝ) - 1)) / L := by
  unfold Model.overlapClosed
  have hK : K > 1 := by omega
  rw [if_pos hK, shiftOf_eq N L K hK2]
  rfl

/-- any start list with the right length and end points has the closed-form mean overlap -/
theorem overlapMean_eq_of_safe (N L : ℕ) (K : ℤ) (hL1 : 1 ≤ L) (hK2 : 2 ≤ K) (D : List ℤ)
    (hlen : D.length = K.toNat) (hh : D.head? = some 0)
    (hl : D.getLast? = some ((N : ℤ) - L)) :
    Model.overlapMean (α := ℝ) L D = Model.overlapClosed (α := ℝ) N L K := by
  obtain ⟨m, hm⟩ : ∃ m : ℕ, K = (m : ℤ) + 2 := ⟨(K - 2).toNat, by omega⟩
  subst hm
  have htn : ((m : ℤ) + 2).toNat = m + 2 := by omega
  rw [htn] at hlen
  rw [overlapMean_of_ends L D 0 ((N : ℤ) - L) m hlen hh hl, overlapClosed_eq N L _ hK2]
  have hLr : (L : ℝ) ≠ 0 := by
    have : (0 : ℝ) < L := by exact_mod_cast hL1
    exact ne_of_gt this
  have hm1 : (m : ℝ) + 1 ≠ 0 := by positivity
  have hden : ((((m : ℤ) + 2 : ℤ) : ℝ) - 1) = (m : ℝ) + 1 := by push_cast; ring
  rw [hden]
  push_cast
  field_simp
  ring

/-- the reported overlap of the closed-form schedulers is the realised mean overlap of the
    starts (telescoping) -/
theorem overlapMean_eq_closed (N L : ℕ) (K : ℤ) (hL1 : 1 ≤ L) (hL : L ≤ N) (hK2 : 2 ≤ K)
    (hKcap : K ≤ (N : ℤ) - L + 1) :
    Model.overlapMean (α := ℝ) L (Model.startsEven (α := ℝ) N L K)
      = Model.overlapClosed (α := ℝ) N L K := by
  have h := startsEven_safe N L K hL1 hL hK2 hKcap
  exact overlapMean_eq_of_safe N L K hL1 hK2 _ h.1 h.2.1 h.2.2.1

theorem overlapMean_accum_eq_closed (N L : ℕ) (K : ℤ) (hL1 : 1 ≤ L) (hL : L ≤ N) (hK2 : 2 ≤ K)
    (hKcap : K ≤ (N : ℤ) - L + 1) :
    Model.overlapMean (α := ℝ) L (Model.startsAccum (α := ℝ) N L K)
      = Model.overlapClosed (α := ℝ) N L K := by
  have h := startsAccum_safe N L K hL1 hL hK2 hKcap
  exact overlapMean_eq_of_safe N L K hL1 hK2 _ h.1 h.2.1 h.2.2.1

theorem roundEven_half : RealLike.roundEven (1 / 2 : ℝ) = 0 := by
  have hf : ⌊(1 / 2 : ℝ)⌋ = 0 := by rw [Int.floor_eq_iff]; norm_num
  rw [RL.roundEven_eq]
  simp only [hf]
  norm_num

/-- a cap that is necessary: without K ≤ N-L+1 the starts collide (concrete witness:
    N = 10, L = 9, K = 3 gives shift 1/2 and starts [0, 0, 1]) -/
theorem startsEven_uncapped_collide :
    ¬ (Model.startsEven (α := ℝ) 10 9 3).Pairwise (· < ·) := by
  rw [startsEven_eq 10 9 3 (by norm_num)]
  have h3 : (3 : ℤ).toNat = 3 := rfl
  have hs : (((10 : ℕ) : ℝ) - ((9 : ℕ) : ℝ)) / (((3 : ℤ) : ℝ) - 1) = 1 / 2 := by norm_num
  rw [h3, hs]
  have e : List.range 3 = [0, 1, 2] := rfl
  rw [e]
  simp only [List.map_cons, List.map_nil, Nat.cast_zero, zero_mul, Nat.cast_one, one_mul,
    roundEven_zero, roundEven_half]
  intro h
  rw [List.pairwise_cons] at h
  exact lt_irrefl (0 : ℤ) (h.1 0 (by simp))

#print axioms roundHalfUp_eq
#print axioms roundEven_abs_sub_le
#print axioms roundEven_int
#print axioms roundEven_lt_of_add_one_le
#print axioms capK_le
#print axioms capK_ge_one
#print axioms nsegRaw_ge_one
#print axioms nsegRaw_eq
#print axioms startsEven_one
#print axioms startsAccum_one
#print axioms startsEven_safe
#print axioms startsAccum_safe
#print axioms overlapMean_eq_closed
#print axioms overlapMean_accum_eq_closed
#print axioms startsEven_uncapped_collide
