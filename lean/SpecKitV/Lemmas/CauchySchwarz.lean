/-
  SpecKitV.Lemmas.CauchySchwarz — Cauchy–Schwarz facts behind "coherence ∈ [0,1]" for
  segment-averaged cross-spectra, for an arbitrary number of segments K.
-/
import SpecKitV.RealInst
import Mathlib.Analysis.Complex.Basic
import Mathlib.Algebra.Order.BigOperators.Ring.Finset
import Mathlib.Analysis.Normed.Group.Basic

open Finset

theorem cross_cs_complex (K : ℕ) (X Y : ℕ → ℂ) :
    Complex.normSq (∑ k ∈ range K, X k * (starRingEnd ℂ) (Y k))
      ≤ (∑ k ∈ range K, Complex.normSq (X k)) * (∑ k ∈ range K, Complex.normSq (Y k)) := by
  have h1 : ‖∑ k ∈ range K, X k * (starRingEnd ℂ) (Y k)‖ ≤ ∑ k ∈ range K, ‖X k‖ * ‖Y k‖ := by
    refine (norm_sum_le _ _).trans_eq ?_
    refine sum_congr rfl fun k _ => ?_
    rw [norm_mul, Complex.norm_conj]
  have h2 : (∑ k ∈ range K, ‖X k‖ * ‖Y k‖) ^ 2
      ≤ (∑ k ∈ range K, ‖X k‖ ^ 2) * (∑ k ∈ range K, ‖Y k‖ ^ 2) :=
    sum_mul_sq_le_sq_mul_sq _ _ _
  have h3 : ‖∑ k ∈ range K, X k * (starRingEnd ℂ) (Y k)‖ ^ 2
      ≤ (∑ k ∈ range K, ‖X k‖ * ‖Y k‖) ^ 2 :=
    pow_le_pow_left₀ (norm_nonneg _) h1 2
  simp only [Complex.normSq_eq_norm_sq]
  exact h3.trans h2

/-- real-component form: per-segment DFT values X_k = r1 k + i·i1 k, Y_k = r2 k + i·i2 k;
    Re(X conj Y) = r1 r2 + i1 i2, Im(X conj Y) = i1 r2 − r1 i2. -/
theorem cross_cs_real (K : ℕ) (r1 i1 r2 i2 : ℕ → ℝ) :
    (∑ k ∈ range K, (r1 k * r2 k + i1 k * i2 k)) ^ 2 + (∑ k ∈ range K, (i1 k * r2 k - r1 k * i2 k)) ^ 2
      ≤ (∑ k ∈ range K, (r1 k * r1 k + i1 k * i1 k)) * (∑ k ∈ range K, (r2 k * r2 k + i2 k * i2 k)) := by
  have h := cross_cs_complex K (fun k => (⟨r1 k, i1 k⟩ : ℂ)) (fun k => (⟨r2 k, i2 k⟩ : ℂ))
  have e1 : Complex.normSq (∑ k ∈ range K, (⟨r1 k, i1 k⟩ : ℂ) * (starRingEnd ℂ) (⟨r2 k, i2 k⟩ : ℂ))
      = (∑ k ∈ range K, (r1 k * r2 k + i1 k * i2 k)) ^ 2
        + (∑ k ∈ range K, (i1 k * r2 k - r1 k * i2 k)) ^ 2 := by
    rw [Complex.normSq_apply, Complex.re_sum, Complex.im_sum]
    have ea : ∀ k, ((⟨r1 k, i1 k⟩ : ℂ) * (starRingEnd ℂ) (⟨r2 k, i2 k⟩ : ℂ)).re
        = r1 k * r2 k + i1 k * i2 k := by
      intro k; simp only [Complex.mul_re, Complex.conj_re, Complex.conj_im]; ring
    have eb : ∀ k, ((⟨r1 k, i1 k⟩ : ℂ) * (starRingEnd ℂ) (⟨r2 k, i2 k⟩ : ℂ)).im
        = i1 k * r2 k - r1 k * i2 k := by
      intro k; simp only [Complex.mul_im, Complex.conj_re, Complex.conj_im]; ring
    simp only [ea, eb]; ring
  simp only [Complex.normSq_mk] at h e1
  rw [e1] at h
  exact h

/-- the same inequality for the MEANS (each sum divided by K), which is what the code stores -/
theorem cross_cs_means (K : ℕ) (hK : 0 < K) (r1 i1 r2 i2 : ℕ → ℝ) :
    ((∑ k ∈ range K, (r1 k * r2 k + i1 k * i2 k)) / K) ^ 2 + ((∑ k ∈ range K, (i1 k * r2 k - r1 k * i2 k)) / K) ^ 2
      ≤ ((∑ k ∈ range K, (r1 k * r1 k + i1 k * i1 k)) / K) * ((∑ k ∈ range K, (r2 k * r2 k + i2 k * i2 k)) / K) := by
  have h := cross_cs_real K r1 i1 r2 i2
  have hK' : (0 : ℝ) < (K : ℝ) := by exact_mod_cast hK
  have hpos : (0 : ℝ) < (K : ℝ) ^ 2 := by positivity
  rw [div_pow, div_pow, ← add_div, div_mul_div_comm, ← sq]
  exact div_le_div_of_nonneg_right h hpos.le

/-- equality for a single segment -/
theorem cross_cs_eq_one_segment (r1 i1 r2 i2 : ℝ) :
    (r1 * r2 + i1 * i2) ^ 2 + (i1 * r2 - r1 * i2) ^ 2 = (r1 * r1 + i1 * i1) * (r2 * r2 + i2 * i2) := by
  ring

/-- equality when the second channel is a real multiple g of the first (every segment) -/
theorem cross_cs_eq_dependent (K : ℕ) (g : ℝ) (r1 i1 : ℕ → ℝ) :
    (∑ k ∈ range K, (r1 k * (g * r1 k) + i1 k * (g * i1 k))) ^ 2 + (∑ k ∈ range K, (i1 k * (g * r1 k) - r1 k * (g * i1 k))) ^ 2
      = (∑ k ∈ range K, (r1 k * r1 k + i1 k * i1 k)) * (∑ k ∈ range K, ((g * r1 k) * (g * r1 k) + (g * i1 k) * (g * i1 k))) := by
  have e1 : ∑ k ∈ range K, (r1 k * (g * r1 k) + i1 k * (g * i1 k))
      = g * ∑ k ∈ range K, (r1 k * r1 k + i1 k * i1 k) := by
    rw [mul_sum]; exact sum_congr rfl fun k _ => by ring
  have e2 : ∑ k ∈ range K, (i1 k * (g * r1 k) - r1 k * (g * i1 k)) = 0 :=
    sum_eq_zero fun k _ => by ring
  have e3 : ∑ k ∈ range K, ((g * r1 k) * (g * r1 k) + (g * i1 k) * (g * i1 k))
      = g ^ 2 * ∑ k ∈ range K, (r1 k * r1 k + i1 k * i1 k) := by
    rw [mul_sum]; exact sum_congr rfl fun k _ => by ring
  rw [e1, e2, e3]; ring

/-- swapping the channels conjugates the cross term and leaves its modulus unchanged -/
theorem cross_swap (K : ℕ) (r1 i1 r2 i2 : ℕ → ℝ) :
    (∑ k ∈ range K, (r2 k * r1 k + i2 k * i1 k)) = (∑ k ∈ range K, (r1 k * r2 k + i1 k * i2 k)) ∧
    (∑ k ∈ range K, (i2 k * r1 k - r2 k * i1 k)) = -(∑ k ∈ range K, (i1 k * r2 k - r1 k * i2 k)) := by
  refine ⟨sum_congr rfl fun k _ => by ring, ?_⟩
  rw [← sum_neg_distrib]
  exact sum_congr rfl fun k _ => by ring

/-- corollary: the modulus-squared of the cross term is symmetric in the two channels -/
theorem cross_swap_modsq (K : ℕ) (r1 i1 r2 i2 : ℕ → ℝ) :
    (∑ k ∈ range K, (r2 k * r1 k + i2 k * i1 k)) ^ 2 + (∑ k ∈ range K, (i2 k * r1 k - r2 k * i1 k)) ^ 2
      = (∑ k ∈ range K, (r1 k * r2 k + i1 k * i2 k)) ^ 2 + (∑ k ∈ range K, (i1 k * r2 k - r1 k * i2 k)) ^ 2 := by
  obtain ⟨h1, h2⟩ := cross_swap K r1 i1 r2 i2
  rw [h1, h2]; ring

#print axioms cross_cs_real
#print axioms cross_cs_complex
#print axioms cross_cs_means
#print axioms cross_cs_eq_one_segment
#print axioms cross_cs_eq_dependent
#print axioms cross_swap
#print axioms cross_swap_modsq

