/-
  SpecKitV.Lemmas.Chunking — exact state carry-over of the IIR sections / cascades and chunk
  invariance of the noise generators (`white`, `red`, `alpha`), plus the buffered `get_sample`
  and the direct-form characterisation of one section.

  Everything up to `white_sample_runs` is purely structural and proved for every `α` with
  `[RealLike α]` (no arithmetic law is used).
-/
import SpecKitV.RealInst
import SpecKitV.Model.Noise

namespace Model
variable {α : Type} [RealLike α]

/-! ### one section -/

theorem sectionRun_nil (a0 a1 b1 z : α) : sectionRun a0 a1 b1 z [] = ([], z) := rfl

theorem sectionRun_cons (a0 a1 b1 z x : α) (xs : List α) :
    sectionRun a0 a1 b1 z (x :: xs)
      = ((a0 * x + z) :: (sectionRun a0 a1 b1 (a1 * x - b1 * (a0 * x + z)) xs).1,
         (sectionRun a0 a1 b1 (a1 * x - b1 * (a0 * x + z)) xs).2) := rfl

/-- filter state is carried exactly: running a section over xs ++ ys = running over xs, then ys
    from the returned state -/
theorem sectionRun_append (a0 a1 b1 z : α) (xs ys : List α) :
    sectionRun a0 a1 b1 z (xs ++ ys)
      = ((sectionRun a0 a1 b1 z xs).1 ++ (sectionRun a0 a1 b1 (sectionRun a0 a1 b1 z xs).2 ys).1,
         (sectionRun a0 a1 b1 (sectionRun a0 a1 b1 z xs).2 ys).2) := by
  induction xs generalizing z with
  | nil => rfl
  | cons x xs ih =>
    rw [List.cons_append, sectionRun_cons, ih, sectionRun_cons]
    rfl

theorem sectionRun_length (a0 a1 b1 z : α) (xs : List α) :
    (sectionRun a0 a1 b1 z xs).1.length = xs.length := by
  induction xs generalizing z with
  | nil => rfl
  | cons x xs ih => rw [sectionRun_cons, List.length_cons, List.length_cons, ih]

/-! ### cascade -/

theorem cascadeRun_nil (xs : List α) : cascadeRun ([] : List (Section α)) xs = (xs, []) := rfl

theorem cascadeRun_cons (s : Section α) (ss : List (Section α)) (xs : List α) :
    cascadeRun (s :: ss) xs
      = ((cascadeRun ss (sectionRun s.a0 s.a1 s.b1 s.z xs).1).1,
         { s with z := (sectionRun s.a0 s.a1 s.b1 s.z xs).2 }
            :: (cascadeRun ss (sectionRun s.a0 s.a1 s.b1 s.z xs).1).2) := rfl

theorem cascadeRun_append (secs : List (Section α)) (xs ys : List α) :
    cascadeRun secs (xs ++ ys)
      = ((cascadeRun secs xs).1 ++ (cascadeRun (cascadeRun secs xs).2 ys).1,
         (cascadeRun (cascadeRun secs xs).2 ys).2) := by
  induction secs generalizing xs ys with
  | nil => rfl
  | cons s ss ih =>
    rw [cascadeRun_cons, sectionRun_append, ih, cascadeRun_cons, cascadeRun_cons]

theorem cascadeRun_nil_block (secs : List (Section α)) : cascadeRun secs [] = ([], secs) := by
  induction secs with
  | nil => rfl
  | cons s ss ih => rw [cascadeRun_cons, sectionRun_nil, ih]

theorem cascadeRun_length (secs : List (Section α)) (xs : List α) :
    (cascadeRun secs xs).1.length = xs.length := by
  induction secs generalizing xs with
  | nil => rfl
  | cons s ss ih => rw [cascadeRun_cons, ih, sectionRun_length]

/-! ### request sequences -/

omit [RealLike α] in
theorem runRequests_nil {σ : Type} (step : σ → ℕ → List α × σ) (s : σ) :
    runRequests step s [] = ([], s) := rfl

omit [RealLike α] in
theorem runRequests_cons {σ : Type} (step : σ → ℕ → List α × σ) (s : σ) (n : ℕ) (ns : List ℕ) :
    runRequests step s (n :: ns)
      = ((step s n).1 ++ (runRequests step (step s n).2 ns).1,
         (runRequests step (step s n).2 ns).2) := rfl

omit [RealLike α] in
/-- a step function that is "additive" in the request size (a zero request does nothing, and a
    request of `n + m` is a request of `n` followed by one of `m`) is chunk invariant -/
theorem runRequests_of_additive {σ : Type} (step : σ → ℕ → List α × σ)
    (h0 : ∀ s, step s 0 = ([], s))
    (hadd : ∀ s n m, step s (n + m)
      = ((step s n).1 ++ (step (step s n).2 m).1, (step (step s n).2 m).2))
    (s : σ) (ns : List ℕ) : runRequests step s ns = step s ns.sum := by
  induction ns generalizing s with
  | nil => rw [runRequests_nil, List.sum_nil, h0]
  | cons n ns ih => rw [runRequests_cons, ih, List.sum_cons, hadd]

/-! ### white -/

theorem whiteSeries_zero (xi : ℕ → α) (rms : α) (s : WhiteSt) :
    whiteSeries xi rms s 0 = ([], s) := rfl

theorem whiteSeries_add (xi : ℕ → α) (rms : α) (s : WhiteSt) (n m : ℕ) :
    whiteSeries xi rms s (n + m)
      = ((whiteSeries xi rms s n).1 ++ (whiteSeries xi rms (whiteSeries xi rms s n).2 m).1,
         (whiteSeries xi rms (whiteSeries xi rms s n).2 m).2) := by
  simp only [whiteSeries, List.range_add, List.map_append, List.map_map, Nat.add_assoc]
  rfl

/-- chunk invariance of each generator: any sequence of request sizes (zeros and ones included)
    gives the same samples and the same final state as one request of the total length -/
theorem white_chunking (xi : ℕ → α) (rms : α) (s : WhiteSt) (ns : List ℕ) :
    runRequests (whiteSeries xi rms) s ns = whiteSeries xi rms s ns.sum :=
  runRequests_of_additive _ (whiteSeries_zero xi rms) (whiteSeries_add xi rms) s ns

/-! ### red -/

theorem redSeries_zero (xi : ℕ → α) (rms c e scaling : α) (s : RedSt α) :
    redSeries xi rms c e scaling s 0 = ([], s) := rfl

theorem redSeries_pos (xi : ℕ → α) (rms c e scaling : α) (s : RedSt α) (n : ℕ) (hn : n ≠ 0) :
    redSeries xi rms c e scaling s n
      = (((sectionRun c RealLike.zero (RealLike.zero - e) s.zi (whiteSeries xi rms s.w n).1).1).map
            (fun y => y * scaling),
         { w := (whiteSeries xi rms s.w n).2,
           zi := (sectionRun c RealLike.zero (RealLike.zero - e) s.zi
                    (whiteSeries xi rms s.w n).1).2 }) := by
  unfold redSeries
  rw [if_neg hn]

theorem redSeries_add (xi : ℕ → α) (rms c e scaling : α) (s : RedSt α) (n m : ℕ) :
    redSeries xi rms c e scaling s (n + m)
      = ((redSeries xi rms c e scaling s n).1
            ++ (redSeries xi rms c e scaling (redSeries xi rms c e scaling s n).2 m).1,
         (redSeries xi rms c e scaling (redSeries xi rms c e scaling s n).2 m).2) := by
  by_cases hn : n = 0
  · subst hn
    rw [Nat.zero_add, redSeries_zero]
    rfl
  by_cases hm : m = 0
  · subst hm
    rw [Nat.add_zero, redSeries_zero, List.append_nil]
  have hnm : n + m ≠ 0 := by omega
  rw [redSeries_pos _ _ _ _ _ _ _ hnm, redSeries_pos _ _ _ _ _ _ _ hn,
    redSeries_pos _ _ _ _ _ _ _ hm, whiteSeries_add, sectionRun_append, List.map_append]

theorem red_chunking (xi : ℕ → α) (rms c e scaling : α) (s : RedSt α) (ns : List ℕ) :
    runRequests (redSeries xi rms c e scaling) s ns = redSeries xi rms c e scaling s ns.sum :=
  runRequests_of_additive _ (redSeries_zero xi rms c e scaling)
    (redSeries_add xi rms c e scaling) s ns

/-! ### alpha -/

theorem alphaSeries_eq (xi : ℕ → α) (rms scaling : α) (s : AlphaSt α) (n : ℕ) :
    alphaSeries xi rms scaling s n
      = (((cascadeRun s.secs (whiteSeries xi rms s.w n).1).1).map (fun y => y * scaling),
         { w := (whiteSeries xi rms s.w n).2,
           secs := (cascadeRun s.secs (whiteSeries xi rms s.w n).1).2 }) := rfl

theorem alphaSeries_zero (xi : ℕ → α) (rms scaling : α) (s : AlphaSt α) :
    alphaSeries xi rms scaling s 0 = ([], s) := by
  rw [alphaSeries_eq, whiteSeries_zero, cascadeRun_nil_block]
  rfl

theorem alphaSeries_add (xi : ℕ → α) (rms scaling : α) (s : AlphaSt α) (n m : ℕ) :
    alphaSeries xi rms scaling s (n + m)
      = ((alphaSeries xi rms scaling s n).1
            ++ (alphaSeries xi rms scaling (alphaSeries xi rms scaling s n).2 m).1,
         (alphaSeries xi rms scaling (alphaSeries xi rms scaling s n).2 m).2) := by
  simp only [alphaSeries_eq]
  rw [whiteSeries_add, cascadeRun_append, List.map_append]

theorem alpha_chunking (xi : ℕ → α) (rms scaling : α) (s : AlphaSt α) (ns : List ℕ) :
    runRequests (alphaSeries xi rms scaling) s ns = alphaSeries xi rms scaling s ns.sum :=
  runRequests_of_additive _ (alphaSeries_zero xi rms scaling)
    (alphaSeries_add xi rms scaling) s ns

/-! ### buffered single samples -/

/-- `k` buffered `get_sample` calls on a fresh buffer return the first k samples of the stream of
    `bufSize`-blocks -/
def sampleRun {σ : Type} (step : σ → ℕ → List α × σ) (bufSize : ℕ) :
    ℕ → σ × List α → List (Option α) × (σ × List α)
  | 0, st => ([], st)
  | k + 1, st =>
    let r := getSample step bufSize st
    let rest := sampleRun step bufSize k r.2
    (r.1 :: rest.1, rest.2)

omit [RealLike α] in
theorem sampleRun_succ {σ : Type} (step : σ → ℕ → List α × σ) (bufSize k : ℕ) (st : σ × List α) :
    sampleRun step bufSize (k + 1) st
      = ((getSample step bufSize st).1 :: (sampleRun step bufSize k (getSample step bufSize st).2).1,
         (sampleRun step bufSize k (getSample step bufSize st).2).2) := rfl

omit [RealLike α] in
theorem getSample_cons {σ : Type} (step : σ → ℕ → List α × σ) (bufSize : ℕ) (s : σ) (x : α)
    (rest : List α) : getSample step bufSize (s, x :: rest) = (some x, (s, rest)) := rfl

theorem range_succ_map {β : Type} (f : ℕ → β) (m : ℕ) :
    (List.range (m + 1)).map f = f 0 :: (List.range m).map (fun i => f (i + 1)) := by
  rw [List.range_succ_eq_map, List.map_cons, List.map_map]
  rfl

/-- invariant of the buffered white generator: the unread buffer is the next `m` scaled draws
    starting at stream position `j`, and the generator cursor sits at `j + m` -/
theorem white_sample_runs_aux (xi : ℕ → α) (rms : α) (bufSize : ℕ) (hb : 0 < bufSize) (k : ℕ) :
    ∀ (j m : ℕ),
      (sampleRun (whiteSeries xi rms) bufSize k
          (⟨j + m⟩, (List.range m).map (fun i => rms * xi (j + i)))).1
        = (List.range k).map (fun i => some (rms * xi (j + i))) := by
  induction k with
  | zero => intro j m; rfl
  | succ k ih =>
    intro j m
    rw [sampleRun_succ, range_succ_map (fun i => some (rms * xi (j + i)))]
    cases m with
    | succ m =>
      rw [range_succ_map (fun i => rms * xi (j + i)), getSample_cons]
      have h := ih (j + 1) m
      simp only [Nat.add_assoc, Nat.add_comm 1] at h ⊢
      rw [h]
    | zero =>
      obtain ⟨b, rfl⟩ : ∃ b, bufSize = b + 1 := ⟨bufSize - 1, by omega⟩
      have hg : getSample (whiteSeries xi rms) (b + 1) (⟨j + 0⟩, [])
          = (some (rms * xi (j + 0)),
              (⟨j + (b + 1)⟩, (List.range b).map (fun i => rms * xi (j + (i + 1))))) := by
        show (match (whiteSeries xi rms ⟨j + 0⟩ (b + 1)).1 with
          | [] => (none, ((whiteSeries xi rms ⟨j + 0⟩ (b + 1)).2, []))
          | y :: rest => (some y, ((whiteSeries xi rms ⟨j + 0⟩ (b + 1)).2, rest))) = _
        simp only [whiteSeries, Nat.add_zero, List.range_succ_eq_map, List.map_cons, List.map_map]
        rfl
      rw [List.range_zero, List.map_nil, hg]
      have h := ih (j + 1) b
      simp only [Nat.add_assoc, Nat.add_comm 1] at h ⊢
      rw [h]

theorem white_sample_runs (xi : ℕ → α) (rms : α) (bufSize : ℕ) (hb : 0 < bufSize) (k : ℕ) :
    (sampleRun (whiteSeries xi rms) bufSize k (⟨0⟩, [])).1
      = (List.range k).map (fun i => some (rms * xi i)) := by
  have h := white_sample_runs_aux xi rms bufSize hb k 0 0
  simpa only [Nat.zero_add, Nat.add_zero, List.range_zero, List.map_nil] using h

end Model

/-! ### direct form at `ℝ` -/

theorem sectionRun_first (a0 a1 b1 z x : ℝ) (xs : List ℝ) :
    ((Model.sectionRun a0 a1 b1 z (x :: xs)).1).head? = some (a0 * x + z) := rfl

theorem sectionRun_direct_form_aux (a0 a1 b1 : ℝ) (n : ℕ) :
    ∀ (z : ℝ) (xs : List ℝ), n + 1 < xs.length →
      (Model.sectionRun a0 a1 b1 z xs).1.getD (n+1) 0
        = a0 * xs.getD (n+1) 0 + a1 * xs.getD n 0
            - b1 * (Model.sectionRun a0 a1 b1 z xs).1.getD n 0 := by
  induction n with
  | zero =>
    intro z xs hn
    match xs, hn with
    | x :: x' :: rest, _ =>
      simp only [Model.sectionRun_cons, List.getD_cons_succ, List.getD_cons_zero]
      ring
  | succ n ih =>
    intro z xs hn
    match xs, hn with
    | x :: x' :: rest, hn =>
      have hn' : n + 1 < (x' :: rest).length := by simpa using hn
      have h := ih (a1 * x - b1 * (a0 * x + z)) (x' :: rest) hn'
      rw [Model.sectionRun_cons a0 a1 b1 z x]
      simp only [List.getD_cons_succ] at h ⊢
      exact h

/-- outputs of a section satisfy y₀ = a0·x₀ + z and yₙ = a0·xₙ + a1·xₙ₋₁ − b1·yₙ₋₁ -/
theorem sectionRun_direct_form (a0 a1 b1 z : ℝ) (xs : List ℝ) (n : ℕ) (hn : n + 1 < xs.length) :
    let ys := (Model.sectionRun a0 a1 b1 z xs).1
    ys.getD (n+1) 0 = a0 * xs.getD (n+1) 0 + a1 * xs.getD n 0 - b1 * ys.getD n 0 :=
  sectionRun_direct_form_aux a0 a1 b1 n z xs hn

#print axioms Model.sectionRun_append
#print axioms Model.sectionRun_length
#print axioms Model.sectionRun_nil
#print axioms Model.cascadeRun_append
#print axioms Model.cascadeRun_nil_block
#print axioms Model.white_chunking
#print axioms Model.red_chunking
#print axioms Model.alpha_chunking
#print axioms Model.white_sample_runs
#print axioms sectionRun_direct_form
#print axioms sectionRun_first
