/-
  SpecKitV.Lemmas.Detrend — algebra of the detrending step of the reference estimator
  (`Model.detr`, `Model.segDFT`) at `α := ℝ`: order −1 raw, order 0 mean removal, order p ≥ 1
  orthogonal projection `I − Q Qᵀ` for a matrix `Q` with orthonormal columns.
-/
import SpecKitV.RealInst
import SpecKitV.Lemmas.CxC
import SpecKitV.Model.Ref
open Finset

/-- `Q` has orthonormal columns on the L-point grid (contract of `np.linalg.qr`) -/
def OrthoCols (Q : ℕ → ℕ → ℝ) (L p1 : ℕ) : Prop :=
  ∀ k < p1, ∀ k' < p1, ∑ n ∈ range L, Q n k * Q n k' = if k = k' then 1 else 0

/-- `t` restricted to the grid lies in the column span of `Q` -/
def InSpan (Q : ℕ → ℕ → ℝ) (L p1 : ℕ) (t : ℕ → ℝ) : Prop :=
  ∃ a : ℕ → ℝ, ∀ n < L, t n = ∑ k ∈ range p1, a k * Q n k

/-! ### unfolding lemmas -/

/-- order −1 is the raw segment -/
theorem detr_neg_one (Q : ℕ → ℕ → ℝ) (x : ℕ → ℝ) (s L n : ℕ) :
    Model.detr (-1) Q x s L n = x (s + n) := by
  simp [Model.detr]

theorem detr0_eq (Q : ℕ → ℕ → ℝ) (x : ℕ → ℝ) (s L n : ℕ) :
    Model.detr 0 Q x s L n = x (s + n) - (∑ m ∈ range L, x (s + m)) / (L : ℝ) := by
  simp [Model.detr, sumRange_eq_sum]

theorem detr_poly_eq (p : ℕ) (hp : 1 ≤ p) (Q : ℕ → ℕ → ℝ) (x : ℕ → ℝ) (s L n : ℕ) :
    Model.detr (p : ℤ) Q x s L n
      = x (s + n) - ∑ k ∈ range (p + 1), Q n k * ∑ m ∈ range L, Q m k * x (s + m) := by
  have h1 : ((p : ℤ) == -1) = false := by
    rw [beq_eq_false_iff_ne]; omega
  have h0 : ((p : ℤ) == 0) = false := by
    rw [beq_eq_false_iff_ne]; omega
  have ht : ((p : ℤ) + 1).toNat = p + 1 := by omega
  simp only [Model.detr, h1, h0, ht, sumRange_eq_sum, Bool.false_eq_true, if_false]

/-- the general (non-special) branch, for any order other than −1, 0 -/
theorem detr_gen_eq (order : ℤ) (h1 : order ≠ -1) (h0 : order ≠ 0) (Q : ℕ → ℕ → ℝ) (x : ℕ → ℝ)
    (s L n : ℕ) :
    Model.detr order Q x s L n
      = x (s + n) - ∑ k ∈ range (order + 1).toNat, Q n k * ∑ m ∈ range L, Q m k * x (s + m) := by
  have h1' : (order == -1) = false := by rw [beq_eq_false_iff_ne]; exact h1
  have h0' : (order == 0) = false := by rw [beq_eq_false_iff_ne]; exact h0
  simp only [Model.detr, h1', h0', sumRange_eq_sum, Bool.false_eq_true, if_false]

/-! ### order 0 -/

/-- order 0: adding a constant changes nothing -/
theorem detr0_add_const (Q : ℕ → ℕ → ℝ) (x : ℕ → ℝ) (c : ℝ) (s L n : ℕ) (hL : 0 < L) :
    Model.detr 0 Q (fun m => x m + c) s L n = Model.detr 0 Q x s L n := by
  have hL' : (L : ℝ) ≠ 0 := by exact_mod_cast hL.ne'
  rw [detr0_eq, detr0_eq]
  simp only [sum_add_distrib, sum_const, card_range, nsmul_eq_mul]
  field_simp
  ring

/-- order 0 output has zero mean (orthogonal to constants) and is idempotent -/
theorem detr0_sum_zero (Q : ℕ → ℕ → ℝ) (x : ℕ → ℝ) (s L : ℕ) (hL : 0 < L) :
    ∑ n ∈ range L, Model.detr 0 Q x s L n = 0 := by
  have hL' : (L : ℝ) ≠ 0 := by exact_mod_cast hL.ne'
  simp only [detr0_eq, sum_sub_distrib, sum_const, card_range, nsmul_eq_mul]
  field_simp
  ring

/-- order 0 is idempotent (the second half of the docstring of `detr0_sum_zero`) -/
theorem detr0_idempotent (Q : ℕ → ℕ → ℝ) (x : ℕ → ℝ) (s L n : ℕ) (hL : 0 < L) :
    Model.detr 0 Q (fun m => Model.detr 0 Q x s L m) 0 L n = Model.detr 0 Q x s L n := by
  rw [detr0_eq Q (fun m => Model.detr 0 Q x s L m)]
  simp only [Nat.zero_add]
  rw [detr0_sum_zero Q x s L hL]
  simp

/-! ### order p ≥ 1 -/

/-- `Qᵀ` applied to an element of the span recovers the coefficients -/
theorem coeff_of_span (Q : ℕ → ℕ → ℝ) (L p1 : ℕ) (hQ : OrthoCols Q L p1) (a : ℕ → ℝ)
    (t : ℕ → ℝ) (ht : ∀ n < L, t n = ∑ k ∈ range p1, a k * Q n k) (k : ℕ) (hk : k < p1) :
    ∑ m ∈ range L, Q m k * t m = a k := by
  have h1 : ∑ m ∈ range L, Q m k * t m
      = ∑ m ∈ range L, ∑ j ∈ range p1, a j * (Q m k * Q m j) := by
    refine sum_congr rfl (fun m hm => ?_)
    rw [ht m (mem_range.1 hm), mul_sum]
    exact sum_congr rfl (fun j _ => by ring)
  rw [h1, sum_comm]
  have h2 : ∀ j ∈ range p1, ∑ m ∈ range L, a j * (Q m k * Q m j)
      = a j * (if k = j then 1 else 0) := by
    intro j hj
    rw [← mul_sum, hQ k hk j (mem_range.1 hj)]
  rw [sum_congr rfl h2]
  simp only [mul_ite, mul_one, mul_zero]
  rw [sum_ite_eq (range p1) k a, if_pos (mem_range.2 hk)]

/-- `Q Qᵀ` is the identity on the span -/
theorem proj_of_span (Q : ℕ → ℕ → ℝ) (L p1 : ℕ) (hQ : OrthoCols Q L p1)
    (t : ℕ → ℝ) (ht : InSpan Q L p1 t) (n : ℕ) (hn : n < L) :
    ∑ k ∈ range p1, Q n k * ∑ m ∈ range L, Q m k * t m = t n := by
  obtain ⟨a, ha⟩ := ht
  rw [ha n hn]
  refine sum_congr rfl (fun k hk => ?_)
  rw [coeff_of_span Q L p1 hQ a t ha k (mem_range.1 hk)]
  ring

/-- … and an element of the span is annihilated -/
theorem detr_poly_kills_span (p : ℕ) (hp : 1 ≤ p) (Q : ℕ → ℕ → ℝ) (L : ℕ)
    (hQ : OrthoCols Q L (p + 1))
    (s : ℕ) (t : ℕ → ℝ) (ht : InSpan Q L (p + 1) t) (n : ℕ) (hn : n < L) :
    Model.detr (p : ℤ) Q (fun m => t (m - s)) s L n = 0 := by
  rw [detr_poly_eq p hp]
  simp only [Nat.add_sub_cancel_left]
  rw [proj_of_span Q L (p + 1) hQ t ht n hn, sub_self]

/-- linearity in the record, every order -/
theorem detr_linear (order : ℤ) (Q : ℕ → ℕ → ℝ) (x y : ℕ → ℝ) (a b : ℝ) (s L n : ℕ) :
    Model.detr order Q (fun m => a * x m + b * y m) s L n
      = a * Model.detr order Q x s L n + b * Model.detr order Q y s L n := by
  by_cases h1 : order = -1
  · subst h1
    simp only [detr_neg_one]
  by_cases h0 : order = 0
  · subst h0
    simp only [detr0_eq, sum_add_distrib, ← mul_sum]
    ring
  · simp only [detr_gen_eq order h1 h0]
    have : ∀ k, ∑ m ∈ range L, Q m k * (a * x (s + m) + b * y (s + m))
        = a * ∑ m ∈ range L, Q m k * x (s + m) + b * ∑ m ∈ range L, Q m k * y (s + m) := by
      intro k
      rw [mul_sum, mul_sum, ← sum_add_distrib]
      exact sum_congr rfl (fun m _ => by ring)
    simp only [this]
    simp only [mul_add, sum_add_distrib]
    have e1 : ∀ z : ℕ → ℝ, ∀ c : ℝ,
        ∑ k ∈ range (order + 1).toNat, Q n k * (c * ∑ m ∈ range L, Q m k * z (s + m))
          = c * ∑ k ∈ range (order + 1).toNat, Q n k * ∑ m ∈ range L, Q m k * z (s + m) := by
      intro z c
      rw [mul_sum]
      exact sum_congr rfl (fun k _ => by ring)
    rw [e1 x a, e1 y b]
    ring

/-- additivity, the form used below -/
theorem detr_add (order : ℤ) (Q : ℕ → ℕ → ℝ) (x y : ℕ → ℝ) (s L n : ℕ) :
    Model.detr order Q (fun m => x m + y m) s L n
      = Model.detr order Q x s L n + Model.detr order Q y s L n := by
  have h := detr_linear order Q x y 1 1 s L n
  simpa only [one_mul] using h

/-- homogeneity -/
theorem detr_scale (order : ℤ) (Q : ℕ → ℕ → ℝ) (x : ℕ → ℝ) (c : ℝ) (s L n : ℕ) :
    Model.detr order Q (fun m => c * x m) s L n = c * Model.detr order Q x s L n := by
  have h := detr_linear order Q x x c 0 s L n
  simpa only [zero_mul, add_zero] using h

/-- order p ≥ 1 with an orthonormal basis: adding anything in the span changes nothing -/
theorem detr_poly_add_span (p : ℕ) (hp : 1 ≤ p) (Q : ℕ → ℕ → ℝ) (L : ℕ)
    (hQ : OrthoCols Q L (p + 1))
    (x : ℕ → ℝ) (s : ℕ) (t : ℕ → ℝ) (ht : InSpan Q L (p + 1) t) (n : ℕ) (hn : n < L) :
    Model.detr (p : ℤ) Q (fun m => x m + t (m - s)) s L n = Model.detr (p : ℤ) Q x s L n := by
  rw [detr_add (p : ℤ) Q x (fun m => t (m - s)) s L n,
    detr_poly_kills_span p hp Q L hQ s t ht n hn, add_zero]

/-- the detrended segment is orthogonal to every column of Q, hence to the whole span -/
theorem detr_poly_orthogonal (p : ℕ) (hp : 1 ≤ p) (Q : ℕ → ℕ → ℝ) (L : ℕ)
    (hQ : OrthoCols Q L (p + 1))
    (x : ℕ → ℝ) (s : ℕ) (k : ℕ) (hk : k < p + 1) :
    ∑ n ∈ range L, Q n k * Model.detr (p : ℤ) Q x s L n = 0 := by
  simp only [detr_poly_eq p hp, mul_sub, sum_sub_distrib]
  -- the projected part is a span element with coefficients `c j = ∑ m, Q m j * x (s+m)`
  have h := coeff_of_span Q L (p + 1) hQ (fun j => ∑ m ∈ range L, Q m j * x (s + m))
    (fun n => ∑ j ∈ range (p + 1), Q n j * ∑ m ∈ range L, Q m j * x (s + m))
    (fun n _ => sum_congr rfl (fun j _ => by ring)) k hk
  rw [h, sub_self]

/-- orthogonal to every element of the span -/
theorem detr_poly_orthogonal_span (p : ℕ) (hp : 1 ≤ p) (Q : ℕ → ℕ → ℝ) (L : ℕ)
    (hQ : OrthoCols Q L (p + 1))
    (x : ℕ → ℝ) (s : ℕ) (t : ℕ → ℝ) (ht : InSpan Q L (p + 1) t) :
    ∑ n ∈ range L, t n * Model.detr (p : ℤ) Q x s L n = 0 := by
  obtain ⟨a, ha⟩ := ht
  have h1 : ∑ n ∈ range L, t n * Model.detr (p : ℤ) Q x s L n
      = ∑ n ∈ range L, ∑ k ∈ range (p + 1), a k * (Q n k * Model.detr (p : ℤ) Q x s L n) := by
    refine sum_congr rfl (fun n hn => ?_)
    rw [ha n (mem_range.1 hn), sum_mul]
    exact sum_congr rfl (fun k _ => by ring)
  rw [h1, sum_comm]
  refine sum_eq_zero (fun k hk => ?_)
  rw [← mul_sum, detr_poly_orthogonal p hp Q L hQ x s k (mem_range.1 hk), mul_zero]

/-- "and nothing else": with p+2 ≤ L grid points a component outside the span survives.
    If `u` is orthogonal to every column of Q then detrending leaves it unchanged. -/
theorem detr_poly_keeps_orthogonal (p : ℕ) (hp : 1 ≤ p) (Q : ℕ → ℕ → ℝ) (L : ℕ)
    (s : ℕ) (u : ℕ → ℝ) (hu : ∀ k < p + 1, ∑ n ∈ range L, Q n k * u n = 0) (n : ℕ) (hn : n < L) :
    Model.detr (p : ℤ) Q (fun m => u (m - s)) s L n = u n := by
  have _ := hn
  rw [detr_poly_eq p hp]
  simp only [Nat.add_sub_cancel_left]
  rw [sum_eq_zero (fun k hk => by rw [hu k (mem_range.1 hk), mul_zero]), sub_zero]

/-- idempotent: detrending the detrended segment (placed at offset 0) changes nothing -/
theorem detr_poly_idempotent (p : ℕ) (hp : 1 ≤ p) (Q : ℕ → ℕ → ℝ) (L : ℕ)
    (hQ : OrthoCols Q L (p + 1))
    (x : ℕ → ℝ) (s : ℕ) (n : ℕ) (hn : n < L) :
    Model.detr (p : ℤ) Q (fun m => Model.detr (p : ℤ) Q x s L m) 0 L n
      = Model.detr (p : ℤ) Q x s L n := by
  have h := detr_poly_keeps_orthogonal p hp Q L 0 (fun m => Model.detr (p : ℤ) Q x s L m)
    (fun k hk => detr_poly_orthogonal p hp Q L hQ x s k hk) n hn
  simpa only [Nat.sub_zero] using h

/-! ### consequences for the windowed DFT of a segment -/

/-- `segDFT` only looks at the detrended samples `n < L` -/
theorem segDFT_congr (o o' : ℤ) (Q Q' : ℕ → ℕ → ℝ) (x y : ℕ → ℝ) (s s' L : ℕ) (w : ℕ → ℝ) (ω : ℝ)
    (h : ∀ n < L, Model.detr o Q x s L n = Model.detr o' Q' y s' L n) :
    Model.segDFT o Q x s L w ω = Model.segDFT o' Q' y s' L w ω := by
  simp only [Model.segDFT, sumRange_eq_sum]
  congr 1
  · exact sum_congr rfl (fun n hn => by rw [h n (mem_range.1 hn)])
  · congr 1
    exact sum_congr rfl (fun n hn => by rw [h n (mem_range.1 hn)])

theorem segDFT_add_const_order0 (Q : ℕ → ℕ → ℝ) (x : ℕ → ℝ) (c : ℝ) (s L : ℕ) (hL : 0 < L)
    (w : ℕ → ℝ) (ω : ℝ) :
    Model.segDFT 0 Q (fun m => x m + c) s L w ω = Model.segDFT 0 Q x s L w ω :=
  segDFT_congr 0 0 Q Q _ _ s s L w ω (fun n _ => detr0_add_const Q x c s L n hL)

theorem segDFT_add_span (p : ℕ) (hp : 1 ≤ p) (Q : ℕ → ℕ → ℝ) (L : ℕ) (hQ : OrthoCols Q L (p + 1))
    (x : ℕ → ℝ) (s : ℕ) (t : ℕ → ℝ) (ht : InSpan Q L (p + 1) t) (w : ℕ → ℝ) (ω : ℝ) :
    Model.segDFT (p : ℤ) Q (fun m => x m + t (m - s)) s L w ω = Model.segDFT (p : ℤ) Q x s L w ω :=
  segDFT_congr _ _ Q Q _ _ s s L w ω (fun n hn => detr_poly_add_span p hp Q L hQ x s t ht n hn)

theorem segDFT_scale (order : ℤ) (Q : ℕ → ℕ → ℝ) (x : ℕ → ℝ) (c : ℝ) (s L : ℕ) (w : ℕ → ℝ)
    (ω : ℝ) :
    Model.segDFT order Q (fun m => c * x m) s L w ω
      = Cx.smul c (Model.segDFT order Q x s L w ω) := by
  simp only [Model.segDFT, sumRange_eq_sum, Cx.smul, detr_scale, RL.zero_eq, zero_sub, mul_neg,
    mul_sum]
  congr 1
  · exact sum_congr rfl (fun n _ => by ring)
  · congr 1
    exact sum_congr rfl (fun n _ => by ring)

#print axioms detr_neg_one
#print axioms detr0_add_const
#print axioms detr0_sum_zero
#print axioms detr_poly_add_span
#print axioms detr_poly_kills_span
#print axioms detr_poly_orthogonal
#print axioms detr_poly_idempotent
#print axioms detr_linear
#print axioms segDFT_add_const_order0
#print axioms segDFT_add_span
#print axioms segDFT_scale
#print axioms detr_poly_keeps_orthogonal
