/-
  SpecKitV.Lemmas.DelayEff — property C07, detrending orders ≥ 0: the detrended windowed DFT
  `Model.segDFT order Q x s L w ω` is a linear functional of the raw samples,
  `X = Σ_n effWin n · x(s+n)` with the EFFECTIVE complex window `u = (I − P)(w ⊙ e^{−iω·})`
  (`P` the symmetric projection `Q Qᵀ`, resp. the mean for order 0); the delay identity and the
  delay bound of `Lemmas/Delay.lean` then hold verbatim with `u` in place of `w ⊙ e^{−iω·}`.
  No orthogonality of `Q` is used: the step is a swap of finite sums.
-/
import SpecKitV.Lemmas.Delay
import SpecKitV.Lemmas.Detrend
import Mathlib.Analysis.Real.Sqrt
open Finset

/-- effective (complex) window of the detrended windowed DFT: X = Σ_n effWin n · x(s+n) -/
noncomputable def effWin (order : ℤ) (Q : ℕ → ℕ → ℝ) (L : ℕ) (w : ℕ → ℝ) (ω : ℝ) (n : ℕ) : ℂ :=
  let e : ℕ → ℂ := fun m => (w m : ℂ) * Complex.exp (-(ω * (m : ℝ) * Complex.I))
  if order = -1 then e n
  else if order = 0 then e n - (∑ m ∈ Finset.range L, e m) / L
  else e n - ∑ k ∈ Finset.range (order + 1).toNat, (Q n k : ℂ) * ∑ m ∈ Finset.range L, (Q m k : ℂ) * e m

/-! ### the detrended DFT as a complex sum -/

/-- the model's windowed DFT of the detrended segment as a complex sum, every order -/
theorem segDFT_detr_toC (order : ℤ) (Q : ℕ → ℕ → ℝ) (x : ℕ → ℝ) (s L : ℕ) (w : ℕ → ℝ) (ω : ℝ) :
    Cx.toC (Model.segDFT order Q x s L w ω)
      = ∑ n ∈ range L, ((w n : ℂ) * Complex.exp (-(ω * (n : ℝ) * Complex.I)))
          * ((Model.detr order Q x s L n : ℝ) : ℂ) := by
  apply Complex.ext
  · rw [Complex.re_sum]
    simp only [Cx.toC_re, Model.segDFT, sumRange_eq_sum, RL.cos_eq, RL.ofNat_eq]
    refine Finset.sum_congr rfl (fun n _ => ?_)
    rw [Complex.re_mul_ofReal, Complex.re_ofReal_mul, Complex.ofReal_natCast, exp_neg_mul_I_re]
    ring
  · rw [Complex.im_sum]
    simp only [Cx.toC_im, Model.segDFT, sumRange_eq_sum, RL.sin_eq, RL.ofNat_eq, RL.zero_eq]
    rw [zero_sub, ← Finset.sum_neg_distrib]
    refine Finset.sum_congr rfl (fun n _ => ?_)
    rw [Complex.im_mul_ofReal, Complex.im_ofReal_mul, Complex.ofReal_natCast, exp_neg_mul_I_im]
    ring

/-- symmetric-projection step (pure algebra, no orthogonality):
    Σ_n e_n (x_n − Σ_k q n k Σ_m q m k x_m) = Σ_n (e_n − Σ_k q n k Σ_m q m k e_m) x_n -/
theorem proj_swap (L p : ℕ) (q : ℕ → ℕ → ℂ) (e x : ℕ → ℂ) :
    (∑ n ∈ range L, e n * (x n - ∑ k ∈ range p, q n k * ∑ m ∈ range L, q m k * x m))
      = ∑ n ∈ range L, (e n - ∑ k ∈ range p, q n k * ∑ m ∈ range L, q m k * e m) * x n := by
  simp only [mul_sub, sub_mul, Finset.sum_sub_distrib]
  congr 1
  have hl : (∑ n ∈ range L, e n * ∑ k ∈ range p, q n k * ∑ m ∈ range L, q m k * x m)
      = ∑ k ∈ range p, (∑ m ∈ range L, q m k * e m) * ∑ m ∈ range L, q m k * x m := by
    simp only [Finset.mul_sum (s := range p)]
    rw [Finset.sum_comm]
    refine Finset.sum_congr rfl (fun k _ => ?_)
    rw [Finset.sum_mul]
    exact Finset.sum_congr rfl (fun n _ => by ring)
  have hr : (∑ n ∈ range L, (∑ k ∈ range p, q n k * ∑ m ∈ range L, q m k * e m) * x n)
      = ∑ k ∈ range p, (∑ m ∈ range L, q m k * e m) * ∑ m ∈ range L, q m k * x m := by
    simp only [Finset.sum_mul (s := range p)]
    rw [Finset.sum_comm]
    refine Finset.sum_congr rfl (fun k _ => ?_)
    rw [Finset.mul_sum]
    exact Finset.sum_congr rfl (fun n _ => by ring)
  rw [hl, hr]

/-- mean-removal step: Σ_n e_n (x_n − (Σ_m x_m)/L) = Σ_n (e_n − (Σ_m e_m)/L) x_n -/
theorem mean_swap (L : ℕ) (e x : ℕ → ℂ) :
    (∑ n ∈ range L, e n * (x n - (∑ m ∈ range L, x m) / L))
      = ∑ n ∈ range L, (e n - (∑ m ∈ range L, e m) / L) * x n := by
  simp only [mul_sub, sub_mul, Finset.sum_sub_distrib]
  congr 1
  rw [← Finset.sum_mul, ← Finset.mul_sum]
  ring

theorem segDFT_effWin (order : ℤ) (Q : ℕ → ℕ → ℝ) (x : ℕ → ℝ) (s L : ℕ) (w : ℕ → ℝ) (ω : ℝ) :
    Cx.toC (Model.segDFT order Q x s L w ω) = ∑ n ∈ Finset.range L, effWin order Q L w ω n * (x (s + n) : ℂ) := by
  rw [segDFT_detr_toC]
  by_cases h1 : order = -1
  · subst h1
    simp only [effWin, if_true, detr_neg_one]
  by_cases h0 : order = 0
  · subst h0
    simp only [effWin, h1, if_false, if_true, detr0_eq]
    rw [← mean_swap]
    refine Finset.sum_congr rfl (fun n _ => ?_)
    push_cast
    rfl
  · simp only [effWin, h1, h0, if_false, detr_gen_eq order h1 h0]
    rw [← proj_swap]
    refine Finset.sum_congr rfl (fun n _ => ?_)
    push_cast
    rfl

/-! ### the delay identity for an arbitrary complex window -/

/-- the delay identity for ANY complex window u (d ≤ L) -/
theorem delay_decomposition_eff (u : ℕ → ℂ) (x : ℕ → ℝ) (d s L : ℕ) (hdL : d ≤ L) (ω : ℝ) :
    (∑ n ∈ Finset.range L, u n * (x (s + n - d) : ℂ))
      - Complex.exp (-(ω * d * Complex.I)) * ∑ n ∈ Finset.range L, u n * (x (s + n) : ℂ)
    = (∑ m ∈ Finset.range (L - d), (u (m + d) - Complex.exp (-(ω * d * Complex.I)) * u m) * (x (s + m) : ℂ))
      + (∑ n ∈ Finset.range d, u n * (x (s + n - d) : ℂ))
      - Complex.exp (-(ω * d * Complex.I)) * ∑ m ∈ Finset.Ico (L - d) L, u m * (x (s + m) : ℂ) := by
  -- the Y-sum: split off the first d terms, reindex the rest by n = d + m
  have hY : (∑ n ∈ range L, u n * (x (s + n - d) : ℂ))
      = (∑ n ∈ range d, u n * (x (s + n - d) : ℂ))
        + ∑ m ∈ range (L - d), u (m + d) * (x (s + m) : ℂ) := by
    have hL : L = d + (L - d) := by omega
    conv_lhs => rw [hL]
    rw [Finset.sum_range_add]
    congr 1
    refine Finset.sum_congr rfl (fun m _ => ?_)
    have h1 : s + (d + m) - d = s + m := by omega
    rw [h1, Nat.add_comm d m]
  -- the X-sum: split at L − d
  have hX : (∑ n ∈ range L, u n * (x (s + n) : ℂ))
      = (∑ m ∈ range (L - d), u m * (x (s + m) : ℂ))
        + ∑ m ∈ Ico (L - d) L, u m * (x (s + m) : ℂ) :=
    (Finset.sum_range_add_sum_Ico _ (Nat.sub_le L d)).symm
  have hD : (∑ m ∈ range (L - d), (u (m + d) - Complex.exp (-(ω * d * Complex.I)) * u m) * (x (s + m) : ℂ))
      = (∑ m ∈ range (L - d), u (m + d) * (x (s + m) : ℂ))
        - Complex.exp (-(ω * d * Complex.I)) * ∑ m ∈ range (L - d), u m * (x (s + m) : ℂ) := by
    rw [Finset.mul_sum, ← Finset.sum_sub_distrib]
    exact Finset.sum_congr rfl (fun m _ => by ring)
  rw [hY, hX, hD]
  ring

/-- `‖u · x‖ ≤ B ‖u‖` for a real sample bounded by B -/
theorem norm_mul_ofReal_le (u : ℂ) (r B : ℝ) (h : |r| ≤ B) : ‖u * (r : ℂ)‖ ≤ B * ‖u‖ := by
  rw [norm_mul, Complex.norm_real, Real.norm_eq_abs, mul_comm]
  exact mul_le_mul_of_nonneg_right h (norm_nonneg u)

theorem delay_bound_eff (u : ℕ → ℂ) (x : ℕ → ℝ) (d s L : ℕ) (hdL : d ≤ L) (ω : ℝ) (B : ℝ) (hB : ∀ n, |x n| ≤ B) :
    ‖(∑ n ∈ Finset.range L, u n * (x (s + n - d) : ℂ))
      - Complex.exp (-(ω * d * Complex.I)) * ∑ n ∈ Finset.range L, u n * (x (s + n) : ℂ)‖
    ≤ B * ((∑ m ∈ Finset.range (L - d), ‖u (m + d) - Complex.exp (-(ω * d * Complex.I)) * u m‖)
          + (∑ n ∈ Finset.range d, ‖u n‖) + (∑ m ∈ Finset.Ico (L - d) L, ‖u m‖)) := by
  rw [delay_decomposition_eff u x d s L hdL ω]
  have h1 : ‖∑ m ∈ range (L - d), (u (m + d) - Complex.exp (-(ω * d * Complex.I)) * u m) * (x (s + m) : ℂ)‖
      ≤ B * ∑ m ∈ range (L - d), ‖u (m + d) - Complex.exp (-(ω * d * Complex.I)) * u m‖ := by
    rw [Finset.mul_sum]
    exact (norm_sum_le _ _).trans (Finset.sum_le_sum (fun m _ => norm_mul_ofReal_le _ _ _ (hB _)))
  have h2 : ‖∑ n ∈ range d, u n * (x (s + n - d) : ℂ)‖ ≤ B * ∑ n ∈ range d, ‖u n‖ := by
    rw [Finset.mul_sum]
    exact (norm_sum_le _ _).trans (Finset.sum_le_sum (fun m _ => norm_mul_ofReal_le _ _ _ (hB _)))
  have h3 : ‖Complex.exp (-(ω * d * Complex.I)) * ∑ m ∈ Ico (L - d) L, u m * (x (s + m) : ℂ)‖
      ≤ B * ∑ m ∈ Ico (L - d) L, ‖u m‖ := by
    rw [norm_mul, norm_exp_neg_mul_nat_I, one_mul, Finset.mul_sum]
    exact (norm_sum_le _ _).trans (Finset.sum_le_sum (fun m _ => norm_mul_ofReal_le _ _ _ (hB _)))
  calc _ ≤ _ := norm_sub_le _ _
    _ ≤ _ := add_le_add_left (norm_add_le _ _) _
    _ ≤ B * (∑ m ∈ range (L - d), ‖u (m + d) - Complex.exp (-(ω * d * Complex.I)) * u m‖)
          + B * (∑ n ∈ range d, ‖u n‖) + B * (∑ m ∈ Ico (L - d) L, ‖u m‖) :=
        add_le_add (add_le_add h1 h2) h3
    _ = _ := by ring

/-- the delayed channel vs the phase-rotated undelayed one, any detrending order
    (`hds : d ≤ s` is kept for the stated interface; as in `delay_decomposition` the head term uses the same
    truncated subtraction `s + n − d` as the model input, so the proof does not need it) -/
theorem delay_bound_any_order (order : ℤ) (Q : ℕ → ℕ → ℝ) (x : ℕ → ℝ) (d s L : ℕ) (hds : d ≤ s) (hdL : d ≤ L)
    (w : ℕ → ℝ) (ω : ℝ) (B : ℝ) (hB : ∀ n, |x n| ≤ B) :
    let u := effWin order Q L w ω
    ‖Cx.toC (Model.segDFT order Q (fun n => x (n - d)) s L w ω)
        - Complex.exp (-(ω * d * Complex.I)) * Cx.toC (Model.segDFT order Q x s L w ω)‖
      ≤ B * ((∑ m ∈ Finset.range (L - d), ‖u (m + d) - Complex.exp (-(ω * d * Complex.I)) * u m‖)
            + (∑ n ∈ Finset.range d, ‖u n‖) + (∑ m ∈ Finset.Ico (L - d) L, ‖u m‖)) := by
  intro u
  rw [segDFT_effWin, segDFT_effWin]
  exact delay_bound_eff u x d s L hdL ω B hB

/-! ### the oracle's arrangement: one coefficient vector of length L + d -/

/-- the coefficient vector of `vk/props/C07.py: delay_coeffs`:
    `c[:L] += u ; c[d:] -= e^{−iωd}·u`  (length L + d) -/
noncomputable def delayCoeffs (u : ℕ → ℂ) (ω : ℝ) (d L : ℕ) (k : ℕ) : ℂ :=
  (if k < L then u k else 0) - (if d ≤ k then Complex.exp (-(ω * d * Complex.I)) * u (k - d) else 0)

/-- single-sum form of the delay identity (d ≤ s; NO restriction d ≤ L):
    Y − e^{−iωd} X = Σ_{k<L+d} c_k · x(s − d + k) -/
theorem delay_coeffs_identity (u : ℕ → ℂ) (x : ℕ → ℝ) (d s L : ℕ) (hds : d ≤ s) (ω : ℝ) :
    (∑ n ∈ range L, u n * (x (s + n - d) : ℂ))
      - Complex.exp (-(ω * d * Complex.I)) * ∑ n ∈ range L, u n * (x (s + n) : ℂ)
    = ∑ k ∈ range (L + d), delayCoeffs u ω d L k * (x (s - d + k) : ℂ) := by
  simp only [delayCoeffs, sub_mul, Finset.sum_sub_distrib]
  congr 1
  · rw [Finset.sum_range_add]
    have hz : (∑ k ∈ range d, (if L + k < L then u (L + k) else 0) * (x (s - d + (L + k)) : ℂ)) = 0 := by
      refine Finset.sum_eq_zero (fun k _ => ?_)
      rw [if_neg (by omega), zero_mul]
    rw [hz, add_zero]
    refine Finset.sum_congr rfl (fun n hn => ?_)
    have h1 : s + n - d = s - d + n := by omega
    rw [if_pos (Finset.mem_range.mp hn), h1]
  · rw [Nat.add_comm L d, Finset.sum_range_add]
    have hz : (∑ k ∈ range d, (if d ≤ k then Complex.exp (-(ω * d * Complex.I)) * u (k - d) else 0)
        * (x (s - d + k) : ℂ)) = 0 := by
      refine Finset.sum_eq_zero (fun k hk => ?_)
      have := Finset.mem_range.mp hk
      rw [if_neg (by omega), zero_mul]
    rw [hz, zero_add, Finset.mul_sum]
    refine Finset.sum_congr rfl (fun m _ => ?_)
    have h1 : s - d + (d + m) = s + m := by omega
    have h2 : d + m - d = m := by omega
    rw [if_pos (by omega), h1, h2]
    ring

/-- the ℓ1 norm of the oracle's coefficient vector is the three-sum expression of `delay_bound_eff`
    (the tail carries `‖e^{−iωd} u m‖ = ‖u m‖`) -/
theorem delayCoeffs_l1 (u : ℕ → ℂ) (ω : ℝ) (d L : ℕ) (hdL : d ≤ L) :
    (∑ k ∈ range (L + d), ‖delayCoeffs u ω d L k‖)
      = (∑ m ∈ range (L - d), ‖u (m + d) - Complex.exp (-(ω * d * Complex.I)) * u m‖)
          + (∑ n ∈ range d, ‖u n‖) + (∑ m ∈ Ico (L - d) L, ‖u m‖) := by
  have hLd : L + d = d + (L - d) + d := by omega
  rw [hLd, Finset.sum_range_add, Finset.sum_range_add]
  have hA : (∑ k ∈ range d, ‖delayCoeffs u ω d L k‖) = ∑ n ∈ range d, ‖u n‖ := by
    refine Finset.sum_congr rfl (fun k hk => ?_)
    have := Finset.mem_range.mp hk
    rw [delayCoeffs, if_pos (by omega), if_neg (by omega), sub_zero]
  have hB : (∑ m ∈ range (L - d), ‖delayCoeffs u ω d L (d + m)‖)
      = ∑ m ∈ range (L - d), ‖u (m + d) - Complex.exp (-(ω * d * Complex.I)) * u m‖ := by
    refine Finset.sum_congr rfl (fun m hm => ?_)
    have := Finset.mem_range.mp hm
    have h2 : d + m - d = m := by omega
    rw [delayCoeffs, if_pos (by omega), if_pos (by omega), h2, Nat.add_comm d m]
  have hC : (∑ j ∈ range d, ‖delayCoeffs u ω d L (d + (L - d) + j)‖) = ∑ m ∈ Ico (L - d) L, ‖u m‖ := by
    rw [Finset.sum_Ico_eq_sum_range]
    have hd : L - (L - d) = d := by omega
    rw [hd]
    refine Finset.sum_congr rfl (fun j _ => ?_)
    have h2 : d + (L - d) + j - d = L - d + j := by omega
    rw [delayCoeffs, if_neg (by omega), if_pos (by omega), h2, zero_sub, norm_neg, norm_mul,
      norm_exp_neg_mul_nat_I, one_mul]
  rw [hA, hB, hC]
  ring

/-- Hölder-∞ bound in the oracle's arrangement (`E1 = Σ|c|`), no restriction d ≤ L -/
theorem delay_bound_coeffs_l1 (u : ℕ → ℂ) (x : ℕ → ℝ) (d s L : ℕ) (hds : d ≤ s) (ω : ℝ) (B : ℝ)
    (hB : ∀ k < L + d, |x (s - d + k)| ≤ B) :
    ‖(∑ n ∈ range L, u n * (x (s + n - d) : ℂ))
      - Complex.exp (-(ω * d * Complex.I)) * ∑ n ∈ range L, u n * (x (s + n) : ℂ)‖
    ≤ B * ∑ k ∈ range (L + d), ‖delayCoeffs u ω d L k‖ := by
  rw [delay_coeffs_identity u x d s L hds ω, Finset.mul_sum]
  exact (norm_sum_le _ _).trans (Finset.sum_le_sum (fun k hk =>
    norm_mul_ofReal_le _ _ _ (hB k (Finset.mem_range.mp hk))))

/-- Hölder-2 (Cauchy–Schwarz) bound in the oracle's arrangement (`E2 = ‖c‖₂`):
    ‖Y − e^{−iωd}X‖ ≤ sqrt(Σ‖c_k‖²) · sqrt(Σ x(s−d+k)²) -/
theorem delay_bound_coeffs_l2 (u : ℕ → ℂ) (x : ℕ → ℝ) (d s L : ℕ) (hds : d ≤ s) (ω : ℝ) :
    ‖(∑ n ∈ range L, u n * (x (s + n - d) : ℂ))
      - Complex.exp (-(ω * d * Complex.I)) * ∑ n ∈ range L, u n * (x (s + n) : ℂ)‖
    ≤ Real.sqrt (∑ k ∈ range (L + d), ‖delayCoeffs u ω d L k‖ ^ 2)
        * Real.sqrt (∑ k ∈ range (L + d), x (s - d + k) ^ 2) := by
  rw [delay_coeffs_identity u x d s L hds ω]
  have h1 : ‖∑ k ∈ range (L + d), delayCoeffs u ω d L k * (x (s - d + k) : ℂ)‖
      ≤ ∑ k ∈ range (L + d), ‖delayCoeffs u ω d L k‖ * |x (s - d + k)| := by
    refine (norm_sum_le _ _).trans_eq (Finset.sum_congr rfl (fun k _ => ?_))
    rw [norm_mul, Complex.norm_real, Real.norm_eq_abs]
  have h2 := Real.sum_mul_le_sqrt_mul_sqrt (range (L + d))
    (fun k => ‖delayCoeffs u ω d L k‖) (fun k => |x (s - d + k)|)
  simp only [sq_abs] at h2
  exact h1.trans h2

/-- both Hölder bounds for the model's detrended DFT, any order, in the oracle's arrangement -/
theorem delay_bound_any_order_l1 (order : ℤ) (Q : ℕ → ℕ → ℝ) (x : ℕ → ℝ) (d s L : ℕ) (hds : d ≤ s)
    (w : ℕ → ℝ) (ω : ℝ) (B : ℝ) (hB : ∀ k < L + d, |x (s - d + k)| ≤ B) :
    ‖Cx.toC (Model.segDFT order Q (fun n => x (n - d)) s L w ω)
        - Complex.exp (-(ω * d * Complex.I)) * Cx.toC (Model.segDFT order Q x s L w ω)‖
      ≤ B * ∑ k ∈ range (L + d), ‖delayCoeffs (effWin order Q L w ω) ω d L k‖ := by
  rw [segDFT_effWin, segDFT_effWin]
  exact delay_bound_coeffs_l1 _ x d s L hds ω B hB

theorem delay_bound_any_order_l2 (order : ℤ) (Q : ℕ → ℕ → ℝ) (x : ℕ → ℝ) (d s L : ℕ) (hds : d ≤ s)
    (w : ℕ → ℝ) (ω : ℝ) :
    ‖Cx.toC (Model.segDFT order Q (fun n => x (n - d)) s L w ω)
        - Complex.exp (-(ω * d * Complex.I)) * Cx.toC (Model.segDFT order Q x s L w ω)‖
      ≤ Real.sqrt (∑ k ∈ range (L + d), ‖delayCoeffs (effWin order Q L w ω) ω d L k‖ ^ 2)
          * Real.sqrt (∑ k ∈ range (L + d), x (s - d + k) ^ 2) := by
  rw [segDFT_effWin, segDFT_effWin]
  exact delay_bound_coeffs_l2 _ x d s L hds ω

#print axioms segDFT_effWin
#print axioms delay_decomposition_eff
#print axioms delay_bound_eff
#print axioms delay_bound_any_order
#print axioms delay_coeffs_identity
#print axioms delayCoeffs_l1
#print axioms delay_bound_coeffs_l1
#print axioms delay_bound_coeffs_l2
#print axioms delay_bound_any_order_l1
#print axioms delay_bound_any_order_l2
