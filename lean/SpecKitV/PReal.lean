/-
  SpecKitV.PReal — the STRICT partial reading of the numeric interface.

  `PReal := Option ℝ`; `none` stands for "not a finite number" (IEEE NaN / ±Inf).
  Division by zero, `sqrt` of a negative number, `log`/`log10` of a non-positive number,
  `arcsin` outside [-1, 1] and `pow` of a negative base give `none`; `none` propagates through
  every operation; comparisons involving `none` are `false` (so `bne` is `true`, as IEEE `!=`).

  At the total instance `ℝ` (`SpecKitV.RealInst`, where `x / 0 = 0`) a claim "the result is finite"
  is vacuous; at this instance it is exactly "no guarded operation left its domain".
-/
import SpecKitV.RealInst
import SpecKitV.Gen.Attrs

/-- partial reals: `none` = NaN / ±Inf -/
abbrev PReal := Option ℝ

namespace PReal

/-- embedding of the finite numbers -/
def ofReal (r : ℝ) : PReal := some r

/-- strict lifting of a total unary operation -/
def map1 (f : ℝ → ℝ) : PReal → PReal
  | some a => some (f a)
  | none => none

/-- strict lifting of a total binary operation -/
def map2 (f : ℝ → ℝ → ℝ) : PReal → PReal → PReal
  | some a, some b => some (f a b)
  | _, _ => none

/-- strict lifting of a unary operation defined only where `dom` holds -/
noncomputable def part1 (dom : ℝ → Prop) [DecidablePred dom] (f : ℝ → ℝ) : PReal → PReal
  | some a => if dom a then some (f a) else none
  | none => none

noncomputable def div : PReal → PReal → PReal
  | some a, some b => if b = 0 then none else some (a / b)
  | _, _ => none

noncomputable def pow : PReal → PReal → PReal
  | some a, some b => if a < 0 then none else some (a ^ b)
  | _, _ => none

/-- comparisons: `false` as soon as one side is not a number -/
def cmp (r : ℝ → ℝ → Bool) : PReal → PReal → Bool
  | some a, some b => r a b
  | _, _ => false

def toInt (f : ℝ → Int) : PReal → Int
  | some a => f a
  | none => 0

end PReal

noncomputable instance instRealLikePReal : RealLike PReal where
  add := PReal.map2 (· + ·)
  sub := PReal.map2 (· - ·)
  mul := PReal.map2 (· * ·)
  div := PReal.div
  neg := PReal.map1 (fun a => -a)
  ofNat n := some (RealLike.ofNat n : ℝ)
  ofInt z := some (RealLike.ofInt z : ℝ)
  ofSci m s e := some (RealLike.ofSci m s e : ℝ)
  lt := PReal.cmp (fun a b => decide (a < b))
  le := PReal.cmp (fun a b => decide (a ≤ b))
  beq := PReal.cmp (fun a b => decide (a = b))
  floor := PReal.toInt (RealLike.floor (α := ℝ))
  ceil := PReal.toInt (RealLike.ceil (α := ℝ))
  roundEven := PReal.toInt (RealLike.roundEven (α := ℝ))
  trunc := PReal.toInt (RealLike.trunc (α := ℝ))
  sqrt := PReal.part1 (fun a => 0 ≤ a) Real.sqrt
  exp := PReal.map1 Real.exp
  log := PReal.part1 (fun a => 0 < a) Real.log
  log10 := PReal.part1 (fun a => 0 < a) (Real.logb 10)
  sin := PReal.map1 Real.sin
  cos := PReal.map1 Real.cos
  arcsin := PReal.part1 (fun a => |a| ≤ 1) Real.arcsin
  atan2 := PReal.map2 (fun y x => Complex.arg ⟨x, y⟩)
  abs := PReal.map1 (fun a => |a|)
  pow := PReal.pow
  pi := some Real.pi

namespace PReal

/-! ### the operations on finite inputs (simp normal forms) -/

@[simp] theorem add_some (a b : ℝ) : (some a + some b : PReal) = some (a + b) := rfl
@[simp] theorem sub_some (a b : ℝ) : (some a - some b : PReal) = some (a - b) := rfl
@[simp] theorem mul_some (a b : ℝ) : (some a * some b : PReal) = some (a * b) := rfl
@[simp] theorem neg_some (a : ℝ) : (-(some a) : PReal) = some (-a) := rfl
theorem div_some (a b : ℝ) : (some a / some b : PReal) = if b = 0 then none else some (a / b) := rfl
@[simp] theorem div_some_of_ne (a : ℝ) {b : ℝ} (h : b ≠ 0) : (some a / some b : PReal) = some (a / b) := by
  rw [div_some, if_neg h]
@[simp] theorem div_some_zero (a : ℝ) : (some a / some 0 : PReal) = none := by
  rw [div_some, if_pos rfl]

@[simp] theorem ofNat_eq (n : ℕ) : (RealLike.ofNat n : PReal) = some (n : ℝ) := rfl
@[simp] theorem ofInt_eq (z : ℤ) : (RealLike.ofInt z : PReal) = some (z : ℝ) := rfl
@[simp] theorem ofSci_eq (m : ℕ) (s : Bool) (e : ℕ) :
    (RealLike.ofSci m s e : PReal) = some (if s then (m : ℝ) / 10 ^ e else (m : ℝ) * 10 ^ e) := rfl
@[simp] theorem zero_eq : (RealLike.zero : PReal) = some 0 := by simp [RealLike.zero]
@[simp] theorem one_eq : (RealLike.one : PReal) = some 1 := by simp [RealLike.one]
@[simp] theorem two_eq : (RealLike.two : PReal) = some 2 := by simp [RealLike.two]
@[simp] theorem pi_eq : (RealLike.pi : PReal) = some Real.pi := rfl

@[simp] theorem lt_some (a b : ℝ) : RealLike.lt (some a : PReal) (some b) = decide (a < b) := rfl
@[simp] theorem le_some (a b : ℝ) : RealLike.le (some a : PReal) (some b) = decide (a ≤ b) := rfl
@[simp] theorem beq_some (a b : ℝ) : RealLike.beq (some a : PReal) (some b) = decide (a = b) := rfl
@[simp] theorem gt_some (a b : ℝ) : RealLike.gt (some a : PReal) (some b) = decide (b < a) := rfl
@[simp] theorem ge_some (a b : ℝ) : RealLike.ge (some a : PReal) (some b) = decide (b ≤ a) := rfl
@[simp] theorem bne_some (a b : ℝ) : RealLike.bne (some a : PReal) (some b) = !decide (a = b) := rfl

theorem sqrt_some (a : ℝ) : RealLike.sqrt (some a : PReal) = if 0 ≤ a then some (Real.sqrt a) else none := rfl
@[simp] theorem sqrt_some_of_nonneg {a : ℝ} (h : 0 ≤ a) : RealLike.sqrt (some a : PReal) = some (Real.sqrt a) := by
  rw [sqrt_some, if_pos h]
@[simp] theorem sqrt_some_of_neg {a : ℝ} (h : a < 0) : RealLike.sqrt (some a : PReal) = none := by
  rw [sqrt_some, if_neg (not_le.mpr h)]
theorem log_some (a : ℝ) : RealLike.log (some a : PReal) = if 0 < a then some (Real.log a) else none := rfl
@[simp] theorem log_some_of_pos {a : ℝ} (h : 0 < a) : RealLike.log (some a : PReal) = some (Real.log a) := by
  rw [log_some, if_pos h]
@[simp] theorem log_some_of_nonpos {a : ℝ} (h : a ≤ 0) : RealLike.log (some a : PReal) = none := by
  rw [log_some, if_neg (not_lt.mpr h)]
theorem log10_some (a : ℝ) :
    RealLike.log10 (some a : PReal) = if 0 < a then some (Real.logb 10 a) else none := rfl
@[simp] theorem log10_some_of_pos {a : ℝ} (h : 0 < a) :
    RealLike.log10 (some a : PReal) = some (Real.logb 10 a) := by
  rw [log10_some, if_pos h]
@[simp] theorem log10_some_of_nonpos {a : ℝ} (h : a ≤ 0) : RealLike.log10 (some a : PReal) = none := by
  rw [log10_some, if_neg (not_lt.mpr h)]
theorem arcsin_some (a : ℝ) :
    RealLike.arcsin (some a : PReal) = if |a| ≤ 1 then some (Real.arcsin a) else none := rfl
@[simp] theorem arcsin_some_of_abs_le {a : ℝ} (h : |a| ≤ 1) :
    RealLike.arcsin (some a : PReal) = some (Real.arcsin a) := by
  rw [arcsin_some, if_pos h]
@[simp] theorem arcsin_some_of_one_lt {a : ℝ} (h : 1 < |a|) : RealLike.arcsin (some a : PReal) = none := by
  rw [arcsin_some, if_neg (not_le.mpr h)]
@[simp] theorem exp_some (a : ℝ) : RealLike.exp (some a : PReal) = some (Real.exp a) := rfl
@[simp] theorem sin_some (a : ℝ) : RealLike.sin (some a : PReal) = some (Real.sin a) := rfl
@[simp] theorem cos_some (a : ℝ) : RealLike.cos (some a : PReal) = some (Real.cos a) := rfl
@[simp] theorem abs_some (a : ℝ) : RealLike.abs (some a : PReal) = some |a| := rfl
@[simp] theorem atan2_some (y x : ℝ) :
    RealLike.atan2 (some y : PReal) (some x) = some (Complex.arg ⟨x, y⟩) := rfl
theorem pow_some (a b : ℝ) : RealLike.pow (some a : PReal) (some b) = if a < 0 then none else some (a ^ b) := rfl
@[simp] theorem pow_some_of_nonneg {a : ℝ} (h : 0 ≤ a) (b : ℝ) :
    RealLike.pow (some a : PReal) (some b) = some (a ^ b) := by
  rw [pow_some, if_neg (not_lt.mpr h)]
@[simp] theorem pow_some_of_neg {a : ℝ} (h : a < 0) (b : ℝ) :
    RealLike.pow (some a : PReal) (some b) = none := by
  rw [pow_some, if_pos h]
@[simp] theorem floor_some (a : ℝ) : RealLike.floor (some a : PReal) = ⌊a⌋ := rfl
@[simp] theorem ceil_some (a : ℝ) : RealLike.ceil (some a : PReal) = ⌈a⌉ := rfl

/-! ### propagation of `none` -/

@[simp] theorem none_add (b : PReal) : (none + b : PReal) = none := rfl
@[simp] theorem add_none (a : PReal) : (a + none : PReal) = none := by cases a <;> rfl
@[simp] theorem none_sub (b : PReal) : (none - b : PReal) = none := rfl
@[simp] theorem sub_none (a : PReal) : (a - none : PReal) = none := by cases a <;> rfl
@[simp] theorem none_mul (b : PReal) : (none * b : PReal) = none := rfl
@[simp] theorem mul_none (a : PReal) : (a * none : PReal) = none := by cases a <;> rfl
@[simp] theorem none_div (b : PReal) : (none / b : PReal) = none := rfl
@[simp] theorem div_none (a : PReal) : (a / none : PReal) = none := by cases a <;> rfl
@[simp] theorem neg_none : (-(none) : PReal) = none := rfl
@[simp] theorem sqrt_none : RealLike.sqrt (none : PReal) = none := rfl
@[simp] theorem exp_none : RealLike.exp (none : PReal) = none := rfl
@[simp] theorem log_none : RealLike.log (none : PReal) = none := rfl
@[simp] theorem log10_none : RealLike.log10 (none : PReal) = none := rfl
@[simp] theorem sin_none : RealLike.sin (none : PReal) = none := rfl
@[simp] theorem cos_none : RealLike.cos (none : PReal) = none := rfl
@[simp] theorem arcsin_none : RealLike.arcsin (none : PReal) = none := rfl
@[simp] theorem abs_none : RealLike.abs (none : PReal) = none := rfl
@[simp] theorem none_atan2 (x : PReal) : RealLike.atan2 (none : PReal) x = none := rfl
@[simp] theorem atan2_none (y : PReal) : RealLike.atan2 y (none : PReal) = none := by cases y <;> rfl
@[simp] theorem none_pow (b : PReal) : RealLike.pow (none : PReal) b = none := rfl
@[simp] theorem pow_none (a : PReal) : RealLike.pow a (none : PReal) = none := by cases a <;> rfl
@[simp] theorem none_lt (b : PReal) : RealLike.lt (none : PReal) b = false := rfl
@[simp] theorem lt_none (a : PReal) : RealLike.lt a (none : PReal) = false := by cases a <;> rfl
@[simp] theorem none_le (b : PReal) : RealLike.le (none : PReal) b = false := rfl
@[simp] theorem le_none (a : PReal) : RealLike.le a (none : PReal) = false := by cases a <;> rfl
@[simp] theorem none_beq (b : PReal) : RealLike.beq (none : PReal) b = false := rfl
@[simp] theorem beq_none (a : PReal) : RealLike.beq a (none : PReal) = false := by cases a <;> rfl
@[simp] theorem none_bne (b : PReal) : RealLike.bne (none : PReal) b = true := rfl
@[simp] theorem bne_none (a : PReal) : RealLike.bne a (none : PReal) = true := by cases a <;> rfl
@[simp] theorem floor_none : RealLike.floor (none : PReal) = 0 := rfl
@[simp] theorem ceil_none : RealLike.ceil (none : PReal) = 0 := rfl
@[simp] theorem roundEven_none : RealLike.roundEven (none : PReal) = 0 := rfl
@[simp] theorem trunc_none : RealLike.trunc (none : PReal) = 0 := rfl

/-! ### finiteness -/

/-- `x` is a finite number -/
def Fin (x : PReal) : Prop := x ≠ none

/-- both parts of a complex pair are finite -/
def CFin (z : Cx PReal) : Prop := Fin z.re ∧ Fin z.im

@[simp] theorem fin_some (r : ℝ) : Fin (some r) := by simp [Fin]
@[simp] theorem fin_ofReal (r : ℝ) : Fin (ofReal r) := fin_some r
@[simp] theorem not_fin_none : ¬ Fin none := by simp [Fin]
theorem fin_iff {x : PReal} : Fin x ↔ ∃ r, x = some r := by
  cases x <;> simp [Fin]

theorem fin_add {a b : PReal} : Fin (a + b) ↔ Fin a ∧ Fin b := by
  cases a <;> cases b <;> simp
theorem fin_sub {a b : PReal} : Fin (a - b) ↔ Fin a ∧ Fin b := by
  cases a <;> cases b <;> simp
theorem fin_mul {a b : PReal} : Fin (a * b) ↔ Fin a ∧ Fin b := by
  cases a <;> cases b <;> simp
theorem fin_neg {a : PReal} : Fin (-a) ↔ Fin a := by
  cases a <;> simp
theorem fin_div {a b : PReal} : Fin (a / b) ↔ Fin a ∧ Fin b ∧ b ≠ some 0 := by
  rcases a with _ | a <;> rcases b with _ | b <;> simp
  by_cases h : b = 0
  · subst h; simp
  · simp [h]
theorem fin_sqrt {a : PReal} : Fin (RealLike.sqrt a) ↔ ∃ r : ℝ, 0 ≤ r ∧ a = some r := by
  rcases a with _ | a
  · simp
  · by_cases h : 0 ≤ a
    · simp [h]
    · simp [sqrt_some_of_neg (not_le.mp h), h]
theorem fin_log {a : PReal} : Fin (RealLike.log a) ↔ ∃ r : ℝ, 0 < r ∧ a = some r := by
  rcases a with _ | a
  · simp
  · by_cases h : 0 < a
    · simp [h]
    · simp [log_some_of_nonpos (not_lt.mp h), h]
theorem fin_log10 {a : PReal} : Fin (RealLike.log10 a) ↔ ∃ r : ℝ, 0 < r ∧ a = some r := by
  rcases a with _ | a
  · simp
  · by_cases h : 0 < a
    · simp [h]
    · simp [log10_some_of_nonpos (not_lt.mp h), h]
theorem fin_arcsin {a : PReal} : Fin (RealLike.arcsin a) ↔ ∃ r : ℝ, |r| ≤ 1 ∧ a = some r := by
  rcases a with _ | a
  · simp
  · by_cases h : |a| ≤ 1
    · simp [h]
    · simp [arcsin_some_of_one_lt (not_le.mp h), h]
theorem fin_abs {a : PReal} : Fin (RealLike.abs a) ↔ Fin a := by cases a <;> simp
theorem fin_exp {a : PReal} : Fin (RealLike.exp a) ↔ Fin a := by cases a <;> simp
theorem fin_sin {a : PReal} : Fin (RealLike.sin a) ↔ Fin a := by cases a <;> simp
theorem fin_cos {a : PReal} : Fin (RealLike.cos a) ↔ Fin a := by cases a <;> simp
theorem fin_atan2 {y x : PReal} : Fin (RealLike.atan2 y x) ↔ Fin y ∧ Fin x := by
  cases y <;> cases x <;> simp
theorem fin_pow {a b : PReal} : Fin (RealLike.pow a b) ↔ (∃ r : ℝ, 0 ≤ r ∧ a = some r) ∧ Fin b := by
  rcases a with _ | a <;> rcases b with _ | b <;> simp
  by_cases h : 0 ≤ a
  · simp [h]
  · simp [pow_some_of_neg (not_le.mp h), h]
theorem fin_ofNat (n : ℕ) : Fin (RealLike.ofNat n) := by simp
theorem fin_ofInt (z : ℤ) : Fin (RealLike.ofInt z) := by simp
theorem fin_ofSci (m : ℕ) (s : Bool) (e : ℕ) : Fin (RealLike.ofSci m s e) := by simp
theorem fin_pi : Fin (RealLike.pi : PReal) := by simp

/-! ### complex pairs -/

/-- embedding of a finite complex pair -/
def cx (z : Cx ℝ) : Cx PReal := ⟨some z.re, some z.im⟩

@[simp] theorem cx_re (z : Cx ℝ) : (cx z).re = some z.re := rfl
@[simp] theorem cx_im (z : Cx ℝ) : (cx z).im = some z.im := rfl
@[simp] theorem cfin_cx (z : Cx ℝ) : CFin (cx z) := ⟨fin_some _, fin_some _⟩
theorem cfin_iff {z : Cx PReal} : CFin z ↔ ∃ w : Cx ℝ, z = cx w := by
  rcases z with ⟨re, im⟩
  constructor
  · rintro ⟨h1, h2⟩
    obtain ⟨a, rfl⟩ := fin_iff.mp h1
    obtain ⟨b, rfl⟩ := fin_iff.mp h2
    exact ⟨⟨a, b⟩, rfl⟩
  · rintro ⟨w, hw⟩; rw [hw]; exact cfin_cx w

@[simp] theorem cx_add (a b : Cx ℝ) : cx a + cx b = cx (a + b) := rfl
@[simp] theorem cx_sub (a b : Cx ℝ) : cx a - cx b = cx (a - b) := rfl
@[simp] theorem cx_mul (a b : Cx ℝ) : cx a * cx b = cx (a * b) := rfl
@[simp] theorem cx_conj (a : Cx ℝ) : Cx.conj (cx a) = cx (Cx.conj a) := rfl
@[simp] theorem cx_smul (c : ℝ) (a : Cx ℝ) : Cx.smul (some c : PReal) (cx a) = cx (Cx.smul c a) := rfl
@[simp] theorem cx_ofReal (a : ℝ) : Cx.ofReal (some a : PReal) = cx (Cx.ofReal a) := rfl
@[simp] theorem cx_normSq (a : Cx ℝ) : Cx.normSq (cx a) = some (Cx.normSq a) := rfl
@[simp] theorem cx_divReal (a : Cx ℝ) {c : ℝ} (h : c ≠ 0) :
    Cx.divReal (cx a) (some c : PReal) = cx (Cx.divReal a c) := by
  simp [Cx.divReal, cx, h]
theorem normSq_nonneg (a : Cx ℝ) : 0 ≤ Cx.normSq a := by
  unfold Cx.normSq; nlinarith [mul_self_nonneg a.re, mul_self_nonneg a.im]
@[simp] theorem cx_abs (a : Cx ℝ) : Cx.abs (cx a) = some (Cx.abs a) := by
  simp [Cx.abs, normSq_nonneg]

end PReal

/-- a finite per-bin record read at the strict instance (all fields `some`) -/
def BinData.lift (d : Gen.BinData ℝ) : Gen.BinData PReal where
  XX := some d.XX
  YY := some d.YY
  XY := PReal.cx d.XY
  S12 := some d.S12
  S2 := some d.S2
  M2 := some d.M2
  navg := some d.navg
  fs := some d.fs

namespace BinData
@[simp] theorem lift_XX (d : Gen.BinData ℝ) : (lift d).XX = some d.XX := rfl
@[simp] theorem lift_YY (d : Gen.BinData ℝ) : (lift d).YY = some d.YY := rfl
@[simp] theorem lift_XY (d : Gen.BinData ℝ) : (lift d).XY = PReal.cx d.XY := rfl
@[simp] theorem lift_S12 (d : Gen.BinData ℝ) : (lift d).S12 = some d.S12 := rfl
@[simp] theorem lift_S2 (d : Gen.BinData ℝ) : (lift d).S2 = some d.S2 := rfl
@[simp] theorem lift_M2 (d : Gen.BinData ℝ) : (lift d).M2 = some d.M2 := rfl
@[simp] theorem lift_navg (d : Gen.BinData ℝ) : (lift d).navg = some d.navg := rfl
@[simp] theorem lift_fs (d : Gen.BinData ℝ) : (lift d).fs = some d.fs := rfl
end BinData
