/-
  SpecKitV.Num — the numeric interface every model definition is written against.

  One definition, two readings: instantiated at `Float` the model is executable and is run
  against the Python implementation by the correspondence harness; instantiated at `ℝ`
  (`SpecKitV.RealInst`, Mathlib) it is what the theorems talk about.
  This file is Mathlib-free so that the driver can be compiled.
-/

class RealLike (α : Type) extends Add α, Sub α, Mul α, Div α, Neg α where
  ofNat : Nat → α
  ofInt : Int → α
  /-- decimal literal `m * 10^(-e)` if `s` else `m * 10^e`, as `OfScientific` -/
  ofSci : Nat → Bool → Nat → α
  lt : α → α → Bool
  le : α → α → Bool
  beq : α → α → Bool
  floor : α → Int
  ceil : α → Int
  /-- Python `round` / `np.round`: round half to even -/
  roundEven : α → Int
  /-- Python `int()`: truncation towards zero -/
  trunc : α → Int
  sqrt : α → α
  exp : α → α
  log : α → α
  log10 : α → α
  sin : α → α
  cos : α → α
  arcsin : α → α
  atan2 : α → α → α
  abs : α → α
  pow : α → α → α
  pi : α

namespace RealLike
variable {α : Type} [RealLike α]
@[inline] def zero : α := ofNat 0
@[inline] def one : α := ofNat 1
@[inline] def two : α := ofNat 2
@[inline] def gt (a b : α) : Bool := lt b a
@[inline] def ge (a b : α) : Bool := le b a
@[inline] def bne (a b : α) : Bool := !(beq a b)
@[inline] def max (a b : α) : α := if le a b then b else a
@[inline] def min (a b : α) : α := if le a b then a else b
end RealLike

/-! ### Float instance (IEEE double, C libm: what CPython/NumPy use) -/

namespace FloatImpl

def toInt (x : Float) : Int := x.toInt64.toInt

def floorI (x : Float) : Int := toInt x.floor
def ceilI (x : Float) : Int := toInt x.ceil
def truncI (x : Float) : Int := toInt x   -- C cast truncates toward zero

/-- round half to even, as Python's `round` and `np.round` -/
def roundEvenI (x : Float) : Int :=
  let f := x.floor
  let d := x - f
  let fi := toInt f
  if d < 0.5 then fi
  else if d > 0.5 then fi + 1
  else if fi % 2 == 0 then fi else fi + 1

end FloatImpl

instance : RealLike Float where
  ofNat := Float.ofNat
  ofInt := Float.ofInt
  ofSci := Float.ofScientific
  lt a b := a < b
  le a b := a ≤ b
  beq a b := a == b
  floor := FloatImpl.floorI
  ceil := FloatImpl.ceilI
  roundEven := FloatImpl.roundEvenI
  trunc := FloatImpl.truncI
  sqrt := Float.sqrt
  exp := Float.exp
  log := Float.log
  log10 := Float.log10
  sin := Float.sin
  cos := Float.cos
  arcsin := Float.asin
  atan2 := Float.atan2
  abs := Float.abs
  pow := Float.pow
  pi := 3.141592653589793

/-! ### Loops -/

/-- `for i in range(n)`: fold of the loop body over `0 .. n-1`. -/
def forRange {σ : Type} (n : Nat) (init : σ) (f : Nat → σ → σ) : σ :=
  Nat.fold n (fun i _ s => f i s) init

/-- `while cond: body` with an explicit fuel bound; returns the state and whether the
    loop stopped because the condition became false (`true`) or fuel ran out (`false`). -/
def whileFuel {σ : Type} (fuel : Nat) (cond : σ → Bool) (body : σ → σ) (s : σ) : σ × Bool :=
  match fuel with
  | 0 => (s, !(cond s))
  | k + 1 => if cond s then whileFuel k cond body (body s) else (s, true)

/-- sum of `f 0 + … + f (n-1)` accumulated left to right from `0`, the order of a Python loop -/
def sumRange {α : Type} [RealLike α] (n : Nat) (f : Nat → α) : α :=
  forRange n (RealLike.ofNat 0) (fun i acc => acc + f i)

/-! ### Complex pairs -/

structure Cx (α : Type) where
  re : α
  im : α
deriving Repr

namespace Cx
variable {α : Type} [RealLike α]
@[inline] def add (a b : Cx α) : Cx α := ⟨a.re + b.re, a.im + b.im⟩
@[inline] def sub (a b : Cx α) : Cx α := ⟨a.re - b.re, a.im - b.im⟩
@[inline] def mul (a b : Cx α) : Cx α := ⟨a.re * b.re - a.im * b.im, a.re * b.im + a.im * b.re⟩
@[inline] def conj (a : Cx α) : Cx α := ⟨a.re, -a.im⟩
@[inline] def normSq (a : Cx α) : α := a.re * a.re + a.im * a.im
@[inline] def ofReal (a : α) : Cx α := ⟨a, RealLike.ofNat 0⟩
@[inline] def smul (c : α) (a : Cx α) : Cx α := ⟨c * a.re, c * a.im⟩
@[inline] def divReal (a : Cx α) (c : α) : Cx α := ⟨a.re / c, a.im / c⟩
@[inline] def abs (a : Cx α) : α := RealLike.sqrt (normSq a)
instance : Add (Cx α) := ⟨add⟩
instance : Sub (Cx α) := ⟨sub⟩
instance : Mul (Cx α) := ⟨mul⟩
end Cx

/-! ### Arrays as index functions with an explicit length (what the translator emits for
    NumPy arrays; reads outside the length are never produced by translated code whose source
    indexes in range — that in-range premise is what C02 establishes). -/

structure Arr (α : Type) where
  n : Nat
  get : Nat → α

structure Arr2 (α : Type) where
  n : Nat
  m : Nat
  get : Nat → Nat → α

/-- functional update `a[i] = v` -/
def Arr.set {α : Type} (a : Arr α) (i : Nat) (v : α) : Arr α := ⟨a.n, fun k => if k = i then v else a.get k⟩
/-- functional update `a[i, j] = v` -/
def Arr2.set {α : Type} (a : Arr2 α) (i j : Nat) (v : α) : Arr2 α :=
  ⟨a.n, a.m, fun k l => if k = i ∧ l = j then v else a.get k l⟩

/-- the same array with its elements computed once (what NumPy does: a vector expression is evaluated eagerly);
    extensionally the identity (`Arr.memo_eq` in RealInst) -/
def Arr.memo {α : Type} (a : Arr α) : Arr α :=
  let cache := (Array.range a.n).map a.get
  ⟨a.n, fun i => if h : i < cache.size then cache[i] else a.get i⟩

/-- `a *= c` on a whole array -/
def Arr.scale {α : Type} [Mul α] (a : Arr α) (c : α) : Arr α := ⟨a.n, fun i => a.get i * c⟩

/-- Python / NumPy index into an axis of length `n`: a negative index counts from the end -/
def Np.pyIndex (n : Nat) (i : Int) : Nat := if i < 0 then Int.toNat ((n : Int) + i) else Int.toNat i

/-! ### NumPy primitives used by vectorised code (contracts of the library functions) -/
namespace Np
variable {α : Type} [RealLike α]
/-- `np.logspace(a, b, n)` = `10 ** np.linspace(a, b, n)`; linspace is `a + i*step` with the last point forced to `b` -/
def logspace (a b : α) (n : Nat) : Arr α := ⟨n, fun i =>
  let y : α :=
    if n ≤ 1 then a
    else if i + 1 == n then b
    else a + RealLike.ofNat i * ((b - a) / RealLike.ofNat (n - 1))
  RealLike.pow (RealLike.ofNat 10) y⟩
/-- `np.searchsorted(grid, v, side='left')` on a sorted grid: the number of grid points `< v` -/
def searchsortedLeft (grid : Arr α) (v : α) : Nat :=
  forRange grid.n 0 (fun i cnt => if RealLike.lt (grid.get i) v then cnt + 1 else cnt)
end Np

namespace Arr
variable {α : Type} [RealLike α]
/-- `np.mean(a)`: left-to-right sum divided by the length -/
def mean (a : Arr α) : α := sumRange a.n a.get / RealLike.ofNat a.n
def subS (a : Arr α) (c : α) : Arr α := ⟨a.n, fun i => a.get i - c⟩
def add (a b : Arr α) : Arr α := ⟨a.n, fun i => a.get i + b.get i⟩
def mul (a b : Arr α) : Arr α := ⟨a.n, fun i => a.get i * b.get i⟩
end Arr
