/-
  SpecKitV.Drv.ExtEntryPoints — driver operations of the generated region `EntryPoints` (extension point: `dispatch op` returns
  `some handler` for the operations this file serves).  Mathlib-free.  Every operation executes a GENERATED definition
  (`Gen/EntryPoints.lean`) at `Float` / on strings:

    ep_init    iscsd fs nkeys (key value)*          -> <modelled 0|1> RAISE   |   <modelled 0|1> OK <nf> <len> <iscsd> <fs> nkeys (key value)*
    ep_entry   lpsd|compute_spectrum data fs nkw (k v)*                 -> the call trace
    ep_entry   compute_single_bin data fs freq fres L nkw (k v)*        -> the call trace
    ep_backend cuda numba K hint                    -> ok <name> | raise <class>
    ep_bounds  N L n s*                             -> ok | raise <class>

  value grammar (tokens):  bv n (0|1)* | iv n int* | fv n hex* | cv n (hex hex)* | li n item* | tu n item* | ov n item* | om r m num*(r*m)
                           | sc num | op id
  item:  N | n num | l k num* | t k num* | i k int* | f k hex* | z int | r k num* | o id
  num:   b0 | b1 | i<int> | r<hex> | c<hex>,<hex>
-/
import SpecKitV.Drv.Base
import SpecKitV.Gen.EntryPoints

namespace Drv.ExtEntryPoints
open Drv

def parseNum (t : String) : Except String (EP.Num Float) :=
  if t == "b0" then .ok (.bool false)
  else if t == "b1" then .ok (.bool true)
  else if t.startsWith "i" then
    match (t.drop 1).toString.toInt? with
    | some z => .ok (.int z)
    | none => .error s!"num:{t}"
  else if t.startsWith "r" then
    match parseHex (t.drop 1).toString with
    | some u => .ok (.real (Float.ofBits u))
    | none => .error s!"num:{t}"
  else if t.startsWith "c" then
    match (t.drop 1).toString.splitOn "," with
    | [a, b] =>
      match parseHex a, parseHex b with
      | some u, some w => .ok (.cplx ⟨Float.ofBits u, Float.ofBits w⟩)
      | _, _ => .error s!"num:{t}"
    | _ => .error s!"num:{t}"
  else .error s!"num:{t}"

def num : M (EP.Num Float) := do
  let t ← tok
  match parseNum t with
  | .ok x => return x
  | .error e => throw e

def listOf {β : Type} (p : M β) : M (List β) := do
  let n ← nat
  let mut a : Array β := Array.mkEmpty n
  for _ in [0:n] do
    a := a.push (← p)
  return a.toList

def item : M (EP.Item Float) := do
  let t ← tok
  match t with
  | "N" => return .none
  | "n" => return .num (← num)
  | "l" => return .pylist (← listOf num)
  | "t" => return .pytuple (← listOf num)
  | "i" => return .ivec (← listOf int)
  | "f" => return .fvec (← listOf flt)
  | "z" => return .ivec0 (← int)
  | "r" => return .objrow (← listOf num)
  | "o" => return .opaque (← nat)
  | _ => throw s!"item:{t}"

def cx : M (Cx Float) := do
  let a ← flt
  let b ← flt
  return ⟨a, b⟩

def boolTok : M Bool := do
  let n ← nat
  return n != 0

def value : M (EP.Val Float) := do
  let t ← tok
  match t with
  | "bv" => return .bvec (← listOf boolTok)
  | "iv" => return .ivec (← listOf int)
  | "fv" => return .fvec (← listOf flt)
  | "cv" => return .cvec (← listOf cx)
  | "li" => return .pylist (← listOf item)
  | "tu" => return .pytuple (← listOf item)
  | "ov" => return .objvec (← listOf item)
  | "om" =>
    let r ← nat
    let m ← nat
    let mut rows : Array (List (EP.Num Float)) := #[]
    for _ in [0:r] do
      let mut row : Array (EP.Num Float) := #[]
      for _ in [0:m] do
        row := row.push (← num)
      rows := rows.push row.toList
    return .objmat m rows.toList
  | "sc" => return .scalar (← num)
  | "op" => return .opaque (← nat)
  | _ => throw s!"value:{t}"

def showNum : EP.Num Float → String
  | .bool b => if b then "b1" else "b0"
  | .int z => s!"i{z}"
  | .real x => "r" ++ fmt x
  | .cplx z => "c" ++ fmt z.re ++ "," ++ fmt z.im

def showNums (xs : List (EP.Num Float)) : String := s!"{xs.length}" ++ String.join (xs.map (fun x => " " ++ showNum x))
def showInts (xs : List Int) : String := s!"{xs.length}" ++ String.join (xs.map (fun x => s!" {x}"))
def showFlts (xs : List Float) : String := s!"{xs.length}" ++ String.join (xs.map (fun x => " " ++ fmt x))

def showItem : EP.Item Float → String
  | .none => "N"
  | .num x => "n " ++ showNum x
  | .pylist xs => "l " ++ showNums xs
  | .pytuple xs => "t " ++ showNums xs
  | .ivec v => "i " ++ showInts v
  | .fvec v => "f " ++ showFlts v
  | .ivec0 z => s!"z {z}"
  | .objrow xs => "r " ++ showNums xs
  | .opaque i => s!"o {i}"

def showItems (xs : List (EP.Item Float)) : String := s!"{xs.length}" ++ String.join (xs.map (fun x => " " ++ showItem x))

def showVal : EP.Val Float → String
  | .bvec v => s!"bv {v.length}" ++ String.join (v.map (fun b => if b then " 1" else " 0"))
  | .ivec v => "iv " ++ showInts v
  | .fvec v => "fv " ++ showFlts v
  | .cvec v => s!"cv {v.length}" ++ String.join (v.map (fun z => " " ++ fmt z.re ++ " " ++ fmt z.im))
  | .pylist xs => "li " ++ showItems xs
  | .pytuple xs => "tu " ++ showItems xs
  | .objvec xs => "ov " ++ showItems xs
  | .objmat m rows => s!"om {rows.length} {m}" ++ String.join (rows.map (fun r => String.join (r.map (fun x => " " ++ showNum x))))
  | .scalar x => "sc " ++ showNum x
  | .opaque i => s!"op {i}"

def dict : M (EP.Dict Float) := do
  let n ← nat
  let mut d : Array (String × EP.Val Float) := #[]
  for _ in [0:n] do
    let k ← tok
    let v ← value
    d := d.push (k, v)
  return d.toList

def showDict (d : EP.Dict Float) : String := s!"{d.length}" ++ String.join (d.map (fun kv => " " ++ kv.1 ++ " " ++ showVal kv.2))

def opInit : M String := do
  let iscsd ← boolTok
  let fs ← flt
  let d ← dict
  let m := if EP.modelled d then "1" else "0"
  match Gen.result_init (α := Float) d () iscsd fs with
  | none => return m ++ " RAISE"
  | some r =>
    return s!"{m} OK {r.nf} {Gen.result_len r} {if r.iscsd then 1 else 0} {fmt r.fs} " ++ showDict r.data

def kwList : M (List (String × String)) := do
  let n ← nat
  let mut a : Array (String × String) := #[]
  for _ in [0:n] do
    let k ← tok
    let v ← tok
    a := a.push (k, v)
  return a.toList

def showArgs (a : EP.CallArgs String) : String :=
  "(" ++ ",".intercalate (a.pos ++ a.kw.map (fun kv => kv.1 ++ "=" ++ kv.2)) ++ ")"

/-- the abstract callables record the call: the constructor returns the text of the construction, a method appends its own call -/
def ctorRec (a : EP.CallArgs String) : Except String String := .ok ("SpectrumAnalyzer" ++ showArgs a)
def methodRec (m : String) (recv : String) (a : EP.CallArgs String) : Except String String := .ok (recv ++ "." ++ m ++ showArgs a)

def opEntry : M String := do
  let which ← tok
  let data ← tok
  let fs ← tok
  let r ← match which with
    | "lpsd" => do
      let kw ← kwList
      pure (Gen.lpsd ctorRec methodRec data fs kw)
    | "compute_spectrum" => do
      let kw ← kwList
      pure (Gen.compute_spectrum ctorRec methodRec data fs kw)
    | "compute_single_bin" => do
      let freq ← tok
      let fres ← tok
      let L ← tok
      let kw ← kwList
      pure (Gen.compute_single_bin ctorRec methodRec data fs freq fres L kw)
    | _ => throw s!"entry:{which}"
  match r with
  | .ok s => return s
  | .error e => return "ERROR " ++ e

def showExc : EP.PyExc → String
  | .ValueError => "ValueError"
  | .RuntimeError => "RuntimeError"
  | .TypeError => "TypeError"
  | .Other => "Other"

def opBackend : M String := do
  let cuda ← boolTok
  let numba ← boolTok
  let K ← int
  let hint ← tok
  match Gen._select_backend cuda numba K hint with
  | .ok s => return "ok " ++ s
  | .error e => return "raise " ++ showExc e

def opBounds : M String := do
  let N ← int
  let L ← int
  let starts ← listOf int
  match Gen._check_starts_bounds N starts L with
  | .ok _ => return "ok"
  | .error e => return "raise " ++ showExc e

def dispatch (op : String) : Option (M String) :=
  match op with
  | "ep_init" => some opInit
  | "ep_entry" => some opEntry
  | "ep_backend" => some opBackend
  | "ep_bounds" => some opBounds
  | _ => none

end Drv.ExtEntryPoints
