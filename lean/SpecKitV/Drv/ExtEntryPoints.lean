/-
  SpecKitV.Drv.ExtEntryPoints — driver operations of the generated region `EntryPoints` (extension point: `dispatch op` returns
  `some handler` for the operations this file serves).  Mathlib-free.
-/
import SpecKitV.Drv.Base

namespace Drv.ExtEntryPoints
open Drv

def dispatch (op : String) : Option (M String) :=
  match op with
  | _ => none

end Drv.ExtEntryPoints
