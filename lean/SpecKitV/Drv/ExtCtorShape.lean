/-
  SpecKitV.Drv.ExtCtorShape — driver operations of the generated region `CtorShape` (extension point: `dispatch op` returns
  `some handler` for the operations this file serves).  Mathlib-free.
-/
import SpecKitV.Drv.Base

namespace Drv.ExtCtorShape
open Drv

def dispatch (op : String) : Option (M String) :=
  match op with
  | _ => none

end Drv.ExtCtorShape
