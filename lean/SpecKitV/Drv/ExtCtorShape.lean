/-
  SpecKitV.Drv.ExtCtorShape — driver operations of the generated region `CtorShape` (extension point: `dispatch op` returns
  `some handler` for the operations this file serves).  Mathlib-free.

  Every operation executes the GENERATED definitions of Gen/CtorShape.lean at `Float`:
    ctorcall <shape> <elems> <fs> <nkw> (<name> <pyval>)* <floatOfStr table> <intOfStr table> <strOf table> <wstep> <sstep>
                       Gen.ctor_call on the array (shape, C-order elements), `fs`, the keyword arguments given; the tables are CPython's
                       answers for `float(s)`, `int(s)`, `str(v)`; `wstep` / `sstep` = `ok` (identity) or `raise:<Exc>`
    ctordefaults       Gen.ctor_positional and Gen.ctor_kwdefaults
  Values: `n` None · `b:0|1` · `i:<int>` · `r:<16 hex>` float · `s:<hex>` str · `f:<hex>` callable by name · `o:<id>` other object.
  Strings travel hex-encoded (in the three tables with a leading `h`, so that the empty string is a token).
-/
import SpecKitV.Drv.Base
import SpecKitV.Gen.CtorShape

namespace Drv.ExtCtorShape
open Drv CS

def hexByte (a b : Char) : Option Nat :=
  match hexVal a, hexVal b with
  | some x, some y => some (16 * x + y)
  | _, _ => none

def unhexAux : List Char → Option (List Char)
  | [] => some []
  | a :: b :: rest =>
    match hexByte a b, unhexAux rest with
    | some n, some cs => some (Char.ofNat n :: cs)
    | _, _ => none
  | _ => none

def unhex (s : String) : Option String := (unhexAux s.toList).map String.ofList

def hexStr (s : String) : String :=
  String.ofList (s.toList.flatMap (fun c => [hexDigit (c.toNat / 16), hexDigit (c.toNat % 16)]))

def pyvalOf (t : String) : Except String (PyVal Float) :=
  if t == "n" then .ok .none
  else if t.startsWith "b:" then .ok (.bool ((t.drop 2).toString == "1"))
  else if t.startsWith "i:" then
    match (t.drop 2).toString.toInt? with
    | some z => .ok (.int z)
    | none => .error s!"pyval:{t}"
  else if t.startsWith "r:" then
    match parseHex (t.drop 2).toString with
    | some u => .ok (.real (Float.ofBits u))
    | none => .error s!"pyval:{t}"
  else if t.startsWith "s:" then
    match unhex (t.drop 2).toString with
    | some s => .ok (.str s)
    | none => .error s!"pyval:{t}"
  else if t.startsWith "f:" then
    match unhex (t.drop 2).toString with
    | some s => .ok (.fn s)
    | none => .error s!"pyval:{t}"
  else if t.startsWith "o:" then
    match (t.drop 2).toString.toNat? with
    | some n => .ok (.obj n)
    | none => .error s!"pyval:{t}"
  else .error s!"pyval:{t}"

def pyvalStr : PyVal Float → String
  | .none => "n"
  | .bool b => if b then "b:1" else "b:0"
  | .int z => s!"i:{z}"
  | .real x => s!"r:{fmt x}"
  | .str s => s!"s:{hexStr s}"
  | .fn s => s!"f:{hexStr s}"
  | .obj n => s!"o:{n}"

def pyval : M (PyVal Float) := do
  match pyvalOf (← tok) with
  | .ok v => return v
  | .error e => throw e

def hexTok : M String := do
  let t ← tok
  match unhex t with
  | some s => return s
  | none => throw s!"hexstr:{t}"

/-- `h<hex>` (the prefix keeps the token non-empty for the empty string) -/
def hexTokH : M String := do
  let t ← tok
  match unhex (t.drop 1).toString with
  | some s => if t.startsWith "h" then return s else throw s!"hexstrH:{t}"
  | none => throw s!"hexstrH:{t}"

def excStr : PyExc → String
  | .ValueError => "ValueError"
  | .TypeError => "TypeError"
  | .IndexError => "IndexError"
  | .OverflowError => "OverflowError"
  | .AttributeError => "AttributeError"
  | .KeyError => "KeyError"
  | .Other => "Other"

def excOf (t : String) : PyExc :=
  if t == "ValueError" then .ValueError else if t == "TypeError" then .TypeError else if t == "IndexError" then .IndexError
  else if t == "OverflowError" then .OverflowError else if t == "AttributeError" then .AttributeError
  else if t == "KeyError" then .KeyError else .Other

/-- `ok` (identity) | `raise:<Exc>` -/
def stepTok : M (Step Float) := do
  let t ← tok
  if t == "ok" then return (fun c => .ok c)
  if t.startsWith "raise:" then
    let e := excOf (t.drop 6).toString
    return (fun _ => .error e)
  throw s!"step:{t}"

/-- the array with the given shape whose C-order elements are `a` -/
def ndOf (shape : List Nat) (a : Array Float) : NdArr Float :=
  ⟨shape, fun idx =>
    -- row-major flat index (a malformed index list reads NaN)
    let flat := (List.zip shape idx).foldl (fun acc p => acc * p.1 + p.2) 0
    if idx.length == shape.length then a.getD flat nan else nan⟩

def joinC (l : List String) : String := ",".intercalate l

def ndStr (x : NdArr Float) : String := joinC (x.toList.map fmt)

def dictStr (d : PyDict (PyVal Float)) : String := ";".intercalate (d.map (fun kv => s!"{hexStr kv.1}={pyvalStr kv.2}"))

def ctorcall : M String := do
  let shape ← natArr
  let elems ← fltArr
  let fs ← pyval
  let nkw ← nat
  let mut kw : PyDict (PyVal Float) := []
  for _ in [0:nkw] do
    let k ← hexTok
    let v ← pyval
    kw := kw ++ [(k, v)]
  let nf ← nat
  let mut ftab : List (String × Option Float) := []
  for _ in [0:nf] do
    let k ← hexTokH
    let t ← tok
    if t == "-" then ftab := ftab ++ [(k, none)]
    else match parseHex t with
      | some u => ftab := ftab ++ [(k, some (Float.ofBits u))]
      | none => throw s!"ftab:{t}"
  let ni ← nat
  let mut itab : List (String × Option Int) := []
  for _ in [0:ni] do
    let k ← hexTokH
    let t ← tok
    if t == "-" then itab := itab ++ [(k, none)]
    else match t.toInt? with
      | some z => itab := itab ++ [(k, some z)]
      | none => throw s!"itab:{t}"
  let ns ← nat
  let mut stab : List (String × String) := []
  for _ in [0:ns] do
    let k ← tok
    let v ← hexTokH
    stab := stab ++ [(k, v)]
  let wstep ← stepTok
  let sstep ← stepTok
  let E : Env Float := {
    floatOfStr := fun s => ((ftab.find? (fun p => p.1 == s)).map (·.2)).getD none
    intOfStr := fun s => ((itab.find? (fun p => p.1 == s)).map (·.2)).getD none
    strOf := fun v => ((stab.find? (fun p => p.1 == pyvalStr v)).map (·.2)).getD "?" }
  let x := ndOf shape.toList elems
  match Gen.ctor_call E wstep sstep x fs kw with
  | .error e => return s!"raise {excStr e}"
  | .ok o =>
    let x2s := match o.x2 with
      | some a => s!"{joinC (a.shape.map toString)}|{ndStr a}"
      | none => "n"
    return s!"ok iscsd={if o.iscsd then 1 else 0} nx={o.nx} fs={fmt o.fs} verbose={if o.verbose then 1 else 0} pc={pyvalStr o.plan_cache} dshape={joinC (o.data.shape.map toString)} data={ndStr o.data} x1={joinC (o.x1.shape.map toString)}|{ndStr o.x1} x2={x2s} cfg={dictStr o.config}"

def ctordefaults : M String := do
  return s!"pos={joinC ((Gen.ctor_positional).map hexStr)} kw={dictStr (Gen.ctor_kwdefaults (α := Float))}"

def dispatch (op : String) : Option (M String) :=
  match op with
  | "ctorcall" => some ctorcall
  | "ctordefaults" => some ctordefaults
  | _ => none

end Drv.ExtCtorShape
