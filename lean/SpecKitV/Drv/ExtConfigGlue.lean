/-
  SpecKitV.Drv.ExtConfigGlue — driver operations of the generated region `ConfigGlue` (extension point: `dispatch op` returns
  `some handler` for the operations this file serves).  Mathlib-free.
-/
import SpecKitV.Drv.Base

namespace Drv.ExtConfigGlue
open Drv

def dispatch (op : String) : Option (M String) :=
  match op with
  | _ => none

end Drv.ExtConfigGlue
