/-
  SpecKitV.Drv.ExtConfigGlue — driver operations of the generated region `ConfigGlue` (extension point: `dispatch op` returns
  `some handler` for the operations this file serves).  Mathlib-free.

  Every operation executes the GENERATED definitions of Gen/ConfigGlue.lean at `Float`:
    cgwin   <win> <psll> <olap> <win_dict> <olap_dict> <parse>      Gen.cg_process_window_config
    cgsched <scheduler>                                             Gen.cg_process_scheduler_config
    cgreq   <fs> <nx> <L> <fres>                                    Gen.cg_single_bin_request
    cgrun   <cfg…> <table of recorded scheduler calls> <ops…>       Gen.cg_plan / cg_compute / cg_compute_single_bin_state over an op sequence,
                                                                    the Jdes search being Gen.find_Jdes_binary_search on the supplied bin-count table
  Strings travel hex-encoded (`s:6b6169736572`), floats as 16 hex digits (`r:…`), see `pyval`.
-/
import SpecKitV.Drv.Base
import SpecKitV.Gen.ConfigGlue

namespace Drv.ExtConfigGlue
open Drv CG

def hexByte (a b : Char) : Option Nat :=
  match hexVal a, hexVal b with
  | some x, some y => some (16 * x + y)
  | _, _ => none

def unhexAux : List Char → Option (List Char)
  | [] => some []
  | a :: b :: rest =>
    match hexByte a b, unhexAux rest with
    | some n, some cs => some (Char.ofNat n :: cs)
    | _, _ => none
  | _ => none

def unhex (s : String) : Option String := (unhexAux s.toList).map String.ofList

def hexStr (s : String) : String :=
  String.ofList (s.toList.flatMap (fun c => [hexDigit (c.toNat / 16), hexDigit (c.toNat % 16)]))

/-- `n` None · `b:0|1` · `i:<int>` · `r:<16 hex>` · `s:<hex string>` -/
def pyvalOf (t : String) : Except String (PyVal Float) :=
  if t == "n" then .ok .none
  else if t.startsWith "b:" then .ok (.bool ((t.drop 2).toString == "1"))
  else if t.startsWith "i:" then
    match (t.drop 2).toString.toInt? with
    | some z => .ok (.int z)
    | none => .error s!"pyval:{t}"
  else if t.startsWith "r:" then
    match parseHex (t.drop 2).toString with
    | some u => .ok (.real (Float.ofBits u))
    | none => .error s!"pyval:{t}"
  else if t.startsWith "s:" then
    match unhex (t.drop 2).toString with
    | some s => .ok (.str s)
    | none => .error s!"pyval:{t}"
  else .error s!"pyval:{t}"

def pyval : M (PyVal Float) := do
  match pyvalOf (← tok) with
  | .ok v => return v
  | .error e => throw e

/-- `-` absent, else a PyVal -/
def optPyval : M (Option (PyVal Float)) := do
  let t ← tok
  if t == "-" then return none
  match pyvalOf t with
  | .ok v => return some v
  | .error e => throw e

def optFlt : M (Option Float) := do
  let t ← tok
  if t == "n" then return none
  if t.startsWith "r:" then
    match parseHex (t.drop 2).toString with
    | some u => return some (Float.ofBits u)
    | none => throw s!"optflt:{t}"
  throw s!"optflt:{t}"

def hexTok : M String := do
  let t ← tok
  match unhex t with
  | some s => return s
  | none => throw s!"hexstr:{t}"

def winFnOf (t : String) : Except String WinFn :=
  if t == "npk" then .ok .np_kaiser
  else if t == "spk" then .ok .sp_kaiser
  else if t == "han" then .ok .np_hanning
  else if t.startsWith "c" then
    match (t.drop 1).toString.toNat? with
    | some n => .ok (.custom n)
    | none => .error s!"winfn:{t}"
  else .error s!"winfn:{t}"

def winFnStr : WinFn → String
  | .np_kaiser => "npk"
  | .sp_kaiser => "spk"
  | .np_hanning => "han"
  | .custom n => s!"c{n}"

def excStr : PyExc → String
  | .ValueError => "ValueError"
  | .TypeError => "TypeError"
  | .RuntimeError => "RuntimeError"
  | .KeyError => "KeyError"
  | .Other => "Other"

def excOf (t : String) : PyExc :=
  if t == "ValueError" then .ValueError else if t == "TypeError" then .TypeError
  else if t == "RuntimeError" then .RuntimeError else if t == "KeyError" then .KeyError else .Other

/-- `s:<hex>` | `f:<winfn>` | `o` -/
def winObj : M (PyObj WinFn) := do
  let t ← tok
  if t == "o" then return .other
  if t.startsWith "s:" then
    match unhex (t.drop 2).toString with
    | some s => return .str s
    | none => throw s!"winobj:{t}"
  if t.startsWith "f:" then
    match winFnOf (t.drop 2).toString with
    | .ok f => return .fn f
    | .error e => throw e
  throw s!"winobj:{t}"

def opWin : M String := do
  let win ← winObj
  let psll ← optFlt
  let olap ← pyval
  let nw ← nat
  let mut wd : PyDict WinFn := []
  for _ in [0:nw] do
    let k ← hexTok
    match winFnOf (← tok) with
    | .ok f => wd := wd ++ [(k, f)]
    | .error e => throw e
  let no ← nat
  let mut od : PyDict Float := []
  for _ in [0:no] do
    let k ← hexTok
    let v ← flt
    od := od ++ [(k, v)]
  let parse ← optFlt
  match Gen.cg_process_window_config (α := Float) win psll olap wd od (fun _ => parse) with
  | .error e => return s!"err {excStr e}"
  | .ok out =>
    let wf := match out.win_func with | some f => winFnStr f | none => "-"
    let al := match out.alpha with | none => "unset" | some none => "none" | some (some a) => s!"r:{fmt a}"
    let fo := match out.final_olap with | none => "-" | some v => s!"r:{fmt v}"
    let nm := match out.win_name with | none => "unset" | some none => "none" | some (some s) => s!"s:{hexStr s}"
    return s!"ok {wf} {al} {fo} {nm}"

def schedIdOf (t : String) : Except String SchedId :=
  if t == "lpsd_plan" then .ok .lpsd_plan
  else if t == "ltf_plan" then .ok .ltf_plan
  else if t == "vectorized_ltf_plan" then .ok .vectorized_ltf_plan
  else if t == "new_ltf_plan" then .ok .new_ltf_plan
  else
    -- c:<name hex or ->:<id>
    match t.splitOn ":" with
    | ["c", nm, id] =>
      match id.toNat? with
      | none => .error s!"sched:{t}"
      | some n =>
        if nm == "-" then .ok (.custom none n)
        else match unhex nm with
          | some s => .ok (.custom (some s) n)
          | none => .error s!"sched:{t}"
    | _ => .error s!"sched:{t}"

def schedIdStr : SchedId → String
  | .lpsd_plan => "lpsd_plan"
  | .ltf_plan => "ltf_plan"
  | .vectorized_ltf_plan => "vectorized_ltf_plan"
  | .new_ltf_plan => "new_ltf_plan"
  | .custom nm n => s!"c:{match nm with | some s => hexStr s | none => "-"}:{n}"

def opSched : M String := do
  let t ← tok
  let obj : PyObj SchedId ←
    if t == "o" then pure PyObj.other
    else if t.startsWith "s:" then
      match unhex (t.drop 2).toString with
      | some s => pure (PyObj.str s)
      | none => throw s!"schedobj:{t}"
    else if t.startsWith "f:" then
      match schedIdOf (t.drop 2).toString with
      | .ok f => pure (PyObj.fn f)
      | .error e => throw e
    else throw s!"schedobj:{t}"
  match Gen.cg_process_scheduler_config obj with
  | .error e => return s!"err {excStr e}"
  | .ok out =>
    let f := match out.scheduler_func with | some f => schedIdStr f | none => "-"
    let n := match out.scheduler_name with | some s => hexStr s | none => "-"
    return s!"ok {f} {n}"

def opReq : M String := do
  let fs ← flt
  let nx ← int
  let L ← optFlt
  let fres ← optFlt
  match Gen.cg_single_bin_request (α := Float) fs nx L fres with
  | .error e => return s!"err {excStr e}"
  | .ok (segL, r) => return s!"ok {segL} {fmt r}"

/-! ### plan() over an op sequence -/

def pvEq : PyVal Float → PyVal Float → Bool
  | .none, .none => true
  | .bool a, .bool b => a == b
  | .int a, .int b => a == b
  | .real a, .real b => a.toBits == b.toBits
  | .str a, .str b => a == b
  | _, _ => false

def opvEq : Option (PyVal Float) → Option (PyVal Float) → Bool
  | none, none => true
  | some a, some b => pvEq a b
  | _, _ => false

def kwEq (a b : SchedKw Float) : Bool :=
  opvEq a.N b.N && opvEq a.fs b.fs && opvEq a.olap b.olap && opvEq a.bmin b.bmin && opvEq a.Lmin b.Lmin && opvEq a.Kdes b.Kdes &&
  opvEq a.num_patch_pts b.num_patch_pts && opvEq a.Jdes b.Jdes

/-- one recorded call of the real scheduler: its keyword arguments, the bin count of its output (`none`: it raised), and — if
    plan() went on to raise in tail statement `i` with exception `e` — `(i, e)` -/
structure Row where
  kw : SchedKw Float
  nf : Option Int
  fail : Option (Nat × PyExc)

/-- the driver's plan object: which recorded call produced it, how many tail statements have run on it -/
structure PObj where
  row : Nat
  done : Nat

def findRow (rows : Array Row) (kw : SchedKw Float) : Option Nat :=
  (List.range rows.size).find? (fun i => match rows[i]? with | some r => kwEq r.kw kw | none => false)

def pvStr : PyVal Float → String
  | .none => "n"
  | .bool b => if b then "b:1" else "b:0"
  | .int z => s!"i:{z}"
  | .real x => s!"r:{fmt x}"
  | .str s => s!"s:{hexStr s}"

def opvStr : Option (PyVal Float) → String
  | none => "-"
  | some v => pvStr v

def kwStr (k : SchedKw Float) : String :=
  s!"{opvStr k.N},{opvStr k.fs},{opvStr k.olap},{opvStr k.bmin},{opvStr k.Lmin},{opvStr k.Kdes},{opvStr k.num_patch_pts},{opvStr k.Jdes}"

def opRun : M String := do
  let nx ← int
  let fs ← flt
  let olap ← pyval
  let bmin ← flt
  let Lmin ← int
  let Kdes ← int
  let nppT ← tok
  let npp : Option Int := if nppT == "n" then none else nppT.toInt?
  let order ← int
  let final_olap ← flt
  let force ← nat
  let band ← nat
  let nameT ← tok
  let name : Option String := if nameT == "-" then none else unhex nameT
  let j0 ← int
  let nrows ← nat
  let mut rows : Array Row := #[]
  for _ in [0:nrows] do
    let kN ← optPyval
    let kfs ← optPyval
    let kol ← optPyval
    let kb ← optPyval
    let kL ← optPyval
    let kK ← optPyval
    let kp ← optPyval
    let kJ ← optPyval
    let nfT ← tok
    let nf : Option Int := if nfT == "raise" then none else nfT.toInt?
    let fi ← int
    let fe ← tok
    let fail : Option (Nat × PyExc) := if fi < 0 then none else some (fi.toNat, excOf fe)
    rows := rows.push { kw := { N := kN, fs := kfs, olap := kol, bmin := kb, Lmin := kL, Kdes := kK, num_patch_pts := kp, Jdes := kJ }, nf := nf, fail := fail }
  let sched : SchedFn Float PObj :=
    { name := name,
      call := fun kw =>
        match findRow rows kw with
        | none => .error .KeyError            -- the generated code asked for a call the real run never made
        | some i =>
          match rows[i]? with
          | some r => (match r.nf with | some _ => .ok { row := i, done := 0 } | none => .error .Other)
          | none => .error .KeyError }
  let cfg : PlanCfg Float PObj :=
    { nx := nx, fs := fs, olap := olap, bmin := bmin, Lmin := Lmin, Kdes := Kdes, num_patch_pts := npp, order := order,
      final_olap := final_olap, force_target_nf := force != 0, band := if band != 0 then some (0.0, 0.0) else none, scheduler_func := sched }
  -- the Jdes search: the TRANSLATED utils.find_Jdes_binary_search on the bin counts of the recorded calls
  let search : SchedFn Float PObj → Int → SchedKw Float → Except PyExc (Option Int) := fun _ target kw =>
    .ok (Gen.find_Jdes_binary_search (fun J =>
      match findRow rows { kw with Jdes := some (.int J) } with
      | some i => (match rows[i]? with | some r => r.nf.getD (-1000000007) | none => -1000000007)
      | none => -1000000007) target 64)
  let step : Nat → PObj → PObj × Option PyExc := fun i p =>
    match rows[p.row]? with
    | some r =>
      (match r.fail with
       | some (fi, e) => if fi == i then (p, some e) else ({ p with done := p.done + 1 }, none)
       | none => ({ p with done := p.done + 1 }, none))
    | none => (p, some .KeyError)
  let nops ← nat
  let mut st : PlanSt PObj := { jdes := j0, cache := none }
  let mut out : List String := []
  for _ in [0:nops] do
    let o ← tok
    let (r, st') : OpOut PObj (Nat × Nat) Unit × PlanSt PObj :=
      if o == "p" then
        match Gen.cg_plan cfg (fun _ => true) search step st with
        | (.ok p, st') => (.plan p, st')
        | (.okNone, st') => (.planNone, st')
        | (.raised e, st') => (.error e, st')
      else if o == "c" then Gen.cg_compute cfg (fun _ => true) search step (fun p c => (p.row, c.row)) st
      else Gen.cg_compute_single_bin_state (fun (_ : Unit) => ()) () st
    st := st'
    let rs := match r with
      | .plan p => s!"P:{p.row}:{p.done}"
      | .planNone => "N"
      | .result (a, b) => s!"C:{a}:{b}"
      | .single _ => "S"
      | .error e => s!"E:{excStr e}"
    let cs := match st.cache with | some p => s!"{p.row}:{p.done}" | none => "-"
    out := out ++ [s!"{rs},{st.jdes},{cs}"]
  return " ".intercalate out

/-- the keyword arguments the generated plan() hands to the scheduler for a configuration (no table needed): `cgkw <cfg…> <jdes>` -/
def opKw : M String := do
  let nx ← int
  let fs ← flt
  let olap ← pyval
  let bmin ← flt
  let Lmin ← int
  let Kdes ← int
  let nppT ← tok
  let npp : Option Int := if nppT == "n" then none else nppT.toInt?
  let final_olap ← flt
  let nameT ← tok
  let name : Option String := if nameT == "-" then none else unhex nameT
  let j0 ← int
  let sched : SchedFn Float (SchedKw Float) := { name := name, call := fun kw => .ok kw }
  let cfg : PlanCfg Float (SchedKw Float) :=
    { nx := nx, fs := fs, olap := olap, bmin := bmin, Lmin := Lmin, Kdes := Kdes, num_patch_pts := npp, order := 0,
      final_olap := final_olap, force_target_nf := false, band := none, scheduler_func := sched }
  match Gen.cg_plan cfg (fun _ => true) (fun _ _ _ => .ok none) (fun _ p => (p, none)) { jdes := j0, cache := none } with
  | (.ok kw, _) => return kwStr kw
  | _ => return "err"

def dispatch (op : String) : Option (M String) :=
  match op with
  | "cgwin" => some opWin
  | "cgsched" => some opSched
  | "cgreq" => some opReq
  | "cgrun" => some opRun
  | "cgkw" => some opKw
  | _ => none

end Drv.ExtConfigGlue
