/-
  SpecKitV.Drv.ExtResultQueries — driver operations of the generated region `ResultQueries` (extension point: `dispatch op` returns
  `some handler` for the operations this file serves).  Mathlib-free.  Every operation executes a GENERATED definition
  (`Gen/ResultQueries.lean`) at `Float` / on strings:

    rq_assemble nf nrows (i re im p2 p3 p4 p5 p6 p7)*        -> XX | YY | Re XY | Im XY | S12 | S2 | M2 | compute_t
    rq_getattr  auto|cross  nkeys key*  nreads name*          -> per read  <value tag or RAISE>#<sorted cached names, comma separated>
    rq_meas     grid  r|c  table(s)  s x | a xs               -> none | sR v | sC re im | aR v* | aC (re im)*
    rq_df       nnames (name  E | C | O | A:d0,d1,…)*         -> none | <index name> <column names in order>
    rq_dir      ndefault name*  nkeys key*                    -> the advertised names in order
-/
import SpecKitV.Drv.Base
import SpecKitV.Gen.ResultQueries

namespace Drv.ExtResultQueries
open Drv

def strArr : M (Array String) := do
  let n ← nat
  let mut a := Array.mkEmpty n
  for _ in [0:n] do
    a := a.push (← tok)
  return a

def row : M (Np.Row8 Float) := do
  let i ← int
  let re ← flt
  let im ← flt
  let p2 ← flt
  let p3 ← flt
  let p4 ← flt
  let p5 ← flt
  let p6 ← flt
  let p7 ← flt
  return ⟨i, ⟨re, im⟩, p2, p3, p4, p5, p6, p7⟩

def arrOut (a : Arr Float) : String := joinF ((List.range a.n).map a.get)

def opAssemble : M String := do
  let nf ← nat
  let nrows ← nat
  let mut rows : Array (Np.Row8 Float) := Array.mkEmpty nrows
  for _ in [0:nrows] do
    rows := rows.push (← row)
  let g := Gen.compute_assemble (α := Float) nf rows.toList (fun _ => nan) (fun _ => ⟨nan, nan⟩)
  -- evaluate each result array once (the generated arrays are closures over the scatter chain)
  let xy : Arr (Cx Float) := g.XY
  return " | ".intercalate [arrOut g.XX, arrOut g.YY, arrOut ⟨xy.n, fun k => (xy.get k).re⟩, arrOut ⟨xy.n, fun k => (xy.get k).im⟩,
    arrOut g.S12, arrOut g.S2, arrOut g.M2, arrOut g.compute_t]

def opGetattr : M String := do
  let mode ← tok
  let keys ← strArr
  let reads ← strArr
  let touched := if mode == "cross" then Gen.touchedCross else Gen.touchedAuto
  let eval : String → String := fun n => "F:" ++ n
  let data : String → Option String := fun n => if keys.contains n then some ("D:" ++ n) else none
  let mut cache : List (String × String) := []
  let mut out : Array String := #[]
  for n in reads do
    match Gen.getattr_protocol eval touched data cache n with
    | none => out := out.push ("RAISE#" ++ ",".intercalate (Np.sortedSet (cache.map (·.1))))
    | some (v, c) =>
      cache := c
      out := out.push (v ++ "#" ++ ",".intercalate (Np.sortedSet (cache.map (·.1))))
  return " ".intercalate out.toList

def opMeas : M String := do
  let grid ← fltArr
  let kind ← tok
  let tbl : Np.Table Float ←
    if kind == "c" then do
      let re ← fltArr
      let im ← fltArr
      pure (Np.Table.cplx ((List.range re.size).map (fun k => (⟨re.getD k nan, im.getD k nan⟩ : Cx Float))))
    else do
      let y ← fltArr
      pure (Np.Table.real y.toList)
  let qk ← tok
  let q : Np.Query Float ←
    if qk == "s" then do
      let x ← flt
      pure (Np.Query.scalar x)
    else do
      let xs ← fltArr
      pure (Np.Query.array xs.toList)
  match Gen.get_measurement grid.toList tbl q with
  | none => return "none"
  | some (.scalarR v) => return s!"sR {fmt v}"
  | some (.scalarC v) => return s!"sC {fmt v.re} {fmt v.im}"
  | some (.arrayR v) => return "aR " ++ joinF v
  | some (.arrayC v) => return "aC " ++ joinF (v.flatMap (fun z => [z.re, z.im]))

structure Info where
  id : String
  callable : Bool
  ndarray : Bool
  shape : List Nat

def parseInfo (name st : String) : Option Info :=
  if st == "E" then none
  else if st == "C" then some ⟨name, true, false, []⟩
  else if st.startsWith "A:" then
    let dims := ((st.drop 2).toString.splitOn ",").filter (· ≠ "")
    some ⟨name, false, true, dims.map (fun d => d.toNat?.getD 0)⟩
  else some ⟨name, false, false, []⟩

def opDf : M String := do
  let n ← nat
  let mut names : Array String := #[]
  let mut table : List (String × Option Info) := []
  for _ in [0:n] do
    let name ← tok
    let st ← tok
    names := names.push name
    table := (name, parseInfo name st) :: table
  let getattr : String → Option Info := fun a => match Np.dictGet table a with
    | some v => v
    | none => none
  match Gen.to_dataframe (V := Info) (·.callable) (·.ndarray) (·.shape) names.toList getattr with
  | none => return "none"
  | some (idx, cols) => return " ".intercalate (idx.id :: cols.map (·.1))

def opDir : M String := do
  let dflt ← strArr
  let keys ← strArr
  return " ".intercalate (Gen.result_dir dflt.toList keys.toList)

def dispatch (op : String) : Option (M String) :=
  match op with
  | "rq_assemble" => some opAssemble
  | "rq_getattr" => some opGetattr
  | "rq_meas" => some opMeas
  | "rq_df" => some opDf
  | "rq_dir" => some opDir
  | _ => none

end Drv.ExtResultQueries
