/-
  SpecKitV.Drv.ExtSchedGlue — driver operations of the generated region `SchedGlue` (extension point: `dispatch op` returns
  `some handler` for the operations this file serves).  Mathlib-free.

  `genplan <ltf|lpsd|vec|new> <fuel> <n> (<key> <i|r> <value>)^n`
        the TRANSLATED scheduler (`Gen.ltf_plan`, `Gen.lpsd_plan`, `Gen.vectorized_ltf_plan`, `Gen.new_ltf_plan`) applied to the keyword
        dictionary built by storing the `n` bindings in the given order (`i` = Python int, decimal; `r` = Python float, hex bits);
        answer `NONE` or the whole output dictionary
        `nf | f… | r… | b… | m… | L… | K… | navg… | O… | D_0… ; D_1… ; …`
  `gentail <ltf|vec|new> N <f arr> <r arr> [<b arr>] <L ints> <K ints>`
        the translated statements AFTER the walk (`Gen.<fn>_glue_post`) applied to given walk results (no `b` for `vec`); same answer format
-/
import SpecKitV.Drv.Base
import SpecKitV.Gen.SchedGlue

namespace Drv.ExtSchedGlue
open Drv

def intArr : M (List Int) := do
  let n ← nat
  let mut a : Array Int := Array.mkEmpty n
  for _ in [0:n] do
    a := a.push (← int)
  return a.toList

def joinI (l : List Int) : String := " ".intercalate (l.map toString)

def fmtPlan (p : Option (Py.PlanDict Float)) : String :=
  match p with
  | none => "NONE"
  | some d =>
    s!"{d.nf} | {joinF d.f} | {joinF d.r} | {joinF d.b} | {joinF d.m} | {joinI d.L} | {joinI d.K} | {joinI d.navg} | {joinF d.O} | "
      ++ " ; ".intercalate (d.D.map joinI)

def kwargs : M (Py.Dict (Py.Val Float)) := do
  let n ← nat
  let mut d : Py.Dict (Py.Val Float) := Py.Dict.empty
  for _ in [0:n] do
    let k ← tok
    let kind ← tok
    if kind == "i" then
      d := Py.Dict.set d k (Py.Val.int (← int))
    else if kind == "r" then
      d := Py.Dict.set d k (Py.Val.real (← flt))
    else throw s!"kwargs kind:{kind}"
  return d

def opGenPlan : M String := do
  let which ← tok
  let fuel ← nat
  let args ← kwargs
  match which with
  | "ltf" => return fmtPlan (Gen.ltf_plan args fuel)
  | "lpsd" => return fmtPlan (Gen.lpsd_plan args fuel)
  | "vec" => return fmtPlan (Gen.vectorized_ltf_plan args fuel)
  | "new" => return fmtPlan (Gen.new_ltf_plan args fuel)
  | _ => throw s!"genplan:{which}"

def opGenTail : M String := do
  let which ← tok
  let N ← int
  let f := (← fltArr).toList
  let r := (← fltArr).toList
  -- the scalar parameters other than N are not read by the statements after the walk (they are parameters of the generated
  -- definition only because the source could read them): NaN makes any use visible
  match which with
  | "ltf" =>
    let b := (← fltArr).toList
    let L ← intArr
    let K ← intArr
    return fmtPlan (Gen.ltf_plan_glue_post N nan nan nan 0 0 0 f r b L K)
  | "new" =>
    let b := (← fltArr).toList
    let L ← intArr
    let K ← intArr
    return fmtPlan (Gen.new_ltf_plan_glue_post N nan nan nan 0 0 0 f r b L K)
  | "vec" =>
    let L ← intArr
    let K ← intArr
    return fmtPlan (Gen.vectorized_ltf_plan_glue_post N nan nan nan 0 0 0 f r L K)
  | _ => throw s!"gentail:{which}"

def dispatch (op : String) : Option (M String) :=
  match op with
  | "genplan" => some opGenPlan
  | "gentail" => some opGenTail
  | _ => none

end Drv.ExtSchedGlue
