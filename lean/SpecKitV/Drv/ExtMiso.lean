/-
  SpecKitV.Drv.ExtMiso — driver operations of the generated region `Miso` (extension point: `dispatch op` returns
  `some handler` for the operations this file serves).  Mathlib-free.

  `gmiso siso|numeric|analytic …` executes the GENERATED definitions of speckit/systems.py (Gen/Miso.lean) at `Float`:
  the `ltf` results are a table sent by the harness (the base estimates XX, YY, XY, S12, S2, M2, navg, fs per bin of every
  `ltf(...)` call the REAL function made, keyed by the channels it was called with: the generated code asks for the calls ITS source
  makes, a call that was not recorded reads NaN).  The external solvers are replaced by stand-ins that satisfy their stated
  contracts on well-conditioned systems: `np.linalg.solve` / `pinv` = Gaussian elimination with partial pivoting (`pinv` = inverse),
  `np.linalg.cond` = 1-norm condition number; SymPy's solution = Gaussian elimination applied to the TRANSLATED equations
  (`Gen.….eqns`, probed as an affine function of the unknowns' values).
-/
import SpecKitV.Drv.Base
import SpecKitV.Gen.Miso

namespace Drv.ExtMiso
open Drv
open Np.Miso

abbrev C := Cx Float

def cnan : C := ⟨nan, nan⟩
def czero : C := ⟨0.0, 0.0⟩
def cdiv (a b : C) : C :=
  let d := b.re * b.re + b.im * b.im
  ⟨(a.re * b.re + a.im * b.im) / d, (a.im * b.re - a.re * b.im) / d⟩
def cabs1 (a : C) : Float := Float.sqrt (a.re * a.re + a.im * a.im)

/-- solve `A x = b` (n × n, complex) by Gaussian elimination with partial pivoting; `none` if a pivot vanishes -/
def gauss (n : Nat) (A : Nat → Nat → C) (b : Nat → C) : Option (Array C) := Id.run do
  let mut M : Array (Array C) := (Array.range n).map (fun i => ((Array.range n).map (fun j => A i j)).push (b i))
  let mut ok := true
  for c in [0:n] do
    -- pivot
    let mut p := c
    let mut best := -1.0
    for r in [c:n] do
      let v := cabs1 ((M.getD r #[]).getD c cnan)
      if v > best then
        best := v
        p := r
    if !(best > 0.0) then
      ok := false
    let rowp := M.getD p #[]
    let rowc := M.getD c #[]
    M := (M.set! p rowc).set! c rowp
    let piv := rowp.getD c cnan
    for r in [c+1:n] do
      let row := M.getD r #[]
      let f := cdiv (row.getD c cnan) piv
      M := M.set! r ((Array.range (n + 1)).map (fun j => row.getD j cnan - f * rowp.getD j cnan))
  if !ok then return none
  let mut x : Array C := Array.replicate n czero
  for t in [0:n] do
    let i := n - 1 - t
    let row := M.getD i #[]
    let mut s := row.getD n cnan
    for j in [i+1:n] do
      s := s - row.getD j cnan * x.getD j cnan
    x := x.set! i (cdiv s (row.getD i cnan))
  return some x

/-- inverse by columns; `none` if singular -/
def inverse (n : Nat) (A : Nat → Nat → C) : Option (Array (Array C)) := Id.run do
  let mut cols : Array (Array C) := #[]
  for j in [0:n] do
    match gauss n A (fun i => if i = j then ⟨1.0, 0.0⟩ else czero) with
    | none => return none
    | some x => cols := cols.push x
  return some cols      -- cols[j][i] = inv[i][j]

def norm1 (n : Nat) (A : Nat → Nat → C) : Float :=
  (List.range n).foldl (fun m j => let s := (List.range n).foldl (fun s i => s + cabs1 (A i j)) 0.0; if s > m then s else m) 0.0

def floatLA : LinAlg Float where
  cond n A := match inverse n A with
    | none => some (1.0 / 0.0)
    | some cols => some (norm1 n A * norm1 n (fun i j => (cols.getD j #[]).getD i cnan))
  pinv n A := match inverse n A with
    | none => fun _ _ => czero
    | some cols => fun i j => (cols.getD j #[]).getD i cnan
  solve n A b := match gauss n A b with
    | none => none
    | some x => some (fun i => x.getD i cnan)

/-! ### request parsing -/

def chan : M (Option Chan) := do
  let t ← tok
  if t == "o" then return some Chan.out
  if t == "-" then return none
  match (t.drop 1).toNat? with
  | some i => if t.startsWith "i" then return some (Chan.inp i) else throw s!"chan:{t}"
  | none => throw s!"chan:{t}"

def binData : M (Gen.BinData Float) := do
  let XX ← flt
  let YY ← flt
  let xr ← flt
  let xi ← flt
  let S12 ← flt
  let S2 ← flt
  let M2 ← flt
  let navg ← flt
  let fs ← flt
  return { XX := XX, YY := YY, XY := ⟨xr, xi⟩, S12 := S12, S2 := S2, M2 := M2, navg := navg, fs := fs }

def nanBin : Gen.BinData Float := { XX := nan, YY := nan, XY := cnan, S12 := nan, S2 := nan, M2 := nan, navg := nan, fs := nan }

structure CallRec where
  a : Chan
  b : Option Chan
  bins : Array (Gen.BinData Float)

def calls : M (Array CallRec) := do
  let n ← nat
  let mut out : Array CallRec := #[]
  for _ in [0:n] do
    let a ← chan
    let b ← chan
    let nf ← nat
    let mut bins := Array.mkEmpty nf
    for _ in [0:nf] do
      bins := bins.push (← binData)
    match a with
    | some a => out := out.push ⟨a, b, bins⟩
    | none => throw "chan:first"
  return out

def specOf (t : Array CallRec) (a : Chan) (b : Option Chan) : Spec Float :=
  match t.find? (fun r => r.a == a && r.b == b) with
  | some r => ⟨r.bins.size, fun k => r.bins.getD k nanBin⟩
  | none => ⟨0, fun _ => nanBin⟩

def ltfOf (t : Array CallRec) : Ltf Float := ⟨fun a => specOf t a none, fun a b => specOf t a (some b)⟩

def fmtC (z : C) : String := s!"{fmt z.re} {fmt z.im}"

def opSiso : M String := do
  let nf ← nat
  let t ← calls
  let r := Gen.SISO_optimal_spectral_analysis (ltfOf t)
  return joinF ((List.range nf).map r)

/-- optional trailing `H <q·nf complex values>` (row-major `H[i, k]`): the REAL solver's output, to be used instead of a stand-in -/
def optH (q nf : Nat) : M (Option (Array C)) := do
  let r ← get
  if r.pos < r.toks.size then
    let t ← tok
    if t != "H" then throw s!"gmiso:expected H, got {t}"
    let mut a : Array C := Array.mkEmpty (q * nf)
    for _ in [0:q * nf] do
      let re ← flt
      let im ← flt
      a := a.push ⟨re, im⟩
    return some a
  else return none

/-- `np.linalg` stand-in that delivers the REAL solver's column on whichever path the generated code takes: the bin is recognised from
    the (bitwise identical) first entries of the matrix / right-hand side the generated code hands over; `solve` returns the column,
    `pinv` returns the rank-one matrix `H e₀ᵀ / S₀` (so that `pinv @ S` is the column); `cond` = 1 -/
def realLA (_q nf : Nat) (H : Array C) (T00 S0 : Nat → C) : LinAlg Float where
  cond _ _ := some 1.0
  pinv _ A :=
    match (List.range nf).find? (fun k => (A 0 0).re == (T00 k).re && (A 0 0).im == (T00 k).im) with
    | some k => fun i j => if j = 0 then cdiv (H.getD (i * nf + k) cnan) (S0 k) else czero
    | none => fun _ _ => cnan
  solve _ A b :=
    match (List.range nf).find? (fun k => (A 0 0).re == (T00 k).re && (A 0 0).im == (T00 k).im && (b 0).re == (S0 k).re && (b 0).im == (S0 k).im) with
    | some k => some (fun i => H.getD (i * nf + k) cnan)
    | none => some (fun _ => cnan)

def opNumeric : M String := do
  let q ← nat
  let nf ← nat
  let t ← calls
  let Hreal ← optH q nf
  let L0 := Gen.MISO_numeric_optimal_spectral_analysis.locals q (ltfOf t) floatLA
  let la : LinAlg Float := match Hreal with
    | none => floatLA
    | some H => realLA q nf H (fun k => L0.Tmat 0 0 k) (fun k => L0.Svec 0 k)
  let L := Gen.MISO_numeric_optimal_spectral_analysis.locals q (ltfOf t) la
  let ks := List.range nf
  let qs := List.range q
  let s00 := ks.map (fun k => fmt (L.S00 k))
  let tm := qs.flatMap (fun i => qs.flatMap (fun j => ks.map (fun k => fmtC (L.Tmat i j k))))
  let sv := qs.flatMap (fun i => ks.map (fun k => fmtC (L.Svec i k)))
  let hv := qs.flatMap (fun i => ks.map (fun k => fmtC (L.Hvec i k)))
  let ret := ks.map (fun k => fmt (Gen.MISO_numeric_optimal_spectral_analysis q (ltfOf t) la k))
  return " ".intercalate ([fmt (Float.ofNat L.nf)] ++ s00 ++ tm ++ sv ++ hv ++ ret)

/-- SymPy stand-in: the translated equations are affine in the unknowns' values; read off `b - A h` by probing with h = 0, e_j and
    solve `A h = b` per bin -/
def solveEqns (q nf : Nat) (ltf : Ltf Float) : Nat → Nat → C :=
  let probe (h : Nat → C) : Nat → Nat → C :=      -- bin, equation -> value
    let L := Gen.MISO_analytic_optimal_spectral_analysis.locals q ltf (fun p _ => h p)
    fun k i => Gen.MISO_analytic_optimal_spectral_analysis.eqns q (fun key => L.result key k) i
  let r0 := probe (fun _ => czero)
  let rj : Array (Nat → Nat → C) := (Array.range q).map (fun j => probe (fun p => if p = j then ⟨1.0, 0.0⟩ else czero))
  let sols : Array (Array C) := (Array.range nf).map (fun k =>
    match gauss q (fun i j => r0 k i - (rj.getD j (fun _ _ => cnan)) k i) (fun i => r0 k i) with
    | some x => x
    | none => Array.replicate q cnan)
  fun p k => (sols.getD k #[]).getD p cnan

def opAnalytic : M String := do
  let q ← nat
  let nf ← nat
  let t ← calls
  let nk ← nat
  let mut keys : Array String := #[]
  for _ in [0:nk] do
    keys := keys.push (← tok)
  let Hreal ← optH q nf
  let ltf := ltfOf t
  let H : Nat → Nat → C := match Hreal with
    | none => solveEqns q nf ltf
    | some h => fun p k => h.getD (p * nf + k) cnan
  let L := Gen.MISO_analytic_optimal_spectral_analysis.locals q ltf H
  let ks := List.range nf
  let vals := keys.toList.flatMap (fun key => ks.map (fun k => fmtC (L.result key.toList k)))
  let eq := (List.range q).flatMap (fun i => ks.map (fun k =>
    fmtC (Gen.MISO_analytic_optimal_spectral_analysis.eqns q (fun key => L.result key k) i)))
  let ret := ks.map (fun k => fmt (Gen.MISO_analytic_optimal_spectral_analysis q ltf H k))
  return " ".intercalate (vals ++ eq ++ ret)

def opGmiso : M String := do
  let which ← tok
  match which with
  | "siso" => opSiso
  | "numeric" => opNumeric
  | "analytic" => opAnalytic
  | _ => throw s!"gmiso:{which}"

def dispatch (op : String) : Option (M String) :=
  match op with
  | "gmiso" => some opGmiso
  | _ => none

end Drv.ExtMiso
