/-
  SpecKitV.Drv.ExtDfWrappers — driver operations of the generated region `DfWrappers` (extension point: `dispatch op` returns
  `some handler` for the operations this file serves).  Mathlib-free.

  Every operation executes the GENERATED definitions of lean/SpecKitV/Gen/DfWrappers.lean at `Float` on the object store
  `[input]` (the input object has reference 0):
    gdfts  <obj> <fs> <seconds> <cols> <trunc> <inplace> <=suffix>                       Gen.df_timeshift
    gdfdt  <obj> <cols> <order> <inplace> <=suffix> <ntab> {<key> <m> <coeffs>*m}*ntab   Gen.df_detrend
    gdfdefaults                                                                          the keyword defaults as translated
  <obj>   = `0` (not a DataFrame) | `1 <ncols> {<=name> <kind> <values>}*ncols <nrows> <index>`   (<values> = float array: numeric
            values, or opaque tokens for a non-numeric column; <index> = array of naturals: opaque row labels)
  <cols>  = `0` (None) | `1 <k> <=name>*k`;   <trunc> = `N` | `B0` | `B1` | `I<int>` | `O` (any other object)
  <fs>    = a float on the wire; nan / ±inf become PyFloat.nan / pinf / ninf
  reply   = `RAISE` | `OK <ref> <nobjs> <input unchanged 0|1> <ncols> {<=name> <kind> <n> <values…>}*ncols <nrows> <n> <index…>`
            (<ref> = reference of the returned frame: 0 = the input object itself; the frame printed is the returned one;
             "input unchanged" compares object 0 of the new store with the input: labels, kinds, row count, values bit for bit, index)
  `np.polyfit` is a parameter of `Gen.df_detrend` (passed on to `Gen.polynomial_detrend`): the harness supplies, per array it may be
  asked about, NumPy's coefficient vectors for the degrees 0 … m-1; the driver answers a request from the table entry whose key is
  nearest to the requested array (same length; max-abs distance), an empty vector / no entry = "np.polyfit raised".
-/
import SpecKitV.Drv.Base
import SpecKitV.Gen.DfWrappers

namespace Drv.ExtDfWrappers
open Drv
open NpDf

def str : M String := do
  let t ← tok
  match t.toList with
  | '=' :: rest => return String.ofList rest
  | _ => throw s!"str:{t}"

def kindTok : M Char := do
  let t ← tok
  match t.toList with
  | [c] => return c
  | _ => throw s!"kind:{t}"

def frameIn : M (Option (Frame Float)) := do
  let isf ← nat
  if isf == 0 then return none
  let nc ← nat
  let mut cols : Array (Col Float) := Array.mkEmpty nc
  for _ in [0:nc] do
    let name ← str
    let k ← kindTok
    let v ← fltArr
    cols := cols.push ⟨name, k, arrF v⟩
  let nrows ← nat
  let idx ← natArr
  return some ⟨cols.toList, nrows, arrN idx⟩

def colsIn : M (Option (List String)) := do
  let has ← nat
  if has == 0 then return none
  let k ← nat
  let mut l : Array String := Array.mkEmpty k
  for _ in [0:k] do
    l := l.push (← str)
  return some l.toList

def truncIn : M PyTrunc := do
  let t ← tok
  match t.toList with
  | ['N'] => return PyTrunc.none
  | ['B', '0'] => return PyTrunc.bool false
  | ['B', '1'] => return PyTrunc.bool true
  | ['O'] => return PyTrunc.other
  | 'I' :: rest =>
    match (String.ofList rest).toInt? with
    | some z => return PyTrunc.int z
    | none => throw s!"trunc:{t}"
  | _ => throw s!"trunc:{t}"

def posInf : Float := 1.0 / 0.0

def pyFloat (v : Float) : PyFloat Float :=
  if v != v then PyFloat.nan else if v == posInf then PyFloat.pinf else if v == -posInf then PyFloat.ninf else PyFloat.fin v

def sameArr (a b : Arr Float) : Bool :=
  a.n == b.n && (List.range a.n).all (fun i => (a.get i).toBits == (b.get i).toBits)

def sameFrame (a b : Frame Float) : Bool :=
  a.nrows == b.nrows && a.cols.length == b.cols.length
    && (List.zip a.cols b.cols).all (fun (x, y) => x.name == y.name && x.kind == y.kind && sameArr x.vals y.vals)
    && a.index.n == b.index.n && (List.range a.index.n).all (fun i => a.index.get i == b.index.get i)

def frameOut (f : Frame Float) : String :=
  let cols := f.cols.map (fun c => s!"={c.name} {c.kind} {c.vals.n} " ++ joinF ((List.range c.vals.n).map c.vals.get))
  s!"{f.cols.length} " ++ " ".intercalate cols ++ s!" {f.nrows} {f.index.n} "
    ++ " ".intercalate ((List.range f.index.n).map (fun i => toString (f.index.get i)))

def reply (input : Option (Frame Float)) (r : Option (Heap Float × Ref)) : String :=
  match r with
  | none => "RAISE"
  | some (h, ref) =>
    let same := match input with
      | some f => h.isFrame 0 && sameFrame (h.frame 0) f
      | none => !(h.isFrame 0)
    s!"OK {ref} {h.objs.length} {if same then 1 else 0} " ++ frameOut (h.frame ref)

def opTimeshift : M String := do
  let input ← frameIn
  let fs ← flt
  let seconds ← flt
  let cols ← colsIn
  let tr ← truncIn
  let inplace ← nat
  let suffix ← str
  let heap : Heap Float := ⟨[input]⟩
  return reply input (Gen.df_timeshift heap 0 (pyFloat fs) seconds cols tr (inplace == 1) suffix)

def maxDist (x : Arr Float) (key : Array Float) : Float :=
  (List.range x.n).foldl (fun m i => let d := Float.abs (x.get i - key.getD i nan); if d > m || d != d then (if d != d then posInf else d) else m) 0.0

def opDetrend : M String := do
  let input ← frameIn
  let cols ← colsIn
  let order ← int
  let inplace ← nat
  let suffix ← str
  let ntab ← nat
  let mut table : Array (Array Float × Array (Array Float)) := Array.mkEmpty ntab
  for _ in [0:ntab] do
    let key ← fltArr
    let m ← nat
    let mut cs : Array (Array Float) := Array.mkEmpty m
    for _ in [0:m] do
      cs := cs.push (← fltArr)
    table := table.push (key, cs)
  let polyfit : Arr Int → Arr Float → Int → Option (Arr Float) := fun _ x deg =>
    if deg < 0 then none
    else
      let best := table.foldl (fun (acc : Option (Float × Array (Array Float))) (e : Array Float × Array (Array Float)) =>
        if e.1.size != x.n then acc
        else
          let d := maxDist x e.1
          match acc with
          | none => some (d, e.2)
          | some (d0, c0) => if d < d0 then some (d, e.2) else some (d0, c0)) none
      match best with
      | none => none
      | some (_, cs) =>
        let c := cs.getD deg.toNat #[]
        if c.size == 0 then none else some (arrF c)
  let heap : Heap Float := ⟨[input]⟩
  return reply input (Gen.df_detrend polyfit heap 0 cols order (inplace == 1) suffix)

def opDefaults : M String := do
  let tsCols := match (Gen.df_timeshift_columns_default) with | none => "None" | some _ => "list"
  let tsTr := match Gen.df_timeshift_truncate_default with | PyTrunc.none => "None" | _ => "other"
  let dtCols := match (Gen.df_detrend_columns_default) with | none => "None" | some _ => "list"
  return s!"{tsCols} {tsTr} {Gen.df_timeshift_inplace_default} ={Gen.df_timeshift_suffix_default} {dtCols} {Gen.df_detrend_order_default} {Gen.df_detrend_inplace_default} ={Gen.df_detrend_suffix_default}"

def dispatch (op : String) : Option (M String) :=
  match op with
  | "gdfts" => some opTimeshift
  | "gdfdt" => some opDetrend
  | "gdfdefaults" => some opDefaults
  | _ => none

end Drv.ExtDfWrappers
