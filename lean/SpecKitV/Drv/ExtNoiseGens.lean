/-
  SpecKitV.Drv.ExtNoiseGens — driver operations of the generated region `NoiseGens` (extension point: `dispatch op` returns
  `some handler` for the operations this file serves).  Mathlib-free.

  `genobj <class> <constructor arguments> <xi : float array> <k> <op_1 n_1> … <op_k n_k>`
      executes the GENERATED classes (Gen/NoiseGens.lean, translated from speckit/noise.py on every run) at `Float`:
      the object is built by the generated `__init__` over the stream `xi` of standard-normal draws, then every request is served by the
      generated method:  `s n` = `get_series(n)`,  `g n` = `n` calls of `get_sample()`.
      class / constructor arguments:   white fs psd | red fs fmin init | alpha fs fmin fmax alpha init nspec fminvals fmaxvals
                                       | pink fs fmin fmax init nspec fminvals fmaxvals      (init: 0/1; *vals: float arrays)
      reply:  `<all returned samples> | <object state after __init__> | <object state after the last request>`
      state:  white `cur bufn fs rms`;  red `cur bufn fs fmin scaling rms ; a… ; b… ; zi…`;
              alpha/pink `cur bufn fs alpha fmin fmax scaling rms nspec ; n m a… ; n m b… ; n m zi…`
-/
import SpecKitV.Drv.Base
import SpecKitV.Gen.NoiseGens

namespace Drv.ExtNoiseGens
open Drv

def readOps : M (List (Bool × Nat)) := do
  let n ← nat
  let mut l : List (Bool × Nat) := []
  for _ in [0:n] do
    let t ← tok
    let k ← nat
    if t != "s" && t != "g" then throw s!"genobj request:{t}"
    l := (t == "s", k) :: l
  return l.reverse

def runOps {σ : Type} (series : σ → Nat → Arr Float × σ) (sample : σ → Float × σ) (o : σ) (ops : List (Bool × Nat)) :
    Array Float × σ := Id.run do
  let mut out : Array Float := #[]
  let mut o := o
  for (isS, k) in ops do
    if isS then
      let r := series o k
      for i in [0:r.1.n] do
        out := out.push (r.1.get i)
      o := r.2
    else
      for _ in [0:k] do
        let r := sample o
        out := out.push r.1
        o := r.2
  return (out, o)

def dumpArr (a : Arr Float) : String := joinF ((List.range a.n).map a.get)
def dumpArr2 (a : Arr2 Float) : String :=
  s!"{a.n} {a.m} " ++ joinF ((List.range (a.n * a.m)).map (fun k => a.get (k / a.m) (k % a.m)))

def dumpWhite (o : Gen.white_noise Float) : String :=
  s!"{o._rng.cur} {o._buffer.n} {fmt o._fs} {fmt o._rms}"
def dumpRed (o : Gen.red_noise Float) : String :=
  s!"{o._whitenoise._rng.cur} {o._buffer.n} {fmt o._fs} {fmt o._fmin} {fmt o._scaling} {fmt o._whitenoise._rms} ; "
    ++ dumpArr o._a ++ " ; " ++ dumpArr o._b ++ " ; " ++ dumpArr o._zi
def dumpAlpha (o : Gen.alpha_noise Float) : String :=
  s!"{o._whitenoise._rng.cur} {o._buffer.n} {fmt o._fs} {fmt o._alpha} {fmt o._fmin} {fmt o._fmax} {fmt o._scaling} {fmt o._whitenoise._rms} {o._num_spectra} ; "
    ++ dumpArr2 o._a_coeffs ++ " ; " ++ dumpArr2 o._b_coeffs ++ " ; " ++ dumpArr2 o._zi_states

def opGenObj : M String := do
  let cls ← tok
  match cls with
  | "white" =>
    let fs ← flt
    let psd ← flt
    let xi := fnF (← fltArr)
    let ops ← readOps
    let o := Gen.white_noise.__init__ xi fs psd
    let (out, o') := runOps (Gen.white_noise.get_series xi) (Gen.white_noise.get_sample xi) o ops
    return joinF out.toList ++ " | " ++ dumpWhite o ++ " | " ++ dumpWhite o'
  | "red" =>
    let fs ← flt
    let fmin ← flt
    let init ← nat
    let xi := fnF (← fltArr)
    let ops ← readOps
    let o := Gen.red_noise.__init__ xi fs fmin (init != 0)
    let (out, o') := runOps (Gen.red_noise.get_series xi) (Gen.red_noise.get_sample xi) o ops
    return joinF out.toList ++ " | " ++ dumpRed o ++ " | " ++ dumpRed o'
  | "alpha" =>
    let fs ← flt
    let fmin ← flt
    let fmax ← flt
    let alpha ← flt
    let init ← nat
    let nspec ← nat
    let fminv := arrF (← fltArr)
    let fmaxv := arrF (← fltArr)
    let xi := fnF (← fltArr)
    let ops ← readOps
    let o := Gen.alpha_noise.__init__ xi fs fmin fmax alpha (init != 0) nspec fminv fmaxv
    let (out, o') := runOps (Gen.alpha_noise.get_series xi) (Gen.alpha_noise.get_sample xi) o ops
    return joinF out.toList ++ " | " ++ dumpAlpha o ++ " | " ++ dumpAlpha o'
  | "pink" =>
    let fs ← flt
    let fmin ← flt
    let fmax ← flt
    let init ← nat
    let nspec ← nat
    let fminv := arrF (← fltArr)
    let fmaxv := arrF (← fltArr)
    let xi := fnF (← fltArr)
    let ops ← readOps
    let o := Gen.pink_noise.__init__ xi fs fmin fmax (init != 0) nspec fminv fmaxv
    let (out, o') := runOps (Gen.alpha_noise.get_series xi) (Gen.alpha_noise.get_sample xi) o ops
    return joinF out.toList ++ " | " ++ dumpAlpha o ++ " | " ++ dumpAlpha o'
  | _ => throw s!"genobj class:{cls}"

def dispatch (op : String) : Option (M String) :=
  match op with
  | "genobj" => some opGenObj
  | _ => none

end Drv.ExtNoiseGens
