/-
  SpecKitV.Drv.ExtNumpyKernels — driver operations of the generated region `NumpyKernels` (extension point: `dispatch op` returns
  `some handler` for the operations this file serves).  Mathlib-free.

  `npkernel <name> x1 [x2] starts L w omega [Q] chunk` → the 5-tuple of the TRANSLATED NumPy fallback kernel `Gen.<name>` executed in
  Float; the uninitialised memory of every `np.empty` is NaN, so an entry the chunk loop failed to write would poison the result.
  `npgather x starts L` → `rows cols | entries…` of the translated `_gather_segments`.
-/
import SpecKitV.Drv.Base
import SpecKitV.Gen.NumpyKernels

namespace Drv.ExtNumpyKernels
open Drv

def opNpKernel : M String := do
  let name ← tok
  let cross := (name.splitOn "csd").length > 1
  let poly := (name.splitOn "poly").length > 1
  let x1 := arrF (← fltArr)
  let x2 ← if cross then (do let a ← fltArr; pure (arrF a)) else pure x1
  let starts := arrN (← natArr)
  let L ← nat
  let w := arrF (← fltArr)
  let omega ← flt
  let Q ← if poly then arr2 else pure ⟨0, 0, fun _ _ => nan⟩
  let chunk ← nat
  let garbage : Nat → Nat → Float := fun _ _ => nan
  let r ← match name with
    | "_stats_win_only_auto_np" => pure (Gen._stats_win_only_auto_np x1 starts L w omega chunk garbage)
    | "_stats_win_only_csd_np" => pure (Gen._stats_win_only_csd_np x1 x2 starts L w omega chunk garbage)
    | "_stats_detrend0_auto_np" => pure (Gen._stats_detrend0_auto_np x1 starts L w omega chunk garbage)
    | "_stats_detrend0_csd_np" => pure (Gen._stats_detrend0_csd_np x1 x2 starts L w omega chunk garbage)
    | "_stats_poly_auto_np" => pure (Gen._stats_poly_auto_np x1 starts L w omega Q chunk garbage)
    | "_stats_poly_csd_np" => pure (Gen._stats_poly_csd_np x1 x2 starts L w omega Q chunk garbage)
    | _ => throw s!"npkernel:{name}"
  return fmt5 r

def opNpGather : M String := do
  let x := arrF (← fltArr)
  let starts := arrN (← natArr)
  let L ← nat
  let g := Gen._gather_segments x starts L
  let cells := (List.range g.n).flatMap (fun i => (List.range g.m).map (fun j => g.get i j))
  return s!"{g.n} {g.m} | " ++ joinF cells

def dispatch (op : String) : Option (M String) :=
  match op with
  | "npkernel" => some opNpKernel
  | "npgather" => some opNpGather
  | _ => none

end Drv.ExtNumpyKernels
