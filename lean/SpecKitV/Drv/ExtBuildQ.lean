/-
  SpecKitV.Drv.ExtBuildQ — driver operations of the generated region `BuildQ` (extension point: `dispatch op` returns
  `some handler` for the operations this file serves).  Mathlib-free.

  `buildq L order` → `none` when the TRANSLATED `Gen._build_Q L order` (executed in Float) is `none` (the Python raises), else
  `rows cols | entries…` (row-major) of the matrix it returns.
  `buildqproj L order v` → `none`, or the `L` entries of `Q (Qᵀ v)` for the translated basis `Q` (the projector does not depend on the
  signs of the columns of `Q`); sums accumulate left to right.
-/
import SpecKitV.Drv.Base
import SpecKitV.Gen.BuildQ

namespace Drv.ExtBuildQ
open Drv

/-- evaluate every entry once -/
def cells (g : Arr2 Float) : Array (Array Float) :=
  (Array.range g.n).map (fun i => (Array.range g.m).map (fun j => g.get i j))

def opBuildQ : M String := do
  let L ← nat
  let order ← int
  match Gen._build_Q (α := Float) L order with
  | none => return "none"
  | some g =>
    let c := cells g
    return s!"{g.n} {g.m} | " ++ joinF (c.toList.flatMap (fun row => row.toList))

def opBuildQProj : M String := do
  let L ← nat
  let order ← int
  let v ← fltArr
  match Gen._build_Q (α := Float) L order with
  | none => return "none"
  | some g =>
    let c := cells g
    let q : Nat → Nat → Float := fun i j => (c.getD i #[]).getD j nan
    let coef : Array Float := (Array.range g.m).map (fun k => sumRange g.n (fun m => q m k * v.getD m nan))
    let out := (List.range g.n).map (fun n => sumRange g.m (fun k => q n k * coef.getD k nan))
    return joinF out

def dispatch (op : String) : Option (M String) :=
  match op with
  | "buildq" => some opBuildQ
  | "buildqproj" => some opBuildQProj
  | _ => none

end Drv.ExtBuildQ
