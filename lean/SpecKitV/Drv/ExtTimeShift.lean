/-
  SpecKitV.Drv.ExtTimeShift — driver operations of the generated region `TimeShift` (extension point: `dispatch op` returns
  `some handler` for the operations this file serves).  Mathlib-free.

  `gentshift order <data…> <shifts…>`   the TRANSLATED `dsp.timeshift` (Gen.timeshift, regenerated from the source each run) at Float:
                                        `NONE` if it raises, else `n` followed by the `n` output samples
  `gendfshift <col…> fs seconds`         the TRANSLATED per-column action of `dsp.df_timeshift` (Gen.df_timeshift_column)
  `gendfmeta`                            `order | numeric kinds` as translated from df_timeshift
-/
import SpecKitV.Drv.Base
import SpecKitV.Gen.TimeShift

namespace Drv.ExtTimeShift
open Drv

def showOpt (r : Option (Arr Float)) : String :=
  match r with
  | none => "NONE"
  | some a => if a.n = 0 then "0" else s!"{a.n} " ++ joinF ((List.range a.n).map a.get)

def opGenTshift : M String := do
  let order ← int
  let data ← fltArr
  let shifts ← fltArr
  return showOpt (Gen.timeshift (arrF data) (arrF shifts) order)

def opGenDfShift : M String := do
  let col ← fltArr
  let fs ← flt
  let seconds ← flt
  return showOpt (Gen.df_timeshift_column (arrF col) fs seconds)

def opGenDfMeta : M String := do
  return s!"{Gen.df_timeshift_order} | {Gen.df_timeshift_numeric_kinds}"

def dispatch (op : String) : Option (M String) :=
  match op with
  | "gentshift" => some opGenTshift
  | "gendfshift" => some opGenDfShift
  | "gendfmeta" => some opGenDfMeta
  | _ => none

end Drv.ExtTimeShift
