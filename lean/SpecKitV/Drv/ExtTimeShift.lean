/-
  SpecKitV.Drv.ExtTimeShift — driver operations of the generated region `TimeShift` (extension point: `dispatch op` returns
  `some handler` for the operations this file serves).  Mathlib-free.
-/
import SpecKitV.Drv.Base

namespace Drv.ExtTimeShift
open Drv

def dispatch (op : String) : Option (M String) :=
  match op with
  | _ => none

end Drv.ExtTimeShift
