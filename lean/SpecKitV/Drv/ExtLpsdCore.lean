/-
  SpecKitV.Drv.ExtLpsdCore — driver operations of the generated region `LpsdCore` (extension point: `dispatch op` returns
  `some handler` for the operations this file serves).  Mathlib-free.

  The GENERATED definitions of Gen/LpsdCore.lean are executed at `Float`:
    genlpsdcore      `Gen._lpsd_core`                    (per-bin loop with both caches, dispatch, result rows)
    gensinglebin     `Gen.single_bin_kernel_section`     (kernel section of compute_single_bin)
    genplanvalidate  `Gen.plan_validate`                 (plan(): lengths and per-bin tests)
    genplanband      `Gen.plan_band`                     (plan(): band restriction of every per-bin field)
  External routines are supplied by the harness as tables computed by the REAL library: the window callable
  (`np.kaiser(M, beta)` / `win(M)` per requested M — a request the table does not hold, or a Kaiser request with another beta,
  yields an empty array), `_build_Q(L, order)` per (L, order), `_select_backend(K, hint)` per K.
  Kernels: all 18 names run translated code — the Numba kernels (Gen/CoreKernels), the CUDA wrappers (Gen/CudaKernels) and the
  NumPy fallbacks (Gen/NumpyKernels, default `_chunk`), so the Float run also reflects WHICH kernel the translated dispatch called.
-/
import SpecKitV.Drv.Base
import SpecKitV.Gen.CoreKernels
import SpecKitV.Gen.CudaKernels
import SpecKitV.Gen.LpsdCore
import SpecKitV.Gen.NumpyKernels

namespace Drv.ExtLpsdCore
open Drv

def numba6 : NpLC.Kernels6 Float :=
  ⟨Gen._stats_win_only_auto, Gen._stats_win_only_csd, Gen._stats_detrend0_auto, Gen._stats_detrend0_csd,
   Gen._stats_poly_auto, Gen._stats_poly_csd⟩
def cuda6 : NpLC.Kernels6 Float :=
  ⟨Gen._stats_win_only_auto_cuda, Gen._stats_win_only_csd_cuda, Gen._stats_detrend0_auto_cuda, Gen._stats_detrend0_csd_cuda,
   Gen._stats_poly_auto_cuda, Gen._stats_poly_csd_cuda⟩
/-- the NumPy fallbacks as TRANSLATED (Gen/NumpyKernels), called as analysis.py calls them: default `_chunk` of each signature
    (taken from the generated `*_chunk_default`), `np.empty` contents = NaN (every entry is overwritten before it is read) -/
def garbage : Nat → Nat → Float := fun _ _ => nan
def np6 : NpLC.Kernels6 Float :=
  ⟨fun x s L w om => Gen._stats_win_only_auto_np x s L w om Gen._stats_win_only_auto_np_chunk_default garbage,
   fun x1 x2 s L w om => Gen._stats_win_only_csd_np x1 x2 s L w om Gen._stats_win_only_csd_np_chunk_default garbage,
   fun x s L w om => Gen._stats_detrend0_auto_np x s L w om Gen._stats_detrend0_auto_np_chunk_default garbage,
   fun x1 x2 s L w om => Gen._stats_detrend0_csd_np x1 x2 s L w om Gen._stats_detrend0_csd_np_chunk_default garbage,
   fun x s L w om Q => Gen._stats_poly_auto_np x s L w om Q Gen._stats_poly_auto_np_chunk_default garbage,
   fun x1 x2 s L w om Q => Gen._stats_poly_csd_np x1 x2 s L w om Q Gen._stats_poly_csd_np_chunk_default garbage⟩
def family : NpLC.KernelFamily Float := NpLC.KernelFamily.ofBackends numba6 cuda6 np6

def rep {β : Type} (n : Nat) (one : M β) : M (Array β) := do
  let mut a := Array.mkEmpty n
  for _ in [0:n] do
    a := a.push (← one)
  return a

def intArr : M (Array Int) := do
  let n ← nat
  rep n int

def flag : M Bool := do
  let n ← nat
  return n != 0

def emptyArr : Arr Float := ⟨0, fun _ => nan⟩

/-- window table: entries (M, beta, values); `call1 M` ignores beta, `call2 M beta` wants the beta the harness used (to 4 ulp) -/
def winFunc (isK : Bool) (tab : Array (Nat × Float × Array Float)) : NpLC.WinFunc Float :=
  { isKaiser := isK
    call1 := fun m => match tab.find? (fun e => e.1 == m) with
      | some e => arrF e.2.2
      | none => emptyArr
    call2 := fun m beta => match tab.find? (fun e => e.1 == m && Float.abs (e.2.1 - beta) ≤ 1e-15 * Float.abs beta) with
      | some e => arrF e.2.2
      | none => emptyArr }

def readWinTab : M (Array (Nat × Float × Array Float)) := do
  let n ← nat
  rep n (do
    let m ← nat
    let beta ← flt
    let v ← fltArr
    return (m, beta, v))

def readQTab : M (Array ((Nat × Int) × Arr2 Float)) := do
  let n ← nat
  rep n (do
    let l ← nat
    let o ← int
    let q ← arr2
    return ((l, o), q))

def buildQ (tab : Array ((Nat × Int) × Arr2 Float)) (l : Nat) (o : Int) : Arr2 Float :=
  match tab.find? (fun e => e.1.1 == l && e.1.2 == o) with
  | some e => e.2
  | none => ⟨0, 0, fun _ _ => nan⟩

def readSelTab : M (Array (Nat × String)) := do
  let n ← nat
  rep n (do
    let k ← nat
    let s ← tok
    return (k, s))

def selBackend (tab : Array (Nat × String)) (k : Nat) (_hint : String) : String :=
  match tab.find? (fun e => e.1 == k) with
  | some e => e.2
  | none => "unknown-backend"

def b2s (b : Bool) : String := if b then "1" else "0"

/-- `genlpsdcore iscsd order hint fs nx alpha isKaiser x1 x2 wintab qtab seltab nb (f L D)* idx`
    → `raised | i re im MXX MYY S12 S2 M2 | …` -/
def opGenLpsdCore : M String := do
  let iscsd ← flag
  let order ← int
  let hint ← tok
  let fs ← flt
  let nx ← int
  let alpha ← flt
  let isK ← flag
  let x1 ← fltArr
  let x2 ← fltArr
  let wt ← readWinTab
  let qt ← readQTab
  let st ← readSelTab
  let nb ← nat
  let bins ← rep nb (do
    let f ← flt
    let l ← nat
    let d ← natArr
    return (f, l, d))
  let idx ← natArr
  let pf : Arr Float := ⟨nb, fun i => (bins.getD i (nan, 0, #[])).1⟩
  let pL : Arr Nat := ⟨nb, fun i => (bins.getD i (nan, 0, #[])).2.1⟩
  let pD : Arr (Arr Nat) := ⟨nb, fun i => arrN (bins.getD i (nan, 0, #[])).2.2⟩
  let r := Gen._lpsd_core (α := Float) family (buildQ qt) (selBackend st) (winFunc isK wt) alpha order hint (arrF x1) (arrF x2) iscsd fs nx
    pL pD pf idx.toList
  let rows := r.2.map (fun (i, xy, mxx, myy, s12, s2, m2, _) =>
    s!"{i} {fmt xy.re} {fmt xy.im} {fmt mxx} {fmt myy} {fmt s12} {fmt s2} {fmt m2}")
  return " | ".intercalate (b2s r.1 :: rows)

/-- `gensinglebin iscsd order hint fs nx alpha isKaiser x1 x2 wintab qtab seltab freq fres segL starts`
    → `raised XX YY re im S12 S2 M2` -/
def opGenSingleBin : M String := do
  let iscsd ← flag
  let order ← int
  let hint ← tok
  let fs ← flt
  let nx ← int
  let alpha ← flt
  let isK ← flag
  let x1 ← fltArr
  let x2 ← fltArr
  let wt ← readWinTab
  let qt ← readQTab
  let st ← readSelTab
  let freq ← flt
  let fres ← flt
  let segL ← nat
  let starts ← natArr
  let r := Gen.single_bin_kernel_section (α := Float) family (buildQ qt) (selBackend st) (winFunc isK wt) alpha order hint (arrF x1) (arrF x2)
    iscsd fs nx freq fres segL (arrN starts)
  let (xx, yy, xy, s12, s2, m2) := r.2
  return s!"{b2s r.1} {fmt xx} {fmt yy} {fmt xy.re} {fmt xy.im} {fmt s12} {fmt s2} {fmt m2}"

def arrI (a : Array Int) : Arr Int := ⟨a.size, fun i => a.getD i 0⟩

structure PlanIn where
  f : Array Float
  r : Array Float
  b : Array Float
  L : Array Int
  K : Array Int
  navg : Array Int
  O : Array Float
  D : Array (Array Int)

def readPlan : M PlanIn := do
  let f ← fltArr
  let r ← fltArr
  let b ← fltArr
  let l ← intArr
  let k ← intArr
  let navg ← intArr
  let o ← fltArr
  let nd ← nat
  let d ← rep nd intArr
  return ⟨f, r, b, l, k, navg, o, d⟩

def ragged (d : Array (Array Int)) : Arr (Arr Int) := ⟨d.size, fun i => arrI (d.getD i #[])⟩

def showI (a : Arr Int) : String := " ".intercalate ((List.range a.n).map (fun i => toString (a.get i)))
def showF (a : Arr Float) : String := " ".intercalate ((List.range a.n).map (fun i => fmt (a.get i)))

/-- `genplanvalidate Lmin isLpsd nx plan` → `raised nf nD` -/
def opGenPlanValidate : M String := do
  let lmin ← int
  let isLpsd ← flag
  let nx ← int
  let p ← readPlan
  let r := Gen.plan_validate (α := Float) lmin isLpsd nx (arrF p.f) (arrF p.r) (arrF p.b) (arrI p.L) (arrI p.K) (arrI p.navg) (arrF p.O) (ragged p.D)
  return s!"{b2s r.1} {r.2.1} {r.2.2.n}"

/-- `genplanband hasBand lo hi plan` → `raised | nf | f | r | b | L | K | navg | O | nD | D0 ; D1 ; …` -/
def opGenPlanBand : M String := do
  let has ← flag
  let lo ← flt
  let hi ← flt
  let p ← readPlan
  let band : Option (Float × Float) := if has then some (lo, hi) else none
  let r := Gen.plan_band (α := Float) band (arrF p.f) (arrF p.r) (arrF p.b) (arrI p.L) (arrI p.K) (arrI p.navg) (arrF p.O) (ragged p.D)
    (p.f.size : Int) (p.D.toList.map arrI)
  let (f, rr, b, l, k, navg, o, d, nf) := r.2
  let ds := " ; ".intercalate ((List.range d.n).map (fun i => showI (d.get i)))
  return s!"{b2s r.1} | {nf} | {showF f} | {showF rr} | {showF b} | {showI l} | {showI k} | {showI navg} | {showF o} | {d.n} | {ds}"

def dispatch (op : String) : Option (M String) :=
  match op with
  | "genlpsdcore" => some opGenLpsdCore
  | "gensinglebin" => some opGenSingleBin
  | "genplanvalidate" => some opGenPlanValidate
  | "genplanband" => some opGenPlanBand
  | _ => none

end Drv.ExtLpsdCore
