/-
  SpecKitV.Drv.Base — token reader and float/array (de)serialisation shared by the line-protocol driver (Driver.lean)
  and by the per-region driver extensions (SpecKitV/Drv/Ext*.lean).  Mathlib-free.
-/
import SpecKitV.Num

namespace Drv

def hexVal (c : Char) : Option Nat :=
  if '0' ≤ c ∧ c ≤ '9' then some (c.toNat - '0'.toNat)
  else if 'a' ≤ c ∧ c ≤ 'f' then some (c.toNat - 'a'.toNat + 10)
  else none

def parseHex (s : String) : Option UInt64 :=
  s.foldl (fun acc c => match acc, hexVal c with
    | some a, some v => some (a * 16 + v.toUInt64)
    | _, _ => none) (some 0)

def hexDigit (n : Nat) : Char := if n < 10 then Char.ofNat (48 + n) else Char.ofNat (87 + n)

def toHex (u : UInt64) : String :=
  String.ofList ((List.range 16).map (fun i => hexDigit ((u >>> (60 - 4 * i).toUInt64) &&& 15).toNat))

def fmt (x : Float) : String := toHex x.toBits

/-- token reader -/
structure R where
  toks : Array String
  pos : Nat := 0

abbrev M := StateT R (Except String)

def tok : M String := do
  let r ← get
  if h : r.pos < r.toks.size then
    set { r with pos := r.pos + 1 }
    return r.toks[r.pos]
  else throw "eol"

def nat : M Nat := do
  let t ← tok
  match t.toNat? with
  | some n => return n
  | none => throw s!"nat:{t}"

def int : M Int := do
  let t ← tok
  match t.toInt? with
  | some n => return n
  | none => throw s!"int:{t}"

def flt : M Float := do
  let t ← tok
  match parseHex t with
  | some u => return Float.ofBits u
  | none => throw s!"float:{t}"

def fltArr : M (Array Float) := do
  let n ← nat
  let mut a := Array.mkEmpty n
  for _ in [0:n] do
    a := a.push (← flt)
  return a

def natArr : M (Array Nat) := do
  let n ← nat
  let mut a := Array.mkEmpty n
  for _ in [0:n] do
    a := a.push (← nat)
  return a

def nan : Float := 0.0 / 0.0
def arrF (a : Array Float) : Arr Float := ⟨a.size, fun i => a.getD i nan⟩
def arrN (a : Array Nat) : Arr Nat := ⟨a.size, fun i => a.getD i 0⟩
def fnF (a : Array Float) : Nat → Float := fun i => a.getD i nan

def arr2 : M (Arr2 Float) := do
  let n ← nat
  let m ← nat
  let mut a := Array.mkEmpty (n * m)
  for _ in [0:n * m] do
    a := a.push (← flt)
  return ⟨n, m, fun i j => a.getD (i * m + j) nan⟩

def fmt5 (t : Float × Float × Float × Float × Float) : String :=
  s!"{fmt t.1} {fmt t.2.1} {fmt t.2.2.1} {fmt t.2.2.2.1} {fmt t.2.2.2.2}"

def joinF (l : List Float) : String := " ".intercalate (l.map fmt)

end Drv
