/-
  SpecKitV.Drv.ExtRms — driver operations of the generated region `Rms` (extension point: `dispatch op` returns
  `some handler` for the operations this file serves).  Mathlib-free.

  Every operation executes the GENERATED definitions of lean/SpecKitV/Gen/Rms.lean at `Float`:
    gcrop    <x> <y> <xmin> <xmax>                      ->  RAISE | n x'_0 … x'_{n-1} y'_0 … y'_{n-1}      Gen.crop_data
    grms     <f> <asd> 0 | <f> <asd> 1 <b0> <b1>        ->  RAISE | value                                  Gen.integral_rms
    ggetrms  <iscsd> <f> <asd> 0 | … 1 <b0> <b1>        ->  RAISE | value                                  Gen.get_rms
    gdetrend <x> <order> <m> <coeffs_0> … <coeffs_{m-1}> ->  RAISE | n r_0 … r_{n-1}                        Gen.polynomial_detrend
  (<v> = length followed by the elements as 16-hex-digit bit patterns).  A band edge / crop bound that is ±inf on the wire becomes
  `XR.pinf` / `XR.ninf`, anything else `XR.fin`.  `np.polyfit` is a parameter of `Gen.polynomial_detrend`: the harness supplies the
  coefficient vectors NumPy returns for the degrees 0 … m-1 and the driver answers the request `polyfit t x deg` from that table
  (an empty entry = NumPy's polyfit raised for that degree: `none`, as for a degree outside the table).
-/
import SpecKitV.Drv.Base
import SpecKitV.Gen.Rms

namespace Drv.ExtRms
open Drv
open Np.Rms

def posInf : Float := 1.0 / 0.0

def toXR (v : Float) : XR Float :=
  if v == posInf then XR.pinf else if v == -posInf then XR.ninf else XR.fin v

def outArr (a : Arr Float) : String := joinF ((List.range a.n).map a.get)

def optBand : M (Option (XR Float × XR Float)) := do
  let hasBand ← nat
  if hasBand == 1 then
    let a ← flt
    let b ← flt
    return some (toXR a, toXR b)
  else
    return none

def opCrop : M String := do
  let x ← fltArr
  let y ← fltArr
  let lo ← flt
  let hi ← flt
  match Gen.crop_data (arrF x) (arrF y) (toXR lo) (toXR hi) with
  | none => return "RAISE"
  | some (xc, yc) => return s!"{xc.n} {yc.n} {outArr xc} {outArr yc}"

def opRms : M String := do
  let f ← fltArr
  let y ← fltArr
  let band ← optBand
  match Gen.integral_rms (arrF f) (arrF y) band with
  | none => return "RAISE"
  | some v => return fmt v

def opGetRms : M String := do
  let iscsd ← nat
  let f ← fltArr
  let y ← fltArr
  let band ← optBand
  match Gen.get_rms (iscsd == 1) (arrF f) (arrF y) band with
  | none => return "RAISE"
  | some v => return fmt v

def opDetrend : M String := do
  let x ← fltArr
  let order ← int
  let m ← nat
  let mut table : Array (Array Float) := Array.mkEmpty m
  for _ in [0:m] do
    table := table.push (← fltArr)
  -- the contract parameter: NumPy's own answer for the requested degree; an empty entry (or a degree outside the table) means
  -- "np.polyfit raised" (`none`)
  let polyfit : Arr Int → Arr Float → Int → Option (Arr Float) := fun _ _ deg =>
    if deg < 0 then none
    else
      let c := table.getD deg.toNat #[]
      if c.size == 0 then none else some (arrF c)
  match Gen.polynomial_detrend polyfit (arrF x) order with
  | none => return "RAISE"
  | some r => return s!"{r.n} {outArr r}"

def dispatch (op : String) : Option (M String) :=
  match op with
  | "gcrop" => some opCrop
  | "grms" => some opRms
  | "ggetrms" => some opGetRms
  | "gdetrend" => some opDetrend
  | _ => none

end Drv.ExtRms
