/-
  SpecKitV.Drv.ExtRms — driver operations of the generated region `Rms` (extension point: `dispatch op` returns
  `some handler` for the operations this file serves).  Mathlib-free.
-/
import SpecKitV.Drv.Base

namespace Drv.ExtRms
open Drv

def dispatch (op : String) : Option (M String) :=
  match op with
  | _ => none

end Drv.ExtRms
