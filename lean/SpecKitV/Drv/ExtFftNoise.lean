/-
  SpecKitV.Drv.ExtFftNoise — driver operations of the generated region `FftNoise` (extension point: `dispatch op` returns
  `some handler` for the operations this file serves).  Mathlib-free.

  Everything here executes the GENERATED definitions of Gen/FftNoise.lean (regenerated from speckit/noise.py on every run) at
  `Float`, or one of the NumPy contracts of Np/FftNoise.lean on its own (`np*` operations), for the differential run of C18.
    genfftspec  <cx f> <u>                 → `rej n re im …`    Gen.fftnoise_rejects, Gen.fftnoise_spectrum (the array handed to ifft)
    genfftnoise <cx f> <u>                 → `n x…`             Gen.fftnoise (series; NpFN.ifft is O(N²): small N only)
    genband     lo hi N fs                 → `rej n re im …`    Gen.band_limited_noise_rejects / _spectrum (the array handed to fftnoise)
    genbandnoise lo hi N fs <u>            → `n x…`             Gen.band_limited_noise (series, small N only)
    genalpha    fs fmin fmax alpha         → `rej num | fs alpha fmin fmax scaling | a (n×2) | b (n×2) | lo… | hi…`
    genwhite    fs psd                     → `fs rms`
    npfftfreq n d, npifft <cx F>, npslice n <start|none> <stop|none> step
-/
import SpecKitV.Drv.Base
import SpecKitV.Gen.FftNoise

namespace Drv.ExtFftNoise
open Drv

def cxArr : M (Arr (Cx Float)) := do
  let n ← nat
  let mut a : Array (Cx Float) := Array.mkEmpty n
  for _ in [0:n] do
    let re ← flt
    let im ← flt
    a := a.push ⟨re, im⟩
  return ⟨a.size, fun i => a.getD i ⟨nan, nan⟩⟩

def fmtCx (a : Arr (Cx Float)) : String :=
  s!"{a.n}" ++ String.join ((List.range a.n).map (fun k => s!" {fmt (a.get k).re} {fmt (a.get k).im}"))

def fmtArr (a : Arr Float) : String :=
  s!"{a.n}" ++ String.join ((List.range a.n).map (fun k => s!" {fmt (a.get k)}"))

def fmtA2 (a : Arr2 Float) : String :=
  s!"{a.n} {a.m}" ++ String.join ((List.range a.n).map (fun i => String.join ((List.range a.m).map (fun j => s!" {fmt (a.get i j)}"))))

def b01 (b : Bool) : String := if b then "1" else "0"

def optInt : M (Option Int) := do
  let t ← tok
  if t == "none" then return none
  match t.toInt? with
  | some v => return some v
  | none => throw s!"optint:{t}"

def opGenFftSpec : M String := do
  let f ← cxArr
  let u := fnF (← fltArr)
  let rej := Gen.fftnoise_rejects f u
  return s!"{b01 rej} " ++ fmtCx (Gen.fftnoise_spectrum f u)

def opGenFftNoise : M String := do
  let f ← cxArr
  let u := fnF (← fltArr)
  return fmtArr (Gen.fftnoise f u)

def opGenBand : M String := do
  let lo ← flt
  let hi ← flt
  let N ← int
  let fs ← flt
  let u : Nat → Float := fun _ => nan
  let rej := Gen.band_limited_noise_rejects lo hi N fs u
  return s!"{b01 rej} " ++ fmtCx (Gen.band_limited_noise_spectrum lo hi N fs u)

def opGenBandNoise : M String := do
  let lo ← flt
  let hi ← flt
  let N ← int
  let fs ← flt
  let u := fnF (← fltArr)
  return fmtArr (Gen.band_limited_noise lo hi N fs u)

def opGenAlpha : M String := do
  let fs ← flt
  let fmin ← flt
  let fmax ← flt
  let alpha ← flt
  let rej := Gen.alpha_noise_init_rejects fs fmin fmax alpha
  let (fs', al', num, gmin, gmax, sc, a, b, lo, hi) := Gen.alpha_noise_init fs fmin fmax alpha
  return s!"{b01 rej} {num} | {fmt fs'} {fmt al'} {fmt gmin} {fmt gmax} {fmt sc} | " ++ fmtA2 a ++ " | " ++ fmtA2 b
    ++ " | " ++ fmtArr lo ++ " | " ++ fmtArr hi

def opGenWhite : M String := do
  let fs ← flt
  let psd ← flt
  let (fs', rms) := Gen.white_noise_init fs psd
  return s!"{fmt fs'} {fmt rms}"

def opNpFftfreq : M String := do
  let n ← nat
  let d ← flt
  return fmtArr (NpFN.fftfreq n d)

def opNpIfft : M String := do
  let F ← cxArr
  return fmtCx (NpFN.ifft F)

def opNpSlice : M String := do
  let n ← nat
  let a ← optInt
  let b ← optInt
  let st ← int
  let s := NpFN.pySlice n a b st
  return s!"{s.start} {s.step} {s.len}"

def dispatch (op : String) : Option (M String) :=
  match op with
  | "genfftspec" => some opGenFftSpec
  | "genfftnoise" => some opGenFftNoise
  | "genband" => some opGenBand
  | "genbandnoise" => some opGenBandNoise
  | "genalpha" => some opGenAlpha
  | "genwhite" => some opGenWhite
  | "npfftfreq" => some opNpFftfreq
  | "npifft" => some opNpIfft
  | "npslice" => some opNpSlice
  | _ => none

end Drv.ExtFftNoise
