/-
  SpecKitV.Drv.ExtFftNoise — driver operations of the generated region `FftNoise` (extension point: `dispatch op` returns
  `some handler` for the operations this file serves).  Mathlib-free.
-/
import SpecKitV.Drv.Base

namespace Drv.ExtFftNoise
open Drv

def dispatch (op : String) : Option (M String) :=
  match op with
  | _ => none

end Drv.ExtFftNoise
