/-
  SpecKitV.Np.TimeShift — STATED CONTRACTS of the NumPy routines the translated `dsp.timeshift` refers to
  (region `TimeShift`, generated file `SpecKitV/Gen/TimeShift.lean`).  Each definition below says what one NumPy call
  returns on 1-D input; they are definitions (never axioms), executable at `Float` (the driver runs the generated
  code through them against the real NumPy on every check run) and unfolded in the proofs at `ℝ`.
  Arrays are `Arr β` (length + index function); an index outside the length is never read by translated code whose
  source indexes in range.  Mathlib-free.
-/
import SpecKitV.Num

namespace NpTS

/-- `np.all(v)` of a boolean vector (vacuously true on an empty one) -/
def all (v : Arr Bool) : Bool := forRange v.n true (fun i acc => acc && v.get i)

/-- `a.item()` of a size-1 array: its only element -/
def item {β : Type} (a : Arr β) : β := a.get 0

/-- a Python scalar result, represented as the one-element array (`np.asarray(x)` of a scalar has size 1) -/
def ofScalar {β : Type} (x : β) : Arr β := ⟨1, fun _ => x⟩

/-- `np.repeat(x, n)` of a scalar `x` -/
def «repeat» {β : Type} (x : β) (n : Int) : Arr β := ⟨n.toNat, fun _ => x⟩

/-- one bound of a Python slice on an axis of length `n`: negative counts from the end, then clamped into `0..n` -/
def sliceBound (n : Nat) (b : Int) : Nat :=
  if b < 0 then Int.toNat ((n : Int) + b) else (if b > (n : Int) then n else Int.toNat b)

/-- Python basic slice `a[lo:hi]` (step 1): bounds clamped, empty if `hi' ≤ lo'` -/
def slice {β : Type} (a : Arr β) (lo hi : Int) : Arr β :=
  let l := sliceBound a.n lo
  let u := sliceBound a.n hi
  ⟨u - l, fun i => a.get (l + i)⟩

/-- `a[::-1]` -/
def reverse {β : Type} (a : Arr β) : Arr β := ⟨a.n, fun i => a.get (a.n - 1 - i)⟩

/-- `np.pad(a, (l, r), mode="edge")`: the first / last value is held (for the inputs NumPy rejects see `padRejects`) -/
def padEdge {β : Type} (a : Arr β) (l r : Int) : Arr β :=
  ⟨l.toNat + a.n + r.toNat, fun i =>
    if i < l.toNat then a.get 0
    else if i - l.toNat ≥ a.n then a.get (a.n - 1)
    else a.get (i - l.toNat)⟩

/-- `np.pad(a, (l, r))` (default `mode="constant"`, `constant_values=0`): zeros outside -/
def padZero {α : Type} [RealLike α] (a : Arr α) (l r : Int) : Arr α :=
  ⟨l.toNat + a.n + r.toNat, fun i =>
    if i < l.toNat ∨ i - l.toNat ≥ a.n then RealLike.ofNat 0 else a.get (i - l.toNat)⟩

/-- `np.correlate(a, v, mode="valid")` for real 1-D input: `c[n] = Σ_k a[n+k]·v[k]`, `len(a) - len(v) + 1` outputs;
    if `v` is the longer one NumPy swaps the operands and reverses the result -/
def correlateValid {α : Type} [RealLike α] (a v : Arr α) : Arr α :=
  if v.n ≤ a.n then ⟨a.n - v.n + 1, fun n => sumRange v.n (fun k => a.get (n + k) * v.get k)⟩
  else ⟨v.n - a.n + 1, fun n => sumRange a.n (fun k => v.get ((v.n - a.n - n) + k) * a.get k)⟩

/-- `np.convolve(a, v, mode="valid")` = correlation with the reversed second operand -/
def convolveValid {α : Type} [RealLike α] (a v : Arr α) : Arr α := correlateValid a (reverse v)

/-- `np.clip(x, lo, hi)` on integers: `minimum(maximum(x, lo), hi)` -/
def clip (x lo hi : Int) : Int :=
  let y := if x ≥ lo then x else lo
  if y ≤ hi then y else hi

/-- `np.lib.stride_tricks.sliding_window_view(a, w)`: row `i` is `a[i : i+w]`, `len(a) - w + 1` rows
    (NumPy rejects `w > len(a)`) -/
def slidingWindow {β : Type} (a : Arr β) (w : Int) : Arr (Arr β) :=
  ⟨a.n + 1 - w.toNat, fun i => ⟨w.toNat, fun j => a.get (i + j)⟩⟩

/-- integer ("fancy") indexing along the first axis `rows[idx]`: one row per index, a negative index counts from the end
    (NumPy raises IndexError outside `-len .. len-1`) -/
def take {β : Type} (rows : Arr β) (idx : Arr Int) : Arr β :=
  ⟨idx.n, fun i => rows.get (Np.pyIndex rows.n (idx.get i))⟩

/-- `np.einsum("ij,ij->i", A, B)`: row-wise dot product -/
def einsumRowDot {α : Type} [RealLike α] (A B : Arr (Arr α)) : Arr α :=
  ⟨A.n, fun i => sumRange (A.get i).n (fun j => (A.get i).get j * (B.get i).get j)⟩

/-! ### where NumPy raises (ValueError / IndexError): the translated statement is then `none` -/

/-- `a[i]` with an integer `i` on an axis of length `n`: IndexError outside `-n .. n-1` -/
def indexRejects (n : Nat) (i : Int) : Bool := decide (i < -(n : Int) ∨ i ≥ (n : Int))

/-- `rows[idx]` with an integer index array: IndexError if any index is outside `-n .. n-1` -/
def takeRejects (n : Nat) (idx : Arr Int) : Bool :=
  !(all ⟨idx.n, fun i => decide (-(n : Int) ≤ idx.get i ∧ idx.get i < (n : Int))⟩)

/-- `np.pad(a, (l, r), mode=…)` with `len(a) = n`: ValueError for a negative width, and for `mode="edge"` on an empty array that
    is actually extended -/
def padRejects (n : Nat) (l r : Int) (edge : Bool) : Bool :=
  decide (l < 0 ∨ r < 0) || (edge && decide (n = 0 ∧ (l > 0 ∨ r > 0)))

/-- `np.einsum("ij,ij->i", A, B)`: ValueError unless both operands have the same shape (broadcasting of a size-1 axis is not
    modelled: translated as a rejection) -/
def einsumRejects {β : Type} (A B : Arr (Arr β)) : Bool :=
  decide (A.n ≠ B.n) || !(all ⟨A.n, fun i => decide ((A.get i).n = (B.get i).n)⟩)

end NpTS
