/-
  SpecKitV.Np.FftNoise — Lean DEFINITIONS of the NumPy primitives the generated region `FftNoise` (Gen/FftNoise.lean,
  translated from speckit/noise.py: fftnoise, band_limited_noise, alpha_noise.__init__, white_noise.__init__) refers to.
  Each definition is the *stated contract* of an external routine (listed in vk/props/C18.py `CONTRACTS`); they are
  definitions, never axioms, and every one of them is executed in `Float` against the real NumPy routine by the
  correspondence run of C18 (`np-contract:*` histogram keys).  Mathlib-free (linked into the driver).
-/
import SpecKitV.Num

namespace NpFN
open RealLike

/-! ### elementwise evaluation (ufuncs): a NumPy vector expression is evaluated eagerly, element by element -/

/-- `ufunc(a)` / `a ∘ scalar`: one result element per element of `a` -/
def map {β γ : Type} (g : β → γ) (a : Arr β) : Arr γ := Arr.memo ⟨a.n, fun i => g (a.get i)⟩

/-- `a ∘ b` for two vectors of the SAME length.  NumPy raises on a length mismatch (unless one side has length 1, which the
    translated sources never rely on); raising is not modelled, instead a mismatch yields the EMPTY vector, an observable
    marker: the equality theorems state the length of every result, so a translated source that combines vectors of
    different lengths cannot be proved equal to the model, and the differential run sees a wrong length. -/
def zipWith {β γ δ : Type} (g : β → γ → δ) (a : Arr β) (b : Arr γ) : Arr δ :=
  Arr.memo ⟨if a.n = b.n then a.n else 0, fun i => g (a.get i) (b.get i)⟩

/-- `np.zeros(n)`, `np.ones_like(a)`, … : a constant vector -/
def full {β : Type} (n : Nat) (v : β) : Arr β := ⟨n, fun _ => v⟩

/-- `np.arange(n)` -/
def arange (n : Nat) : Arr Int := ⟨n, fun i => (i : Int)⟩

/-! ### basic slicing: Python `slice.indices` / CPython `PySlice_AdjustIndices` -/

/-- a normalised slice of an axis: element `j < len` of the slice is index `start + j * step` of the axis -/
structure Slice where
  start : Int
  step : Int
  len : Nat

/-- `a[start:stop:step]` on an axis of length `n` (`none` = omitted bound), exactly as CPython normalises it:
    a negative bound counts from the end; a bound still out of range is clipped to `0 / n` (`-1 / n-1` for a negative
    step); the number of elements is `⌈(stop - start) / step⌉` clipped at 0. -/
def pySlice (n : Nat) (start stop : Option Int) (step : Int) : Slice :=
  let len : Int := (n : Int)
  let lo : Int := if step < 0 then -1 else 0
  let hi : Int := if step < 0 then len - 1 else len
  let adj : Int → Int := fun v =>
    if v < 0 then (if v + len < 0 then lo else v + len)
    else if v ≥ len then hi else v
  let s : Int := match start with
    | some v => adj v
    | none => if step < 0 then len - 1 else 0
  let e : Int := match stop with
    | some v => adj v
    | none => if step < 0 then -1 else len
  let cnt : Int :=
    if step < 0 then (if e < s then (s - e - 1) / (-step) + 1 else 0)
    else (if s < e then (e - s - 1) / step + 1 else 0)
  ⟨s, step, cnt.toNat⟩

/-- the VALUE of `a[slice]` (read before any later store: the sources only use it inside an expression that NumPy
    evaluates into a fresh array, e.g. `np.conj(F[1:Np+1])`, `F[1:Np+1] * rot`) -/
def sliceGet {β : Type} (a : Arr β) (s : Slice) : Arr β :=
  ⟨s.len, fun j => a.get (Int.toNat (s.start + (j : Int) * s.step))⟩

/-- `a[slice] = v` for a vector `v` of the slice's length: position `start + j*step` receives `v[j]`, every other
    position keeps its value.  A length mismatch (NumPy: ValueError, except for broadcasting from length 1) yields the
    empty vector, see `zipWith`. -/
def sliceSet {β : Type} (a : Arr β) (s : Slice) (v : Arr β) : Arr β :=
  Arr.memo ⟨if v.n = s.len then a.n else 0, fun k =>
    let d : Int := (k : Int) - s.start
    let j : Int := d / s.step
    if s.step ≠ 0 ∧ d % s.step = 0 ∧ 0 ≤ j ∧ j < (s.len : Int) then v.get j.toNat else a.get k⟩

/-- `a[mask] = c` for a boolean mask of the same length (NumPy: IndexError otherwise; marker as in `zipWith`) and a scalar `c` -/
def maskSet {β : Type} (a : Arr β) (m : Arr Bool) (c : β) : Arr β :=
  Arr.memo ⟨if m.n = a.n then a.n else 0, fun k => if m.get k then c else a.get k⟩

/-- `np.vstack([c0, c1]).T`: the matrix whose two COLUMNS are `c0`, `c1` -/
def columns2 {β : Type} (c0 c1 : Arr β) : Arr2 β := ⟨c0.n, 2, fun i j => if j = 0 then c0.get i else c1.get i⟩

/-! ### random generator, FFT helpers -/

/-- `Generator.random(n)`: the next `n` draws of the generator's stream of uniforms `u`, `pos` draws having been
    consumed before -/
def rngRandom {β : Type} (u : Nat → β) (pos n : Nat) : Arr β := ⟨n, fun i => u (pos + i)⟩

variable {α : Type} [RealLike α]

/-- `np.fft.fftfreq(n, d)` as NumPy defines it:
    `val = 1.0/(n*d); N = (n-1)//2 + 1; results[:N] = arange(0, N); results[N:] = arange(-(n//2), 0); return results * val` -/
def fftfreq (n : Nat) (d : α) : Arr α :=
  let val : α := ofNat 1 / (ofNat n * d)
  let N : Nat := (n - 1) / 2 + 1
  Arr.memo ⟨n, fun k =>
    let r : Int := if k < N then (k : Int) else -(((n / 2 : Nat)) : Int) + ((k : Int) - (N : Int))
    ofInt r * val⟩

/-- `np.fft.ifft(F)`: the inverse DFT, `x[m] = (1/N) Σ_k F[k] · exp(+2πi·k·m/N)` (summed in index order) -/
def ifft (F : Arr (Cx α)) : Arr (Cx α) :=
  Arr.memo ⟨F.n, fun m =>
    let s : Cx α := forRange F.n (Cx.ofReal (ofNat 0)) (fun k acc =>
      let ang : α := ofNat 2 * pi * ofNat k * ofNat m / ofNat F.n
      acc + F.get k * (⟨cos ang, sin ang⟩ : Cx α))
    Cx.divReal s (ofNat F.n)⟩

end NpFN
