/-
  SpecKitV.Np.ConfigGlue — the Python-object vocabulary the TRANSLATED configuration glue of `SpectrumAnalyzer`
  (Gen/ConfigGlue.lean, generated from speckit/analysis.py by vk/regions/config_glue.py) is written in.
  Every definition is the stated contract of a Python builtin / object protocol (listed in vk/props/C14.py CONTRACTS).
  Definitions only, no axioms; Mathlib-free (linked into the driver).
-/
import SpecKitV.Num

namespace CG

/-- exception classes raised by the glue (`Other` = whatever an external callable raised, e.g. `SystemExit` from `ltf_plan`) -/
inductive PyExc where
  | ValueError | TypeError | RuntimeError | KeyError | Other
deriving DecidableEq, Repr

/-- a Python scalar as it can sit in the `config` dictionary: `None`, `bool`, `int`, `float`, `str` -/
inductive PyVal (α : Type) where
  | none
  | bool (b : Bool)
  | int (z : Int)
  | real (x : α)
  | str (s : String)

namespace PyVal
variable {α : Type}

/-- `None if v is None else int(v)` stored in the config, handed on as a keyword value -/
def ofOptInt : Option Int → PyVal α
  | some z => .int z
  | Option.none => .none

/-- `v == "literal"`: only a `str` can be equal to a string literal -/
def eqStr : PyVal α → String → Bool
  | .str s, t => s == t
  | _, _ => false

/-- Python `float(v)`: `None` raises (`Option.none`), `bool`/`int`/`float` convert, a `str` is parsed (`parse`, a parameter:
    the harness supplies CPython's answer for the strings it uses) -/
def float? [RealLike α] (parse : String → Option α) : PyVal α → Option α
  | .none => Option.none
  | .bool b => some (if b then RealLike.ofNat 1 else RealLike.ofNat 0)
  | .int z => some (RealLike.ofInt z)
  | .real x => some x
  | .str s => parse s

end PyVal

/-- an argument that may be a string, a callable (described by `F`) or something else:
    `isinstance(x, str)` / `callable(x)` are the constructor tests -/
inductive PyObj (F : Type) where
  | str (s : String)
  | fn (f : F)
  | other

/-- window callables the glue distinguishes BY IDENTITY: `numpy.kaiser`, `scipy.signal.windows.kaiser`, `numpy.hanning`,
    any other callable (`custom id`, two customs are the same object iff the ids agree) -/
inductive WinFn where
  | np_kaiser | sp_kaiser | np_hanning
  | custom (id : Nat)
deriving DecidableEq, Repr

/-- scheduler callables: the four functions imported from speckit.schedulers, or a user callable with its `__name__` (if it has one) -/
inductive SchedId where
  | lpsd_plan | ltf_plan | vectorized_ltf_plan | new_ltf_plan
  | custom (name : Option String) (id : Nat)
deriving DecidableEq, Repr

/-- `f.__name__` of a scheduler callable (a `def f` has `__name__ == "f"`) -/
def SchedId.name : SchedId → Option String
  | .lpsd_plan => some "lpsd_plan"
  | .ltf_plan => some "ltf_plan"
  | .vectorized_ltf_plan => some "vectorized_ltf_plan"
  | .new_ltf_plan => some "new_ltf_plan"
  | .custom n _ => n

/-! ### dictionaries with string keys (insertion-ordered association lists; the translator rejects duplicate literal keys) -/

abbrev PyDict (V : Type) := List (String × V)

/-- `k in d` -/
def dictHas {V : Type} (d : PyDict V) (k : String) : Bool := d.any (fun kv => kv.1 == k)

/-- `d[k]` (`none` = KeyError) -/
def dictGet? {V : Type} : PyDict V → String → Option V
  | [], _ => none
  | (k', v) :: rest, k => if k' == k then some v else dictGet? rest k

/-- `k in d` where `k` is a `str` or `None` (`None` is never a key of these tables) -/
def dictHasOpt {V : Type} (d : PyDict V) : Option String → Bool
  | some k => dictHas d k
  | none => false

/-- `d[k]` where `k` is a `str` or `None` -/
def dictGetOpt? {V : Type} (d : PyDict V) : Option String → Option V
  | some k => dictGet? d k
  | none => none

/-- utils.is_function_in_dict: `f in d.values()` -/
def is_function_in_dict {V : Type} [DecidableEq V] (f : V) (d : PyDict V) : Bool := d.any (fun kv => kv.2 == f)

/-- utils.get_key_for_function: the first key whose value is `f`, else `None` -/
def get_key_for_function {V : Type} [DecidableEq V] (f : V) : PyDict V → Option String
  | [] => none
  | (k, v) :: rest => if v == f then some k else get_key_for_function f rest

/-- `s.lower()` (ASCII; the harness uses ASCII strings only) -/
def strLower (s : String) : String := s.toLower

/-- `np.isfinite(x)`: `x - x == 0` — false exactly for ±inf and NaN in `Float`, always true in `ℝ` -/
def isfinite {α : Type} [RealLike α] (x : α) : Bool := RealLike.beq (x - x) (RealLike.ofNat 0)

/-! ### the scheduler call protocol -/

/-- the keyword arguments `plan()` builds for the scheduler (`None` = keyword absent).  A structure, because the callee
    receives `**kwargs`: the order in which the caller wrote them is immaterial. -/
structure SchedKw (α : Type) where
  N : Option (PyVal α) := none
  fs : Option (PyVal α) := none
  olap : Option (PyVal α) := none
  bmin : Option (PyVal α) := none
  Lmin : Option (PyVal α) := none
  Kdes : Option (PyVal α) := none
  num_patch_pts : Option (PyVal α) := none
  Jdes : Option (PyVal α) := none

/-- a scheduler callable: its `__name__` (if any) and what a call with keyword arguments returns or raises -/
structure SchedFn (α P : Type) where
  name : Option String
  call : SchedKw α → Except PyExc P

/-- the entries of `self.config` / attributes of `self` that `plan()` READS and never writes -/
structure PlanCfg (α P : Type) where
  nx : Int
  fs : α
  olap : PyVal α
  bmin : α
  Lmin : Int
  Kdes : Int
  num_patch_pts : Option Int
  order : Int
  final_olap : α
  force_target_nf : Bool
  band : Option (α × α)
  scheduler_func : SchedFn α P

/-- the analyzer state `plan()` reads AND writes: `self.config["Jdes"]` and `self._plan_cache` -/
structure PlanSt (P : Type) where
  jdes : Int
  cache : Option P

/-- how a call of `plan()` ends -/
inductive PlanRes (P : Type) where
  | ok (p : P)
  | okNone            -- returned `None` (only `return self._plan_cache` with an empty cache could do that)
  | raised (e : PyExc)

/-- `return self._plan_cache` -/
def PlanRes.ofOpt {P : Type} : Option P → PlanRes P
  | some p => .ok p
  | none => .okNone

/-- truthiness of `self._plan_cache` (`if self._plan_cache:`): `None` is falsy, a dict is truthy iff non-empty (`truthy`) -/
def truthyOpt {P : Type} (truthy : P → Bool) : Option P → Bool
  | some p => truthy p
  | none => false

/-- a run of consecutive statements of `plan()` that the translator keeps OPAQUE (validation, dtype normalisation, band mask):
    statement number `i` is `step i`, mapping the plan object (with the method's temporaries) to the object after the statement and
    the exception it raised, if any.  `runSteps step lo n p` executes statements `lo … lo+n-1` in order and stops at the first raise. -/
def runSteps {P : Type} (step : Nat → P → P × Option PyExc) : Nat → Nat → P → P × Option PyExc
  | _, 0, p => (p, none)
  | lo, n + 1, p =>
    match step lo p with
    | (p', some e) => (p', some e)
    | (p', none) => runSteps step (lo + 1) n p'

/-! ### what the constructor's two `_process_*_config` methods write into `self.config` (`none` = key not written) -/

structure WinOut (α : Type) where
  win_func : Option WinFn := none
  alpha : Option (Option α) := none
  final_olap : Option α := none
  win_name : Option (Option String) := none

structure SchedOut where
  scheduler_func : Option SchedId := none
  scheduler_name : Option String := none

/-- outputs of compute / compute_single_bin as far as the plan state is concerned -/
inductive OpOut (P R S : Type) where
  | plan (p : P)
  | planNone
  | result (r : R)
  | single (s : S)
  | error (e : PyExc)

end CG
