/-
  SpecKitV.Np.NoiseGens — stated contracts of the NumPy / SciPy routines the translated generator classes of
  speckit/noise.py (region `NoiseGens`, Gen/NoiseGens.lean) refer to.  Definitions, never axioms; Mathlib-free.
  Each one is listed in `vk/props/C17.py: CONTRACTS` with the call it stands for, and each is exercised against the
  real routine by the `genobj` differential run (the generated classes executed in Float vs the real objects).

    NpNG.Rng, NpNG.default_rng, NpNG.normal, NpNG.normal1   numpy.random.default_rng(seed) / Generator.normal
    NpNG.lfilter, NpNG.lfilterEmptyState                scipy.signal.lfilter(b, a, x, zi=zi), first-order section
    NpNG.lfilter_zi                                   scipy.signal.lfilter_zi(b, a), first-order section
    NpNG.arrayOfList, NpNG.emptyArr                     np.array([...]), np.array([]) / np.empty(0)
    NpNG.pySlice                                      a[lo:hi] (step 1) with Python's negative / clamped bounds
    NpNG.zeros2, NpNG.vstack2T                          np.zeros((n, m)), np.vstack([u, v]).T
-/
import SpecKitV.Num
import SpecKitV.Model.Noise

namespace NpNG
open RealLike
variable {α : Type} [RealLike α]

/-! ### numpy.random.Generator over an abstract stream of standard-normal draws -/

/-- a `numpy.random.Generator`: its position on the stream `xi : Nat → α` of standard-normal draws that its seed determines -/
structure Rng where
  cur : Nat

/-- `np.random.default_rng(seed)`: a fresh generator at the start of the stream determined by `seed`
    (two generators built from the same seed read the same stream `xi` from position 0) -/
def default_rng : Rng := ⟨0⟩

/-- `g.normal(loc, scale, size=n)`: the next `n` draws, each `loc + scale * z`; the cursor advances by `n`
    (chunk-invariant: how the draws are split into calls does not matter) -/
def normal (xi : Nat → α) (g : Rng) (loc scale : α) (size : Nat) : Arr α × Rng :=
  (⟨size, fun i => loc + scale * xi (g.cur + i)⟩, ⟨g.cur + size⟩)

/-- `g.normal(loc, scale)` with `size=None`: ONE draw -/
def normal1 (xi : Nat → α) (g : Rng) (loc scale : α) : α × Rng :=
  (loc + scale * xi g.cur, ⟨g.cur + 1⟩)

/-! ### small array constructors -/

/-- `np.array([])`, `np.empty(0)` -/
def emptyArr : Arr α := ⟨0, fun _ => zero⟩

/-- `np.array([e0, e1, …])` -/
def arrayOfList (l : List α) : Arr α := ⟨l.length, fun i => l.getD i zero⟩

/-- `np.zeros((n, m))` -/
def zeros2 (n m : Nat) : Arr2 α := ⟨n, m, fun _ _ => zero⟩

/-- `np.vstack([u, v]).T`: the `len(u) × 2` matrix whose columns are `u` and `v` -/
def vstack2T (u v : Arr α) : Arr2 α := ⟨u.n, 2, fun i j => if j = 0 then u.get i else v.get i⟩

/-- a Python slice bound on an axis of length `n`: a negative bound counts from the end; the result is clamped to `[0, n]` -/
def sliceBound (n : Nat) (i : Int) : Nat := if i < 0 then Int.toNat ((n : Int) + i) else Nat.min (Int.toNat i) n

/-- `a[lo:hi]` (step 1; `none` = omitted bound) -/
def pySlice {β : Type} (a : Arr β) (lo hi : Option Int) : Arr β :=
  let s := match lo with | none => 0 | some i => sliceBound a.n i
  let e := match hi with | none => a.n | some i => sliceBound a.n i
  ⟨e - s, fun i => a.get (s + i)⟩

/-! ### scipy.signal first-order sections -/

/-- the final state `scipy.signal.lfilter` returns for an EMPTY input block is not specified (observed: not the initial state —
    design-phase defect D9 of `red_noise.get_series(0)`).  Sealed: nothing can be proved about it, so translated code that hands
    `lfilter` an empty block cannot be proved equal to the model.  (Executable body: the identity; the differential run then
    disagrees with the real routine whenever the code really depends on it.) -/
opaque lfilterEmptyState {α : Type} [RealLike α] (zi : Arr α) : Arr α := zi

/-- `scipy.signal.lfilter(b, a, x, zi=zi)` for a first-order section (`len(a) = 2`, `len(b) ≤ 2`, `len(zi) = 1`):
    coefficients normalised by `a[0]`, `b` padded with zeros, direct form II transposed
    `y = b0*x + z ; z = b1*x - a1*y` (`Model.sectionRun`); returns the outputs and the final state. -/
def lfilter (b a x zi : Arr α) : Arr α × Arr α :=
  let a0 := a.get 0
  let b0 := b.get 0 / a0
  let b1 := if 1 < b.n then b.get 1 / a0 else zero
  let a1 := a.get 1 / a0
  let r := Model.sectionRun b0 b1 a1 (zi.get 0) ((List.range x.n).map x.get)
  let ys := r.1.toArray
  (⟨ys.size, fun i => ys.getD i zero⟩, if x.n = 0 then lfilterEmptyState zi else ⟨1, fun _ => r.2⟩)

/-- `scipy.signal.lfilter_zi(b, a)` for `max(len(a), len(b)) = 2`: the state of the step-response steady state,
    `zi[0] = (b1 - a1*b0) / (1 + a1)` after normalising by `a[0]` (`b` zero-padded) -/
def lfilter_zi (b a : Arr α) : Arr α :=
  let a0 := a.get 0
  let b0 := b.get 0 / a0
  let b1 := if 1 < b.n then b.get 1 / a0 else zero
  let a1 := a.get 1 / a0
  ⟨1, fun _ => (b1 - a1 * b0) / (one + a1)⟩

end NpNG
