/-
  SpecKitV.Np.SchedGlue — the Python / NumPy primitives the TRANSLATED scheduler glue (`Gen/SchedGlue.lean`, regenerated from
  speckit/schedulers.py on every run) refers to.  Each definition is the *stated contract* of a builtin / NumPy routine; they are
  definitions, never axioms.  Mathlib-free (linked into the driver).

  * `Py.Val`       a keyword-argument value: a Python `int` or a Python `float`
  * `Py.Dict`      a `dict` with string keys as an association list, most recent binding first:
                   `d[k] = v` (`set`: last write wins), `d[k]` / `k in d` (`get?` / `contains`: the most recent binding),
                   `dict(d)` (`copy`: a new dict with the same bindings — the model has no aliasing, so the identity),
                   `d.update(e)` (`update`: every binding of `e` overrides `d`), `dict(k=v, …)` (`ofKw`)
  * `Py.PlanDict`  the dictionary a scheduler returns, as a record: one field per key
                   `"f" "r" "b" "m" "L" "K" "navg" "D" "O" "nf"`; array-valued entries are shown as the list of their elements
  * `NpSG.ofList`    `np.array(list)`: element `i` is `list[i]`, length `len(list)`
  * `NpSG.toList`, `NpSG.toList2`   the list of the elements of a (nested) array — the view under which a record field is stated
  * `NpSG.slice`     basic slicing `a[lo:hi]` (step 1) with Python's normalisation of negative / out-of-range bounds
-/
import SpecKitV.Num

namespace Py

/-- a Python value passed as a keyword argument -/
inductive Val (α : Type) where
  | int : Int → Val α
  | real : α → Val α

namespace Val
variable {α : Type} [RealLike α]
/-- use as an integer (record length, segment length, counts): only a Python `int` qualifies -/
def asInt : Val α → Option Int
  | .int z => some z
  | .real _ => none
/-- use in float arithmetic: an `int` is converted exactly -/
def asReal : Val α → α
  | .int z => RealLike.ofInt z
  | .real x => x
end Val

/-- `dict` with string keys: association list, most recent binding first -/
def Dict (β : Type) : Type := List (String × β)

namespace Dict
variable {β : Type}
def empty : Dict β := ([] : List (String × β))
/-- `d[k]` (`none` = KeyError) -/
def get? (d : Dict β) (k : String) : Option β := List.lookup k d
/-- `k in d` -/
def contains (d : Dict β) (k : String) : Bool := (get? d k).isSome
/-- `d[k] = v` -/
def set (d : Dict β) (k : String) (v : β) : Dict β := ((k, v) :: d : List (String × β))
/-- `dict(d)` -/
def copy (d : Dict β) : Dict β := d
/-- `d.update(e)` -/
def update (d e : Dict β) : Dict β := (List.append e d : List (String × β))
/-- `dict(k1=v1, k2=v2, …)` -/
def ofKw (l : List (String × β)) : Dict β := l.foldl (fun d p => set d p.1 p.2) empty
end Dict

/-- the dictionary returned by a scheduler, key by key -/
structure PlanDict (α : Type) where
  f : List α
  r : List α
  b : List α
  m : List α
  L : List Int
  K : List Int
  navg : List Int
  D : List (List Int)
  O : List α
  nf : Nat

end Py

namespace NpSG

/-- `np.array(l)` for a Python list of scalars (`dflt` is never read in range) -/
def ofList {β : Type} (dflt : β) (l : List β) : Arr β :=
  let a := l.toArray
  ⟨a.size, fun i => a.getD i dflt⟩

/-- the elements of an array, in order -/
def toList {β : Type} (a : Arr β) : List β := (List.range a.n).map a.get

/-- the elements of a list of arrays -/
def toList2 {β : Type} (a : Arr (Arr β)) : List (List β) := (toList a).map toList

/-- normalisation of one slice bound on an axis of length `n`: `None` ↦ the default, negative ↦ `n + i` (not below 0),
    beyond the end ↦ `n` -/
def sliceBound (n : Nat) (b : Option Int) (dflt : Nat) : Nat :=
  match b with
  | none => dflt
  | some i => if i < 0 then Int.toNat ((n : Int) + i) else min (Int.toNat i) n

/-- `a[lo:hi]` -/
def slice {β : Type} (a : Arr β) (lo hi : Option Int) : Arr β :=
  let s := sliceBound a.n lo 0
  let e := sliceBound a.n hi a.n
  ⟨e - s, fun i => a.get (s + i)⟩

end NpSG
