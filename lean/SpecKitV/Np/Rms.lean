/-
  SpecKitV.Np.Rms — Lean DEFINITIONS of the NumPy / SciPy / Python primitives the generated region `Rms`
  (lean/SpecKitV/Gen/Rms.lean, translated from speckit/dsp.py and speckit/analysis.py) refers to.
  Each definition is the *stated contract* of an external routine (listed in vk/props/C19.py CONTRACTS); they are
  definitions, never axioms.  Mathlib-free (linked into the driver).

    XR α, XR.lt/le/gt/ge, XR.neg, XR.isFinite   a Python float that may be ±inf (`np.inf`, `-np.inf`, `np.isfinite`)
    pyMax / pyMin, XR.pyMax / XR.pyMin           Python builtins `max(a, b)` / `min(a, b)` of two floats
    ofList                                       an array given by its list of elements
    npMin / npMax                                `np.min(a)` / `np.max(a)` over the WHOLE array
    compress                                     boolean-mask selection `a[mask]` (keeps the original order)
    cumtrapz                                     `scipy.integrate.cumulative_trapezoid(y, x, initial=c)`
    polyval                                      `np.polyval(p, t)` (Horner, highest power first)
  `np.polyfit` has NO definition here: it is a PARAMETER of `Gen.polynomial_detrend`; what is assumed of it is the
  predicate `RmsGen.PolyfitLS` (normal equations of the least-squares problem) in Props/RmsGen.lean.
-/
import SpecKitV.Num

namespace Np.Rms

/-- a Python `float` that may be infinite: `ninf` is `-np.inf`, `pinf` is `np.inf`, `fin x` a finite value.
    (NaN is outside the model, as everywhere in the `ℝ` reading.) -/
inductive XR (α : Type) where
  | ninf : XR α
  | fin : α → XR α
  | pinf : XR α

namespace XR
variable {α : Type} [RealLike α]

/-- IEEE / Python `a < b` with infinities -/
def lt : XR α → XR α → Bool
  | ninf, ninf => false
  | ninf, _ => true
  | fin _, ninf => false
  | fin a, fin b => RealLike.lt a b
  | fin _, pinf => true
  | pinf, _ => false

/-- IEEE / Python `a <= b` with infinities -/
def le : XR α → XR α → Bool
  | ninf, _ => true
  | fin _, ninf => false
  | fin a, fin b => RealLike.le a b
  | fin _, pinf => true
  | pinf, pinf => true
  | pinf, _ => false

@[inline] def gt (a b : XR α) : Bool := lt b a
@[inline] def ge (a b : XR α) : Bool := le b a

/-- unary minus -/
def neg : XR α → XR α
  | ninf => pinf
  | fin a => fin (-a)
  | pinf => ninf

/-- `np.isfinite(a)` -/
def isFinite : XR α → Bool
  | fin _ => true
  | _ => false

/-- Python builtin `max(a, b)` (CPython `min_max`: the running maximum `a` is replaced by `b` iff `b > a`) -/
def pyMax (a b : XR α) : XR α := if gt b a then b else a
/-- Python builtin `min(a, b)` (the running minimum `a` is replaced by `b` iff `b < a`) -/
def pyMin (a b : XR α) : XR α := if lt b a then b else a

end XR

variable {α : Type} [RealLike α]

/-- Python builtin `max(a, b)` of two finite floats: `b if b > a else a` -/
def pyMax (a b : α) : α := if RealLike.gt b a then b else a
/-- Python builtin `min(a, b)` of two finite floats: `b if b < a else a` -/
def pyMin (a b : α) : α := if RealLike.lt b a then b else a

/-- the array whose elements are the list `l` (reads outside the length are never produced by translated code) -/
def ofList (l : List α) : Arr α := ⟨l.length, fun i => l.getD i (RealLike.ofNat 0)⟩

/-- the elements of an array as a list -/
def toList {β : Type} (a : Arr β) : List β := (List.range a.n).map a.get

/-- `np.min(a)`: the smallest element of the whole array, whatever its order (`0` for an empty array, which NumPy rejects;
    the translated code rejects empty input before calling it) -/
def npMin (a : Arr α) : α :=
  match toList a with
  | [] => RealLike.ofNat 0
  | x :: xs => xs.foldl (fun m v => if RealLike.lt v m then v else m) x

/-- `np.max(a)`: the largest element of the whole array -/
def npMax (a : Arr α) : α :=
  match toList a with
  | [] => RealLike.ofNat 0
  | x :: xs => xs.foldl (fun m v => if RealLike.lt m v then v else m) x

/-- boolean-mask selection `a[mask]` for `len(mask) == len(a)` (NumPy raises otherwise): the elements of `a` at the positions
    where the mask is true, in their original order -/
def compress (mask : Arr Bool) (a : Arr α) : Arr α :=
  ofList (((List.range a.n).filter mask.get).map a.get)

/-- `scipy.integrate.cumulative_trapezoid(y, x, initial=c)` for 1-D `y`, `x` of equal length `n ≥ 1` (SciPy raises otherwise):
    `concat([c], cumsum(diff(x) * (y[1:] + y[:-1]) / 2.0))`, i.e. element `0` is `c` (NOT added to the rest) and element `k ≥ 1`
    is the left-to-right sum of the first `k` panels `(x[i+1] - x[i]) * (y[i+1] + y[i]) / 2`.
    (Not memoised: an element is computed when it is read; the region reads only `[-1]`.) -/
def cumtrapz (y x : Arr α) (c : α) : Arr α :=
  ⟨y.n, fun k =>
    if k = 0 then c
    else sumRange k (fun i => (x.get (i + 1) - x.get i) * (y.get (i + 1) + y.get i) / RealLike.ofNat 2)⟩

/-- `np.polyval(p, t)` on an integer abscissa array: Horner's rule `y = 0; for pv in p: y = y * t + pv`
    (coefficients from the highest power down) -/
def polyval (p : Arr α) (t : Arr Int) : Arr α :=
  Arr.memo ⟨t.n, fun i => forRange p.n (RealLike.ofNat 0) (fun k y => y * RealLike.ofInt (t.get i) + p.get k)⟩

end Np.Rms
