/-
  SpecKitV.Np.ResultQueries — Lean DEFINITIONS of the Python / NumPy / pandas primitives the generated region
  `Gen/ResultQueries.lean` refers to, and the value shapes it computes with.  Every definition here is the *stated contract*
  of an external routine (they are listed in vk/props/C20.py CONTRACTS); none is an axiom.  Mathlib-free.
-/
import SpecKitV.Num
import SpecKitV.Model.Dsp

namespace Np
variable {α : Type} [RealLike α]

/-! ### floats -/

/-- `np.isfinite(x)`: `x - x == 0` (false for NaN and ±Inf in IEEE arithmetic; every real number is finite) -/
def isfinite (x : α) : Bool := RealLike.beq (x - x) (RealLike.ofNat 0)

/-- `np.nan_to_num(x, nan=a, posinf=b, neginf=c)` on one element: the identity on finite values -/
def nanToNum (x nan posinf neginf : α) : α :=
  if RealLike.beq x x then
    (if isfinite x then x else if RealLike.lt (RealLike.ofNat 0) x then posinf else neginf)
  else nan

/-- elementwise application over a NumPy array -/
def amap {β γ : Type} (f : β → γ) (a : Arr β) : Arr γ := ⟨a.n, fun i => f (a.get i)⟩

/-- elementwise binary operation over two NumPy arrays of the same length (the length of the left operand) -/
def azip {β γ δ : Type} (f : β → γ → δ) (a : Arr β) (b : Arr γ) : Arr δ := ⟨a.n, fun i => f (a.get i) (b.get i)⟩

/-- the Python literal `1j` -/
def cxI : Cx α := ⟨RealLike.ofNat 0, RealLike.ofNat 1⟩

/-- `np.interp(x, xp, fp)` over the elements of `x` (argument order as in NumPy); one element is `Model.interp xp fp x`:
    clamped piecewise-linear interpolation on an increasing grid `xp` -/
def interp (x xp fp : List α) : List α := x.map (fun v => Model.interp xp fp v)

/-! ### the rows handed from `_lpsd_core` to `compute` (analysis.py: `results_block.append([i, XY, float(MXX), float(MYY),
    float(S1*S1), float(S2), float(M2), float(elapsed)])`): an 8-tuple addressed BY POSITION -/

structure Row8 (α : Type) where
  p0 : Int
  p1 : Cx α
  p2 : α
  p3 : α
  p4 : α
  p5 : α
  p6 : α
  p7 : α

/-- the per-bin arrays `compute()` puts into the result dictionary, addressed by their dictionary KEY -/
structure ResultArrays (α : Type) where
  XX : Arr α
  YY : Arr α
  XY : Arr (Cx α)
  S12 : Arr α
  S2 : Arr α
  M2 : Arr α
  compute_t : Arr α

/-! ### strings (`str.startswith`, `str.endswith`, `str.lower`) -/

def startswith (s p : String) : Bool := p.toList.isPrefixOf s.toList
def endswith (s p : String) : Bool := p.toList.isSuffixOf s.toList
def lower (s : String) : String := s.toLower
def upper (s : String) : String := s.toUpper

/-! ### dictionaries

Two readings of a Python `dict` are used.  (1) a *lookup* dictionary (`self._cache`): an association list whose most recent
binding comes first; only `in` / `[]` / `[]=` are used on it, so the order is unobservable.  (2) an *insertion-ordered*
dictionary (`df_dict`, whose key order becomes the column order of the DataFrame). -/

/-- `d[k]` (`none` = `KeyError`) -/
def dictGet {ν : Type} (d : List (String × ν)) (k : String) : Option ν :=
  match d with
  | [] => none
  | (k', v) :: rest => if k = k' then some v else dictGet rest k

/-- `k in d` -/
def dictHas {ν : Type} (d : List (String × ν)) (k : String) : Bool := (dictGet d k).isSome

/-- `d[k] = v` on a lookup dictionary: the new binding shadows any older one -/
def cacheStore {ν : Type} (d : List (String × ν)) (k : String) (v : ν) : List (String × ν) := (k, v) :: d

/-- the effect on `self._cache` of evaluating the formula of attribute `name`: the formula reads other attributes through
    `self.<attr>` — each such read is a nested call of the same protocol and leaves the binding `(n, eval n)`;
    `touched name` lists the attributes so read (transitively) -/
def formulaReads {ν : Type} (eval : String → ν) (touched : String → List String) (name : String)
    (d : List (String × ν)) : List (String × ν) :=
  (touched name).map (fun n => (n, eval n)) ++ d

/-- `d[k] = v` on an insertion-ordered dictionary: an existing key keeps its position -/
def odictSet {ν : Type} (d : List (String × ν)) (k : String) (v : ν) : List (String × ν) :=
  if dictHas d k then d.map (fun p => if k = p.1 then (k, v) else p) else d ++ [(k, v)]

/-! ### `sorted(set(xs) - S)` / `sorted(set(xs))` on strings (code-point order = Lean's `String` order) -/

/-- `set(xs)` as a duplicate-free list (one representative per element) -/
def dedup : List String → List String
  | [] => []
  | a :: l => if a ∈ l then dedup l else a :: dedup l

def sortedSetDiff (xs S : List String) : List String :=
  (dedup (xs.filter (fun a => !(S.contains a)))).mergeSort (fun a b => decide (a ≤ b))

def sortedSet (xs : List String) : List String := sortedSetDiff xs []

/-! ### the argument and the value of `get_measurement` -/

/-- the `freq` argument: a Python / NumPy scalar (`np.isscalar(freq)`), or anything else `np.asarray` accepts — an array of
    any shape given by its elements in C order (`np.interp` and the arithmetic used are elementwise, so the shape is carried
    through unchanged) -/
inductive Query (α : Type) where
  | scalar (x : α)
  | array (xs : List α)

/-- a tabulated quantity: a real array, or a complex one (`np.iscomplexobj`) -/
inductive Table (α : Type) where
  | real (y : List α)
  | cplx (y : List (Cx α))

/-- what `get_measurement` returns -/
inductive Meas (α : Type) where
  | scalarR (v : α)
  | scalarC (v : Cx α)
  | arrayR (v : List α)
  | arrayC (v : List (Cx α))

/-- `np.asarray(freq, dtype=float)`: the elements -/
def asarrayQ : Query α → List α
  | .scalar x => [x]
  | .array xs => xs

/-- `np.isscalar(freq)` -/
def isscalarQ : Query α → Bool
  | .scalar _ => true
  | .array _ => false

/-- `out.item()`: the single element of a size-1 array (`none` = `ValueError`) -/
def item {β : Type} : List β → Option β
  | [v] => some v
  | _ => none

/-! ### pandas -/

/-- `pd.DataFrame(d).set_index(k)`: the index column and the remaining columns in dictionary order (`none` = `KeyError`) -/
def frameSetIndex {ν : Type} (d : List (String × ν)) (k : String) : Option (ν × List (String × ν)) :=
  match dictGet d k with
  | some idx => some (idx, d.filter (fun p => !(p.1 == k)))
  | none => none

end Np
