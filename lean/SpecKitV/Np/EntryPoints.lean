/-
  SpecKitV.Np.EntryPoints — the Python / NumPy vocabulary of the TRANSLATED region `Gen/EntryPoints.lean`
  (generated from speckit/analysis.py and speckit/core.py by vk/regions/entry_points.py):

    * the VALUE MODEL of a results dictionary (`EP.Num`, `EP.Item`, `EP.Val`, `EP.Dict`) — what can sit under a key of the dictionary
      handed to `SpectrumResult.__init__`;
    * the NumPy routines `__init__` calls on such values, each a STATED CONTRACT (a definition, never an axiom), listed in
      vk/props/C20.py CONTRACTS and exercised by the generated-vs-real differential run;
    * the call vocabulary of the module-level wrappers (`EP.CallArgs`, `EP.Sig`);
    * exception classes and integer min / max for `core._select_backend` / `core._check_starts_bounds`.

  Outside the model (`EP.modelled` is false; the contracts then return `none`, which for a modelled input means "raises"):
  numeric arrays with two or more dimensions under a key other than "D", lists / tuples / object arrays under such a key whose
  elements are not all numbers, Python integers beyond int64, non-finite floats converted to int64, `None` and numeric strings as
  dictionary values (`opaque` stands for an object every NumPy numeric conversion rejects: a non-numeric `str`, a `dict`).
  Mathlib-free (linked into the driver).
-/
import SpecKitV.Num

namespace EP

/-! ### the option-monad loop combinators the translation is written with (`none` = an exception was raised) -/

/-- a Python `for` loop whose body may raise: left fold that stops at the first `none` -/
def foldlOpt {σ β : Type} (f : σ → β → Option σ) : σ → List β → Option σ
  | s, [] => some s
  | s, x :: xs =>
    match f s x with
    | none => none
    | some s' => foldlOpt f s' xs

/-- a list comprehension whose element expression may raise -/
def optMap {β γ : Type} (f : β → Option γ) : List β → Option (List γ)
  | [] => some []
  | x :: xs =>
    match f x with
    | none => none
    | some y =>
      match optMap f xs with
      | none => none
      | some ys => some (y :: ys)

/-- `enumerate(xs)` -/
def enumFrom {β : Type} : Nat → List β → List (Nat × β)
  | _, [] => []
  | i, x :: xs => (i, x) :: enumFrom (i + 1) xs

def enumerate {β : Type} (xs : List β) : List (Nat × β) := enumFrom 0 xs

/-! ### values -/

/-- a Python number (`int` within the int64 range) -/
inductive Num (α : Type) where
  | bool (b : Bool)
  | int (z : Int)
  | real (x : α)
  | cplx (z : Cx α)

/-- the dtypes `__init__` names -/
inductive DType where
  | int64 | float64 | complex128
deriving DecidableEq, Repr

/-- an element of a Python list / a cell of a 1-D object array: one bin's start vector in one of the forms the schedulers and
    callers produce, or a number -/
inductive Item (α : Type) where
  | none                               -- `None` (a fresh cell of `np.empty(n, dtype=object)`)
  | num (x : Num α)                    -- a Python number
  | pylist (xs : List (Num α))         -- a Python list of numbers
  | pytuple (xs : List (Num α))        -- a tuple of numbers
  | ivec (v : List Int)                -- a 1-D int64 ndarray
  | fvec (v : List α)                  -- a 1-D float64 ndarray
  | ivec0 (z : Int)                    -- a 0-d int64 ndarray (`np.asarray(3, dtype=np.int64)`)
  | objrow (xs : List (Num α))         -- one row of a 2-D object array (what iterating over it yields): a 1-D object array of numbers
  | opaque (id : Nat)                  -- any other object (no numeric conversion)

/-- a value under a key of the results dictionary -/
inductive Val (α : Type) where
  | bvec (v : List Bool)               -- 1-D bool ndarray
  | ivec (v : List Int)                -- 1-D int64 ndarray
  | fvec (v : List α)                  -- 1-D float64 ndarray
  | cvec (v : List (Cx α))             -- 1-D complex128 ndarray
  | pylist (xs : List (Item α))        -- Python list (of numbers: `[.num …]`; ragged: `[.ivec …, .pylist …]`)
  | pytuple (xs : List (Item α))       -- Python tuple
  | objvec (cells : List (Item α))     -- 1-D object ndarray
  | objmat (m : Nat) (rows : List (List (Num α)))   -- 2-D object ndarray, `rows.length × m`, cells are Python numbers
  | scalar (x : Num α)                 -- a Python scalar
  | opaque (id : Nat)                  -- any other object

/-- a Python `dict` with string keys: insertion-ordered association list (keys distinct) -/
abbrev Dict (α : Type) := List (String × Val α)

/-- the attributes `SpectrumResult.__init__` sets on `self` -/
structure Result (α C : Type) where
  data : Dict α          -- self._data
  config : C             -- self._config
  iscsd : Bool           -- self.iscsd
  fs : α                 -- self.fs
  cache : Dict α         -- self._cache
  nf : Nat               -- self.nf

variable {α : Type}

/-! ### dictionaries -/

/-- `dict(d)`: a NEW dictionary with the same bindings (shallow copy).  On association lists (values, not references) this is the
    identity; stores into the copy are functional updates of the copy and cannot reach `d`. -/
def dictCopy (d : Dict α) : Dict α := d

/-- `list(d.items())` -/
def dictItems (d : Dict α) : List (String × Val α) := d

/-- `d[k]` (`none` = KeyError) -/
def dictGet : Dict α → String → Option (Val α)
  | [], _ => none
  | (k', v) :: rest, k => if k' = k then some v else dictGet rest k

/-- `k in d` -/
def dictHas (d : Dict α) (k : String) : Bool := (dictGet d k).isSome

/-- `d.get(k, dflt)` -/
def dictGetD (d : Dict α) (k : String) (dflt : Val α) : Val α := (dictGet d k).getD dflt

/-- `d[k] = v`: an existing key keeps its position, a new key is appended -/
def dictSet (d : Dict α) (k : String) (v : Val α) : Dict α :=
  if dictHas d k then d.map (fun p => if p.1 = k then (k, v) else p) else d ++ [(k, v)]

/-! ### numbers -/

def Num.isCplx : Num α → Bool
  | .cplx _ => true
  | _ => false

def Num.isReal : Num α → Bool
  | .real _ => true
  | _ => false

def Num.isInt : Num α → Bool
  | .int _ => true
  | _ => false

def Num.isTrue : Num α → Bool
  | .bool b => b
  | _ => false

variable [RealLike α]

/-- real part as a float64 -/
def Num.re : Num α → α
  | .bool b => if b then RealLike.ofNat 1 else RealLike.ofNat 0
  | .int z => RealLike.ofInt z
  | .real x => x
  | .cplx z => z.re

/-- the number as a complex128 -/
def Num.toCx : Num α → Cx α
  | .cplx z => z
  | x => ⟨x.re, RealLike.ofNat 0⟩

/-- conversion to int64 as NumPy casts: exact on bool / int, TRUNCATION toward zero of the (real part of the) float -/
def Num.toInt : Num α → Int
  | .bool b => if b then 1 else 0
  | .int z => z
  | .real x => RealLike.trunc x
  | .cplx z => RealLike.trunc z.re

/-- one element cast to `dt`.  `nd = true`: the element of a numeric ndarray (complex → real discards the imaginary part with a
    ComplexWarning); `nd = false`: a Python object (`float(z)` / `int(z)` of a complex raises TypeError) -/
def castNum (dt : DType) (nd : Bool) (x : Num α) : Option (Num α) :=
  match dt with
  | .complex128 => some (.cplx x.toCx)
  | .float64 => if x.isCplx && !nd then none else some (.real x.re)
  | .int64 => if x.isCplx && !nd then none else some (.int x.toInt)

/-! ### items and values -/

def Item.isNum : Item α → Bool
  | .num _ => true
  | _ => false

def Item.numD : Item α → Num α
  | .num x => x
  | _ => .int 0

/-- the numbers of a sequence-like item (`none`: not a sequence) -/
def Item.seq? : Item α → Option (List (Num α))
  | .pylist xs => some xs
  | .pytuple xs => some xs
  | .objrow xs => some xs
  | .ivec v => some (v.map .int)
  | .fvec v => some (v.map .real)
  | _ => Option.none

/-- `isinstance(v, list)` -/
def isinstanceList : Val α → Bool
  | .pylist _ => true
  | _ => false

/-- iteration over a value (`enumerate(v)`, a comprehension): the elements of a list / tuple, the cells of a 1-D array, the rows of a
    2-D object array; a scalar or another object is not iterable (`none` = TypeError) -/
def iter : Val α → Option (List (Item α))
  | .pylist xs => some xs
  | .pytuple xs => some xs
  | .objvec xs => some xs
  | .objmat _ rows => some (rows.map .objrow)
  | .bvec v => some (v.map (fun b => .num (.bool b)))
  | .ivec v => some (v.map (fun z => .num (.int z)))
  | .fvec v => some (v.map (fun x => .num (.real x)))
  | .cvec v => some (v.map (fun z => .num (.cplx z)))
  | .scalar _ => none
  | .opaque _ => none

/-- `len(v)`: the length of the first axis -/
def len (v : Val α) : Option Nat := (iter v).map List.length

/-- `v.shape[0]` (`none` = AttributeError: lists, tuples and Python scalars have no shape) -/
def shape0 : Val α → Option Nat
  | .bvec v => some v.length
  | .ivec v => some v.length
  | .fvec v => some v.length
  | .cvec v => some v.length
  | .objvec c => some c.length
  | .objmat _ rows => some rows.length
  | _ => none

/-- `v.dtype == object` (`none` = AttributeError: lists, tuples, Python scalars and other objects have no dtype) -/
def dtypeIsObject : Val α → Option Bool
  | .bvec _ => some false
  | .ivec _ => some false
  | .fvec _ => some false
  | .cvec _ => some false
  | .objvec _ => some true
  | .objmat _ _ => some true
  | _ => none

/-- `np.empty(n, dtype=object)`: a 1-D object array of `n` cells holding `None` -/
def emptyObject (n : Nat) : Val α := .objvec (List.replicate n .none)

/-- `arr[i] = d` for a 1-D OBJECT array and an integer index: the object `d` ITSELF becomes cell `i` — no shape inspection, no
    broadcasting (`none`: IndexError, or `arr` is not a 1-D object array) -/
def objSet (arr : Val α) (i : Nat) (d : Item α) : Option (Val α) :=
  match arr with
  | .objvec cells => if i < cells.length then some (.objvec (cells.set i d)) else none
  | _ => none

/-- the dtype NumPy infers for a list of Python numbers: complex128 if any is complex, else float64 if any is a float, else int64
    if any is an int, else bool; the empty list gives an empty float64 array -/
def promote (xs : List (Num α)) : Val α :=
  if xs.any Num.isCplx then .cvec (xs.map Num.toCx)
  else if xs.any Num.isReal then .fvec (xs.map Num.re)
  else if xs.any Num.isInt then .ivec (xs.map Num.toInt)
  else if xs.isEmpty then .fvec []
  else .bvec (xs.map Num.isTrue)

/-- `np.asarray(v)` (no dtype) of a Python list or tuple of numbers; an ndarray is returned as it is.
    `none`: ragged or mixed nesting (ValueError) — or outside the model (`EP.modelled`): equal-length rows (a 2-D array), a scalar -/
def asarray : Val α → Option (Val α)
  | .pylist xs => if xs.all Item.isNum then some (promote (xs.map Item.numD)) else none
  | .pytuple xs => if xs.all Item.isNum then some (promote (xs.map Item.numD)) else none
  | .scalar _ => none
  | .opaque _ => none
  | v => some v

/-- the numbers of a value NumPy can convert to a 1-D numeric array, and whether they come from a numeric ndarray -/
def elems? : Val α → Option (List (Num α) × Bool)
  | .bvec v => some (v.map .bool, true)
  | .ivec v => some (v.map .int, true)
  | .fvec v => some (v.map .real, true)
  | .cvec v => some (v.map .cplx, true)
  | .pylist xs => if xs.all Item.isNum then some (xs.map Item.numD, false) else none
  | .pytuple xs => if xs.all Item.isNum then some (xs.map Item.numD, false) else none
  | .objvec xs => if xs.all Item.isNum then some (xs.map Item.numD, false) else none
  | .scalar x => some ([x], false)
  | .objmat _ _ => none
  | .opaque _ => none

/-- `np.ascontiguousarray(v, dtype=dt)`: a 1-D array of dtype `dt` with the same numbers (a scalar becomes a length-1 array);
    int64 ← float64 TRUNCATES toward zero; float64 / int64 ← complex128 ndarray keeps the real part (ComplexWarning);
    `none`: TypeError / ValueError (a Python complex to float64 / int64, a cell that is not a number, a non-numeric object) -/
def ascontiguousarray (dt : DType) (v : Val α) : Option (Val α) :=
  match elems? v with
  | none => none
  | some (xs, nd) =>
    match optMap (castNum dt nd) xs with
    | none => none
    | some ys =>
      match dt with
      | .float64 => some (.fvec (ys.map Num.re))
      | .int64 => some (.ivec (ys.map Num.toInt))
      | .complex128 => some (.cvec (ys.map Num.toCx))

/-- `np.asarray(d, dtype=np.int64)` of one item: an int64 vector with the same integers (a number becomes a 0-d array); floats are
    TRUNCATED; `none`: TypeError (`None`, a complex number, another object) -/
def asarrayItemInt64 : Item α → Option (Item α)
  | .none => none
  | .num x => if x.isCplx then none else some (.ivec0 x.toInt)
  | .pylist xs => if xs.any Num.isCplx then none else some (.ivec (xs.map Num.toInt))
  | .pytuple xs => if xs.any Num.isCplx then none else some (.ivec (xs.map Num.toInt))
  | .objrow xs => if xs.any Num.isCplx then none else some (.ivec (xs.map Num.toInt))
  | .ivec v => some (.ivec v)
  | .fvec v => some (.ivec (v.map RealLike.trunc))
  | .ivec0 z => some (.ivec0 z)
  | .opaque _ => none

/-- is every dictionary entry inside the value model (see the file header)?  For a modelled dictionary `none` means "raises". -/
def modelledVal (key : String) (v : Val α) : Bool :=
  if key = "D" then true
  else match v with
    | .pylist xs => xs.all Item.isNum
    | .pytuple xs => xs.all Item.isNum
    | .objvec xs => xs.all Item.isNum
    | .objmat _ _ => false
    | _ => true

def modelled (d : Dict α) : Bool := d.all (fun kv => modelledVal kv.1 kv.2)

/-! ### calls (module-level wrappers) -/

/-- the arguments of a call: positional values in order, keyword arguments by name (explicit keywords first, then the forwarded
    `**kwargs`, both in source / dictionary order) -/
structure CallArgs (V : Type) where
  pos : List V
  kw : List (String × V)

/-- a `def` signature: positional-or-keyword parameters, keyword-only parameters with whether they have the default `None`,
    and whether there is a `**kwargs` catch-all -/
structure Sig where
  params : List String
  kwonly : List (String × Bool)
  varkw : Bool
deriving DecidableEq, Repr

/-! ### core.py helpers -/

inductive PyExc where
  | ValueError | RuntimeError | TypeError | Other
deriving DecidableEq, Repr

/-- `starts.size` of a 1-D array -/
def size (v : List Int) : Nat := v.length

/-- `int(starts.min())` (ValueError on an empty array) -/
def amin : List Int → Except PyExc Int
  | [] => .error .ValueError
  | x :: xs => .ok (xs.foldl (fun m y => if y < m then y else m) x)

/-- `int(starts.max())` (ValueError on an empty array) -/
def amax : List Int → Except PyExc Int
  | [] => .error .ValueError
  | x :: xs => .ok (xs.foldl (fun m y => if m < y then y else m) x)

end EP

namespace Np
variable {α : Type}

/-- NumPy's shape rule for `np.array(items, dtype=object)` / `np.asarray(items, dtype=object)` on a Python list:
    if the list is non-empty and EVERY element is a sequence (list, tuple, 1-D array) and all have ONE common length `m`, NumPy
    descends and builds a 2-D `len(items) × m` object array whose cells are the individual numbers — also for a single element and
    for `m = 0`; otherwise (lengths differ, or some element is not a sequence, or the list is empty) the result is the 1-D object
    array of the elements themselves. -/
def objectArrayOfList (items : List (EP.Item α)) : EP.Val α :=
  match items with
  | [] => .objvec []
  | first :: _ =>
    match first.seq? with
    | none => .objvec items
    | some s0 =>
      if items.all (fun it => match it.seq? with
                              | some s => s.length == s0.length
                              | none => false)
      then .objmat s0.length (items.map (fun it => (it.seq?).getD []))
      else .objvec items

/-- the element-by-element fill `arr = np.empty(len(items), dtype=object); for i, d in enumerate(items): arr[i] = f(d)` as the
    translator emits it (a fold of `EP.objSet` over `EP.enumerate`): ALWAYS a 1-D object array with one cell per element
    (`Props/EntryPointsGen.emptyObjectFill_eq`), whatever the shapes of the elements -/
def emptyObjectFill (f : EP.Item α → Option (EP.Item α)) (items : List (EP.Item α)) : Option (EP.Val α) :=
  EP.foldlOpt (fun arr id_ =>
      match f id_.2 with
      | none => none
      | some t => EP.objSet arr id_.1 t) (EP.emptyObject items.length) (EP.enumerate items)

end Np
