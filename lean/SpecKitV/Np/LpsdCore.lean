/-
  SpecKitV.Np.LpsdCore — stated contracts of the Python / NumPy primitives the generated region `LpsdCore`
  (vk/regions/lpsd_core.py → Gen/LpsdCore.lean) refers to.  Definitions, never axioms.  Mathlib-free.

  * Python `dict` used as a cache  = association list, newest entry first, read with `Model.lookup`
      `{}` `k in d` `d[k]` `d.get(k)` `d[k] = v`            → dictEmpty dictHas dictGet dictGetOpt dictSet
  * NumPy                                                     → sum (np.sum), sliceTo (a[:stop]), any (m.any() / np.any(m)),
      maskSelect (a[mask]), zipFilter ([d for d, keep in zip(l, mask) if keep]), isfinite (np.isfinite)
  * a value that Python represents by `None` in a variable that otherwise holds an array → noneArr / noneArr2
  * the window callable of the analyzer configuration         → WinFunc (is it np_kaiser/sp_kaiser; call with 1 / 2 arguments)
  * the 18 kernel entry points imported by analysis.py        → KernelFamily (one field per NAME), Kernels6 (one backend)
-/
import SpecKitV.Num
import SpecKitV.Model.Analyzer

namespace NpLC
variable {α : Type} [RealLike α]

/-! ### control-flow joins -/

/-- the value `e` of an `if`/`match`/loop that assigns several variables, handed once to the rest of the block `k`
    (a `let` with a tuple pattern; spelled as a function so that unfolding it is a deliberate proof step) -/
@[inline] def join {β γ : Type} (e : β) (k : β → γ) : γ := k e

theorem join_mk {β₁ β₂ γ : Type} (a : β₁) (b : β₂) (k : β₁ × β₂ → γ) : join (a, b) k = k (a, b) := rfl

/-! ### Python dict as a cache -/

/-- `{}` -/
def dictEmpty {κ ν : Type} : List (κ × ν) := []
/-- `k in d` -/
def dictHas {κ ν : Type} [DecidableEq κ] (d : List (κ × ν)) (k : κ) : Bool := (Model.lookup k d).isSome
/-- `d.get(k)` (`None` = `none`) -/
def dictGetOpt {κ ν : Type} [DecidableEq κ] (d : List (κ × ν)) (k : κ) : Option ν := Model.lookup k d
/-- `d[k]`; Python raises `KeyError` for a missing key — here the stated default (never reached behind a `k in d` test) -/
def dictGet {κ ν : Type} [DecidableEq κ] (dflt : ν) (d : List (κ × ν)) (k : κ) : ν := (Model.lookup k d).getD dflt
/-- `d[k] = v`: the new entry shadows an older one with the same key -/
def dictSet {κ ν : Type} (d : List (κ × ν)) (k : κ) (v : ν) : List (κ × ν) := (k, v) :: d

/-! ### NumPy -/

/-- the value standing for `None` where a 1-D array is expected -/
def noneArr : Arr α := ⟨0, fun _ => RealLike.ofNat 0⟩
/-- the value standing for `None` where a 2-D array is expected -/
def noneArr2 : Arr2 α := ⟨0, 0, fun _ _ => RealLike.ofNat 0⟩

/-- `np.sum(a)` of a 1-D float array (accumulated left to right; NumPy's pairwise order differs by rounding only) -/
def sum (a : Arr α) : α := sumRange a.n a.get

/-- `a[:stop]`: a negative `stop` counts from the end; the result is clipped to the array -/
def sliceTo {β : Type} (a : Arr β) (stop : Int) : Arr β :=
  let e : Nat := if stop < 0 then Int.toNat ((a.n : Int) + stop) else Int.toNat stop
  ⟨if e ≤ a.n then e else a.n, a.get⟩

/-- `m.any()` / `np.any(m)` -/
def any (m : Arr Bool) : Bool := (List.range m.n).any m.get

/-- `a[mask]` with a boolean mask of the same length: the elements at the `True` positions, in order -/
def maskSelect {β : Type} (a : Arr β) (mask : Arr Bool) : Arr β :=
  let idx := (List.range a.n).filter mask.get
  ⟨idx.length, fun i => a.get (idx.getD i 0)⟩

/-- `[d for d, keep in zip(l, mask) if keep]` -/
def zipFilter {β : Type} (l : List β) (mask : Arr Bool) : List β :=
  ((l.zip ((List.range mask.n).map mask.get)).filter (fun p => p.2)).map (fun p => p.1)

/-- `np.isfinite(x)`: `x - x == 0` holds exactly for finite doubles (and for every real) -/
def isfinite (x : α) : Bool := RealLike.beq (x - x) (RealLike.ofNat 0)

/-- the elements of a 1-D array as a Python list / a Python list as a 1-D array -/
def toList {β : Type} (a : Arr β) : List β := (List.range a.n).map a.get
def ofList {β : Type} (dflt : β) (l : List β) : Arr β := ⟨l.length, fun i => l.getD i dflt⟩

/-! ### the window callable `self.config["win_func"]` -/

structure WinFunc (α : Type) where
  /-- `win_func in (np_kaiser, sp_kaiser)` -/
  isKaiser : Bool
  /-- `win_func(M)` -/
  call1 : Nat → Arr α
  /-- `win_func(M, beta)` -/
  call2 : Nat → α → Arr α

/-- `np.kaiser(M, beta)` / `scipy.signal.windows.kaiser(M, beta)`: the symmetric M-point Kaiser window
    `I0(beta*sqrt(1 - ((n - (M-1)/2)/((M-1)/2))^2)) / I0(beta)`, `I0` by its power series (`Model.besselI0`, 80 terms) -/
def kaiser (M : Nat) (beta : α) : Arr α :=
  ⟨M, fun n =>
    let a : α := RealLike.ofNat (M - 1) / RealLike.two
    let u := (RealLike.ofNat n - a) / a
    Model.besselI0 80 (beta * RealLike.sqrt (RealLike.one - u * u)) / Model.besselI0 80 beta⟩

/-! ### kernel entry points -/

abbrev Stats (α : Type) := α × α × α × α × α
abbrev KAuto (α : Type) := Arr α → Arr Nat → Nat → Arr α → α → Stats α
abbrev KCsd (α : Type) := Arr α → Arr α → Arr Nat → Nat → Arr α → α → Stats α
abbrev KAutoQ (α : Type) := Arr α → Arr Nat → Nat → Arr α → α → Arr2 α → Stats α
abbrev KCsdQ (α : Type) := Arr α → Arr α → Arr Nat → Nat → Arr α → α → Arr2 α → Stats α

/-- the six kernels of one backend -/
structure Kernels6 (α : Type) where
  win_only_auto : KAuto α
  win_only_csd : KCsd α
  detrend0_auto : KAuto α
  detrend0_csd : KCsd α
  poly_auto : KAutoQ α
  poly_csd : KCsdQ α

/-- the 18 names `analysis.py` imports from core.py / core_cuda.py; a field per NAME, so that the generated dispatch
    refers to kernels by the name the source uses -/
structure KernelFamily (α : Type) where
  _stats_win_only_auto : KAuto α
  _stats_win_only_csd : KCsd α
  _stats_detrend0_auto : KAuto α
  _stats_detrend0_csd : KCsd α
  _stats_poly_auto : KAutoQ α
  _stats_poly_csd : KCsdQ α
  _stats_win_only_auto_cuda : KAuto α
  _stats_win_only_csd_cuda : KCsd α
  _stats_detrend0_auto_cuda : KAuto α
  _stats_detrend0_csd_cuda : KCsd α
  _stats_poly_auto_cuda : KAutoQ α
  _stats_poly_csd_cuda : KCsdQ α
  _stats_win_only_auto_np : KAuto α
  _stats_win_only_csd_np : KCsd α
  _stats_detrend0_auto_np : KAuto α
  _stats_detrend0_csd_np : KCsd α
  _stats_poly_auto_np : KAutoQ α
  _stats_poly_csd_np : KCsdQ α

/-- which NAMES serve which backend string returned by `_select_backend`: `"cuda"` the `_cuda` wrappers, `"numba"` the
    plain names, anything else (`"numpy"`) the `_np` fallbacks -/
def KernelFamily.pick (k : KernelFamily α) (backend : String) : Kernels6 α :=
  if backend = "cuda" then
    ⟨k._stats_win_only_auto_cuda, k._stats_win_only_csd_cuda, k._stats_detrend0_auto_cuda, k._stats_detrend0_csd_cuda,
     k._stats_poly_auto_cuda, k._stats_poly_csd_cuda⟩
  else if backend = "numba" then
    ⟨k._stats_win_only_auto, k._stats_win_only_csd, k._stats_detrend0_auto, k._stats_detrend0_csd,
     k._stats_poly_auto, k._stats_poly_csd⟩
  else
    ⟨k._stats_win_only_auto_np, k._stats_win_only_csd_np, k._stats_detrend0_auto_np, k._stats_detrend0_csd_np,
     k._stats_poly_auto_np, k._stats_poly_csd_np⟩

/-- a family from its three backends -/
def KernelFamily.ofBackends (numba cuda np : Kernels6 α) : KernelFamily α :=
  { _stats_win_only_auto := numba.win_only_auto, _stats_win_only_csd := numba.win_only_csd
    _stats_detrend0_auto := numba.detrend0_auto, _stats_detrend0_csd := numba.detrend0_csd
    _stats_poly_auto := numba.poly_auto, _stats_poly_csd := numba.poly_csd
    _stats_win_only_auto_cuda := cuda.win_only_auto, _stats_win_only_csd_cuda := cuda.win_only_csd
    _stats_detrend0_auto_cuda := cuda.detrend0_auto, _stats_detrend0_csd_cuda := cuda.detrend0_csd
    _stats_poly_auto_cuda := cuda.poly_auto, _stats_poly_csd_cuda := cuda.poly_csd
    _stats_win_only_auto_np := np.win_only_auto, _stats_win_only_csd_np := np.win_only_csd
    _stats_detrend0_auto_np := np.detrend0_auto, _stats_detrend0_csd_np := np.detrend0_csd
    _stats_poly_auto_np := np.poly_auto, _stats_poly_csd_np := np.poly_csd }

end NpLC
