/-
  SpecKitV.Np.DfWrappers — STATED CONTRACTS of the pandas / Python operations the translated DataFrame wrappers
  `dsp.df_timeshift` and `dsp.df_detrend` refer to (region `DfWrappers`, generated file `SpecKitV/Gen/DfWrappers.lean`).
  Each definition says what one pandas / Python operation does on the VALUE MODEL of a frame below; they are definitions
  (never axioms), executable at `Float` (the driver runs the generated code through them against the real pandas on every
  check run) and unfolded in the proofs at `ℝ`.  Mathlib-free (linked into the driver).

  Value model
    Col α     one column: label, NumPy `dtype.kind` character, values (one element of `α` per row; the values of a non-numeric
              column are opaque tokens that are only carried along and sliced)
    Frame α   ordered list of columns + row count + row index (opaque row labels, carried along and sliced)
    Heap α    the Python object store: object `r : Ref` is `objs[r]`; `none` = an object that is not a DataFrame.  Frames are
              MUTABLE Python objects: `df2 = df` aliases, `df.copy()` allocates, `df2[c] = v` writes into the object `df2` refers to.
              "the input frame is not modified" is therefore a statement about `Heap` (Props/DfWrappersGen.lean), not a tautology.
    PyFloat α a Python float argument that may be ±inf / nan (`np.isfinite`)
    PyTrunc   the dynamic type of the `truncate` argument: None | bool | int (incl. NumPy integers) | anything else
  Outside the model (stated, exercised by the differential run where it is reachable): frames with duplicate column labels
  (`df[c]` is then a DataFrame and `.dtype` raises), non-string column labels, complex columns (values are not in `α`).
-/
import SpecKitV.Num
import SpecKitV.Np.TimeShift

namespace NpDf

/-- one column of a frame -/
structure Col (α : Type) where
  name : String
  /-- `df[name].dtype.kind` -/
  kind : Char
  /-- `df[name].to_numpy()` / `.values` -/
  vals : Arr α

/-- value of a `pd.DataFrame` -/
structure Frame (α : Type) where
  cols : List (Col α)
  /-- `len(df)` -/
  nrows : Nat
  /-- `df.index` as opaque row labels -/
  index : Arr Nat

abbrev Ref := Nat

/-- Python object store (only DataFrame objects have a value; `none` = any other object) -/
structure Heap (α : Type) where
  objs : List (Option (Frame α))

/-- a Python float argument (`np.isfinite` distinguishes) -/
inductive PyFloat (α : Type) where
  | fin : α → PyFloat α
  | pinf : PyFloat α
  | ninf : PyFloat α
  | nan : PyFloat α

/-- `np.isfinite(x)` -/
def PyFloat.isFinite {α : Type} : PyFloat α → Bool
  | .fin _ => true
  | _ => false

/-- dynamic type (and value) of the `truncate` argument -/
inductive PyTrunc where
  | none : PyTrunc
  | bool : Bool → PyTrunc
  | int : Int → PyTrunc
  | other : PyTrunc

namespace PyTrunc
/-- `truncate is None` -/
def isNone : PyTrunc → Bool
  | .none => true
  | _ => false
/-- `isinstance(truncate, bool)` -/
def isBool : PyTrunc → Bool
  | .bool _ => true
  | _ => false
/-- `isinstance(truncate, (int, np.integer))`: Python's `bool` is a subclass of `int` -/
def isInt : PyTrunc → Bool
  | .bool _ => true
  | .int _ => true
  | _ => false
/-- `int(truncate)` for a bool / int (`int(True) = 1`); for any other object the conversion is outside the model (`none`) -/
def toInt? : PyTrunc → Option Int
  | .bool b => some (if b then 1 else 0)
  | .int z => some z
  | _ => Option.none
end PyTrunc

variable {α : Type}

namespace Frame

/-- the frame without columns and rows (value read for an object that is not a DataFrame) -/
def nil : Frame α := ⟨[], 0, ⟨0, fun i => i⟩⟩

/-- `df.columns.tolist()` -/
def names (f : Frame α) : List String := f.cols.map (·.name)

/-- `df.empty`: some axis has length 0 -/
def empty (f : Frame α) : Bool := decide (f.nrows = 0) || f.cols.isEmpty

/-- `c in df.columns` -/
def hasCol (f : Frame α) (c : String) : Bool := f.names.contains c

/-- `df[c]` for a column label (the first column of that label; `none` = KeyError) -/
def col? (f : Frame α) (c : String) : Option (Col α) := f.cols.find? (fun col => col.name == c)

/-- `df[c] = v` for an ndarray `v` of the frame's length: pandas' order rule — an existing label keeps its position and gets the
    new values (and their dtype), a new label is appended at the end -/
def setCol (f : Frame α) (c : String) (k : Char) (v : Arr α) : Frame α :=
  if f.hasCol c then { f with cols := f.cols.map (fun col => if col.name == c then ⟨c, k, v⟩ else col) }
  else { f with cols := f.cols ++ [⟨c, k, v⟩] }

/-- `df.iloc[lo:hi]`: the rows `lo' … hi'-1` with Python's slice rule on `len(df)` (negative bounds count from the end, bounds are
    clamped, empty if `hi' ≤ lo'`); every column and the index are sliced alike, labels / dtypes / column order are kept -/
def rows (f : Frame α) (lo hi : Int) : Frame α :=
  let l := NpTS.sliceBound f.nrows lo
  let u := NpTS.sliceBound f.nrows hi
  { cols := f.cols.map (fun col => { col with vals := ⟨u - l, fun i => col.vals.get (l + i)⟩ }),
    nrows := u - l,
    index := ⟨u - l, fun i => f.index.get (l + i)⟩ }

end Frame

namespace Heap

/-- the DataFrame value of object `r` (`Frame.nil` if `r` is not a DataFrame) -/
def frame (h : Heap α) (r : Ref) : Frame α :=
  match h.objs.getD r none with
  | some f => f
  | none => Frame.nil

/-- `isinstance(r, pd.DataFrame)` -/
def isFrame (h : Heap α) (r : Ref) : Bool := (h.objs.getD r none).isSome

/-- a new DataFrame object -/
def alloc (h : Heap α) (f : Frame α) : Heap α × Ref := (⟨h.objs ++ [some f]⟩, h.objs.length)

/-- overwrite the value of object `r` -/
def write (h : Heap α) (r : Ref) (f : Frame α) : Heap α := ⟨h.objs.set r (some f)⟩

end Heap

/-- `df.copy()`: a NEW object with the same columns, rows and index (deep copy: later writes to either do not reach the other) -/
def copy (h : Heap α) (r : Ref) : Heap α × Ref := h.alloc (h.frame r)

/-- `df[c]` (read) -/
def getitem (h : Heap α) (r : Ref) (c : String) : Option (Col α) := (h.frame r).col? c

/-- dtype kind of the float64 ndarray that `timeshift` / `polynomial_detrend` return (the pass-through / early-return branches of
    `timeshift` — a record of size ≤ 1, an exactly zero shift, a shift that moves the whole record out (`np.repeat` of the first / last
    sample) — return an array of the INPUT's dtype: not modelled, the values are the same; the differential run accepts exactly these) -/
def resultKind : Char := 'f'

/-- `df[c] = v` (write into the object `r` refers to) for an ndarray `v`: pandas raises ValueError unless `len(v) == len(df)`;
    the assignment is positional (an ndarray carries no index: no alignment) -/
def setitem (h : Heap α) (r : Ref) (c : String) (v : Arr α) : Option (Heap α) :=
  if v.n ≠ (h.frame r).nrows then none
  else some (h.write r ((h.frame r).setCol c resultKind v))

/-- `df.iloc[lo:hi]`: a NEW frame object holding the selected rows -/
def iloc (h : Heap α) (r : Ref) (lo hi : Int) : Heap α × Ref := h.alloc ((h.frame r).rows lo hi)

/-- `k in "<kinds>"` for a one-character dtype kind `k` -/
def kindIn (k : Char) (kinds : List Char) : Bool := kinds.contains k

/-- `[c for c in cols if c not in df.columns]` -/
def missing (f : Frame α) (cols : List String) : List String := cols.filter (fun c => !f.hasCol c)

/-- `for x in l: body` with a state that the body may update or abort (`none` = an exception leaves the loop and the function) -/
def forEach {β σ : Type} : List β → σ → (β → σ → Option σ) → Option σ
  | [], s, _ => some s
  | x :: xs, s, f =>
    match f x s with
    | none => none
    | some s' => forEach xs s' f

end NpDf
