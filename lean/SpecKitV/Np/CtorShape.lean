/-
  SpecKitV.Np.CtorShape — the Python / NumPy vocabulary the TRANSLATED constructor `SpectrumAnalyzer.__init__`
  (Gen/CtorShape.lean, generated from speckit/analysis.py by vk/regions/ctor_shape.py) is written in.
  Every definition is the stated contract of a Python builtin / NumPy routine (listed in vk/props/C13.py CONTRACTS).
  Definitions only, no axioms; Mathlib-free (linked into the driver).
-/
import SpecKitV.Num

namespace CS

/-- exception classes the constructor can end with (`Other` = anything else) -/
inductive PyExc where
  | ValueError | TypeError | IndexError | OverflowError | AttributeError | KeyError | Other
deriving DecidableEq, Repr

/-- a Python argument value: `None`, `bool`, `int`, `float`, `str`, a callable known by its name (`fn`), or any other object that is
    truthy and has no numeric / string-parsing conversion (`obj id`: a non-empty tuple such as `band=(f1, f2)`, an instance, …;
    two `obj` are the same object iff the ids agree) -/
inductive PyVal (α : Type) where
  | none
  | bool (b : Bool)
  | int (z : Int)
  | real (x : α)
  | str (s : String)
  | fn (name : String)
  | obj (id : Nat)

/-- what the interpreter answers for conversions of strings / reprs that are not modelled here (parameters of the translated
    constructor; the harness supplies CPython's own answers for the values it uses) -/
structure Env (α : Type) where
  /-- `float(s)` of a `str` (`none` = ValueError) -/
  floatOfStr : String → Option α
  /-- `int(s)` of a `str` (`none` = ValueError) -/
  intOfStr : String → Option Int
  /-- `str(v)` of a value that is not `str`, `None`, `bool`, `int` (a float's repr, a function's repr, …) -/
  strOf : PyVal α → String

section
variable {α : Type} [RealLike α]

/-! ### floats -/

/-- `np.isfinite(x)`: `x - x == 0` — false exactly for NaN and ±Inf in IEEE arithmetic; every real number is finite -/
def isfinite (x : α) : Bool := RealLike.beq (x - x) (RealLike.ofNat 0)
/-- `np.isnan(x)`: `x != x` -/
def isnan (x : α) : Bool := !(RealLike.beq x x)
/-- `np.isinf(x)`: a number (`x == x`) that is not finite -/
def isinf (x : α) : Bool := RealLike.beq x x && !(isfinite x)

/-- the largest finite double, `np.finfo(np.float64).max` (what `np.nan_to_num` substitutes for +Inf by default) -/
def f64max : α := RealLike.ofSci 17976931348623157 false 292

/-- `np.nan_to_num(x, nan=a, posinf=b, neginf=c)` on one element: the identity on finite values -/
def nanToNum (x nan posinf neginf : α) : α :=
  if RealLike.beq x x then
    (if isfinite x then x else if RealLike.lt (RealLike.ofNat 0) x then posinf else neginf)
  else nan

/-! ### builtins on argument values -/

def PyVal.isNone : PyVal α → Bool
  | .none => true
  | _ => false

/-- `float(v)` -/
def pyFloat (E : Env α) : PyVal α → Except PyExc α
  | .none => .error .TypeError
  | .bool b => .ok (if b then RealLike.ofNat 1 else RealLike.ofNat 0)
  | .int z => .ok (RealLike.ofInt z)
  | .real x => .ok x
  | .str s => match E.floatOfStr s with
    | some x => .ok x
    | none => .error .ValueError
  | .fn _ => .error .TypeError
  | .obj _ => .error .TypeError

/-- `int(v)`: truncation toward zero of a float; NaN → ValueError, ±Inf → OverflowError -/
def pyInt (E : Env α) : PyVal α → Except PyExc Int
  | .none => .error .TypeError
  | .bool b => .ok (if b then 1 else 0)
  | .int z => .ok z
  | .real x => if isnan x then .error .ValueError else if !(isfinite x) then .error .OverflowError else .ok (RealLike.trunc x)
  | .str s => match E.intOfStr s with
    | some z => .ok z
    | none => .error .ValueError
  | .fn _ => .error .TypeError
  | .obj _ => .error .TypeError

/-- `bool(v)` (truthiness; NaN is truthy because `nan != 0`) -/
def pyBool : PyVal α → Bool
  | .none => false
  | .bool b => b
  | .int z => z != 0
  | .real x => RealLike.bne x (RealLike.ofNat 0)
  | .str s => s != ""
  | .fn _ => true
  | .obj _ => true

/-- `str(v)` -/
def pyStr (E : Env α) : PyVal α → String
  | .str s => s
  | .none => "None"
  | .bool true => "True"
  | .bool false => "False"
  | .int z => toString z
  | v => E.strOf v

/-- `np.isfinite(v)` of a Python scalar: numbers only (a `str`, `None`, a function … raise TypeError) -/
def npIsfinite : PyVal α → Except PyExc Bool
  | .real x => .ok (isfinite x)
  | .int _ => .ok true
  | .bool _ => .ok true
  | _ => .error .TypeError

/-- numeric reading of a value for comparisons: `bool` and `int` are integers, `float` is a float -/
def PyVal.num? : PyVal α → Option (Int ⊕ α)
  | .bool b => some (.inl (if b then 1 else 0))
  | .int z => some (.inl z)
  | .real x => some (.inr x)
  | _ => Option.none

def numToReal : Int ⊕ α → α
  | .inl z => RealLike.ofInt z
  | .inr x => x

inductive Cmp where
  | lt | le | gt | ge
deriving DecidableEq, Repr

def Cmp.onInt : Cmp → Int → Int → Bool
  | .lt, a, b => decide (a < b)
  | .le, a, b => decide (a ≤ b)
  | .gt, a, b => decide (b < a)
  | .ge, a, b => decide (b ≤ a)

def Cmp.onReal : Cmp → α → α → Bool
  | .lt, a, b => RealLike.lt a b
  | .le, a, b => RealLike.le a b
  | .gt, a, b => RealLike.lt b a
  | .ge, a, b => RealLike.le b a

/-- `a < b`, `a <= b`, `a > b`, `a >= b` between Python scalars: numbers compare numerically (two integers exactly, otherwise as
    floats — exact for |int| < 2^53), anything else raises TypeError -/
def pyCmp (c : Cmp) (a b : PyVal α) : Except PyExc Bool :=
  match a.num?, b.num? with
  | some (.inl x), some (.inl y) => .ok (c.onInt x y)
  | some u, some v => .ok (c.onReal (numToReal u) (numToReal v))
  | _, _ => .error .TypeError

/-- `a == b`: numbers numerically, `str`/`None`/functions/objects by value / identity, different kinds are unequal -/
def pyEq (a b : PyVal α) : Bool :=
  match a.num?, b.num? with
  | some (.inl x), some (.inl y) => x == y
  | some u, some v => RealLike.beq (numToReal u) (numToReal v)
  | _, _ =>
    match a, b with
    | .none, .none => true
    | .str s, .str t => s == t
    | .fn s, .fn t => s == t
    | .obj i, .obj j => i == j
    | _, _ => false

/-- `a in (b0, b1, …)` -/
def pyIn (a : PyVal α) (l : List (PyVal α)) : Bool := l.any (fun b => pyEq a b)

end

/-! ### exceptions as values: sequencing and short-circuit `and` / `or` / `not` -/

def bind {β γ : Type} (a : Except PyExc β) (f : β → Except PyExc γ) : Except PyExc γ :=
  match a with
  | .error e => .error e
  | .ok v => f v

def andE (a : Except PyExc Bool) (b : Unit → Except PyExc Bool) : Except PyExc Bool :=
  match a with
  | .error e => .error e
  | .ok false => .ok false
  | .ok true => b ()

def orE (a : Except PyExc Bool) (b : Unit → Except PyExc Bool) : Except PyExc Bool :=
  match a with
  | .error e => .error e
  | .ok true => .ok true
  | .ok false => b ()

def notE (a : Except PyExc Bool) : Except PyExc Bool :=
  match a with
  | .error e => .error e
  | .ok v => .ok (!v)

/-! ### n-dimensional arrays: a shape and an index function -/

/-- the array `np.asarray(data)`: its shape and its elements by index list (`get [i, j]` = element `[i, j]`); reads outside the
    shape are never produced by the translated code -/
structure NdArr (α : Type) where
  shape : List Nat
  get : List Nat → α

/-- a Python index into an axis of length `n` (negative counts from the end); `none` = IndexError -/
def pyIdx (n : Nat) (k : Int) : Option Nat :=
  if 0 ≤ k then (if k.toNat < n then some k.toNat else none)
  else (if (-k).toNat ≤ n then some (n - (-k).toNat) else none)

/-- all index lists of a shape in C order -/
def indices : List Nat → List (List Nat)
  | [] => [[]]
  | n :: rest => (List.range n).flatMap (fun i => (indices rest).map (fun idx => i :: idx))

namespace NdArr
variable {α : Type}

/-- `x.ndim` -/
def ndim (x : NdArr α) : Int := (x.shape.length : Int)
/-- `x.shape[k]` (IndexError: tuple index out of range) -/
def shapeAt (x : NdArr α) (k : Int) : Except PyExc Int :=
  match pyIdx x.shape.length k with
  | some i => .ok ((x.shape.getD i 0 : Nat) : Int)
  | none => .error .IndexError
/-- `x.T`: axes reversed -/
def T (x : NdArr α) : NdArr α := ⟨x.shape.reverse, fun idx => x.get idx.reverse⟩
/-- `x[k]` for an integer `k`: the sub-array along the first axis (0-d array or `k` out of range: IndexError) -/
def item (x : NdArr α) (k : Int) : Except PyExc (NdArr α) :=
  match x.shape with
  | [] => .error .IndexError
  | n :: rest =>
    match pyIdx n k with
    | some i => .ok ⟨rest, fun idx => x.get (i :: idx)⟩
    | none => .error .IndexError
/-- `len(x)` (0-d: TypeError "len() of unsized object") -/
def len (x : NdArr α) : Except PyExc Int :=
  match x.shape with
  | [] => .error .TypeError
  | n :: _ => .ok (n : Int)
/-- `np.all(p(x))` for an elementwise predicate -/
def all (p : α → Bool) (x : NdArr α) : Bool := (indices x.shape).all (fun idx => p (x.get idx))
/-- `np.any(p(x))` -/
def any (p : α → Bool) (x : NdArr α) : Bool := (indices x.shape).any (fun idx => p (x.get idx))
/-- elementwise application -/
def map (f : α → α) (x : NdArr α) : NdArr α := ⟨x.shape, fun idx => f (x.get idx)⟩
/-- the elements in C order -/
def toList (x : NdArr α) : List α := (indices x.shape).map x.get

end NdArr

/-- `np.asarray(data)`: the input model IS this array (a nested list / tuple becomes the array of its nesting shape; an ndarray is
    itself; a scalar / `None` is a 0-d array; ragged nesting raises inside NumPy and is outside the model) -/
def asarray {α : Type} (data : NdArr α) : NdArr α := data

/-- `np.ascontiguousarray(x, dtype=np.float64)` at the value level: the same elements (the dtypes used convert exactly), at least 1-d -/
def ascontiguousarray_f64 {α : Type} (x : NdArr α) : NdArr α :=
  match x.shape with
  | [] => ⟨[1], fun _ => x.get []⟩
  | _ => x

/-! ### dictionaries with string keys (insertion-ordered association lists; the translator rejects duplicate literal keys) -/

abbrev PyDict (V : Type) := List (String × V)

def dictHas {V : Type} (d : PyDict V) (k : String) : Bool := d.any (fun kv => kv.1 == k)

def dictGet? {V : Type} : PyDict V → String → Option V
  | [], _ => none
  | (k', v) :: rest, k => if k' == k then some v else dictGet? rest k

/-- `d[k] = v`: replaces the value of an existing key in place, otherwise appends -/
def dictSet {V : Type} : PyDict V → String → V → PyDict V
  | [], k, v => [(k, v)]
  | (k', v') :: rest, k, v => if k' == k then (k', v) :: rest else (k', v') :: dictSet rest k v

/-- the value a keyword-only parameter receives: the caller's, else the default of the signature -/
def kwGet {α : Type} (kw defaults : PyDict (PyVal α)) (k : String) : PyVal α :=
  match dictGet? kw k with
  | some v => v
  | none => (dictGet? defaults k).getD .none

/-- a method of `self` that reads and writes `self.config` only (`_process_window_config`, `_process_scheduler_config`: translated
    separately in Gen/ConfigGlue.lean); a parameter of the translated constructor -/
abbrev Step (α : Type) := PyDict (PyVal α) → Except PyExc (PyDict (PyVal α))

/-- the attributes `__init__` leaves on `self` -/
structure CtorOut (α : Type) where
  fs : α
  verbose : Bool
  config : PyDict (PyVal α)
  iscsd : Bool
  data : NdArr α
  x1 : NdArr α
  x2 : Option (NdArr α)
  nx : Int
  plan_cache : PyVal α

end CS
