import SpecKitV.Num
